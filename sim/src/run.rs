//! Runner: child process (N worker threads on 8 MiB stacks over the case index space) and supervisor
//! (watchdog, crash attribution, minimisation, replay confirmation, known findings, evidence).

use crate::case::{Case, Stats, Tier, Viol};
use crate::props;
use serde::{Deserialize, Serialize};
use std::collections::BTreeMap;
use std::io::Write;
use std::path::{Path, PathBuf};
use std::sync::Mutex;
use std::sync::atomic::{AtomicBool, AtomicU64, Ordering};
use std::time::{Duration, Instant};

pub const DEFAULT_SEED: u64 = 20_260_927;
pub const STACK_BYTES: usize = 8 * 1024 * 1024;

pub fn verif_dir() -> PathBuf {
    // the binary lives in /verif/sim/target/release; the manifest dir is compiled in
    let p = PathBuf::from(env!("CARGO_MANIFEST_DIR"));
    p.parent().map(|x| x.to_path_buf()).unwrap_or(p)
}

#[derive(Serialize, Deserialize, Default)]
pub struct ChildResult {
    pub stats: Stats,
    pub n_behaviours: u64,
    pub n_nontrivial: u64,
    pub n_schedules: u64,
    pub viols: Vec<Viol>,
    pub viol_total: u64,
    pub nondeterministic: Vec<u64>,
    pub wall_s: f64,
    pub threads: usize,
    pub stopped_early: bool,
}

fn jobs() -> usize {
    std::env::var("VERIF_JOBS")
        .ok()
        .and_then(|s| s.parse().ok())
        .unwrap_or_else(|| std::thread::available_parallelism().map(|n| n.get()).unwrap_or(4))
        .clamp(1, 64)
}

/// Execute one case on a fresh 8 MiB thread (the thread-local state of the library starts clean only
/// on a fresh thread; properties that need that spawn their own threads inside `exec`).
pub fn exec_case(case: &Case, st: &mut Stats) -> Vec<Viol> {
    props::exec(case, st)
}

pub fn child_main(prop: &str, tier: Tier, seed: u64, out: &Path, hb_dir: &Path, skip: Vec<u64>) -> i32 {
    crate::lab::install_panic_hook();
    let spec = match props::spec(prop) {
        Some(s) => s,
        None => {
            eprintln!("unknown property {prop}");
            return 2;
        }
    };
    let total = (spec.total)(tier);
    // VERIF_LIMIT caps the number of case descriptions (used by the determinism self-test)
    let total = std::env::var("VERIF_LIMIT").ok().and_then(|s| s.parse::<u64>().ok()).map(|l| l.min(total)).unwrap_or(total);
    // C15 is about state that outlives a call: every thread of the process must be under the case's own
    // scheduler, so its cases run one at a time (other workers would interleave with process-wide state
    // behind the simulator's back; the cases are cheap, one worker is as fast as sixteen).
    let threads = if prop == "C15" { 1 } else { jobs() };
    let counter = AtomicU64::new(0);
    let stop = AtomicBool::new(false);
    #[allow(clippy::type_complexity)]
    let viols: Mutex<(Vec<(u64, Viol)>, BTreeMap<String, usize>, BTreeMap<(String, u64), usize>)> =
        Mutex::new((Vec::new(), BTreeMap::new(), BTreeMap::new()));
    let viol_total = AtomicU64::new(0);
    let unknown_total = AtomicU64::new(0);
    let known_open: Vec<KnownEntry> = load_known().into_iter().filter(|k| k.status == "open").collect();
    let nondet: Mutex<Vec<u64>> = Mutex::new(Vec::new());
    let merged: Mutex<Stats> = Mutex::new(Stats::default());
    let t0 = Instant::now();
    let _ = std::fs::create_dir_all(hb_dir);
    std::thread::scope(|sc| {
        for t in 0..threads {
            let (counter, stop, viols, viol_total, unknown_total, known_open, nondet, merged, spec, skip) =
                (&counter, &stop, &viols, &viol_total, &unknown_total, &known_open, &nondet, &merged, &spec, &skip);
            let hb_path = hb_dir.join(format!("hb.{t}"));
            std::thread::Builder::new()
                .stack_size(STACK_BYTES)
                .name(format!("w{t}"))
                .spawn_scoped(sc, move || {
                    let mut hb = std::fs::File::create(&hb_path).ok();
                    let mut st = Stats::default();
                    loop {
                        if stop.load(Ordering::Relaxed) {
                            break;
                        }
                        let idx = counter.fetch_add(1, Ordering::Relaxed);
                        if idx >= total {
                            break;
                        }
                        if skip.contains(&idx) {
                            continue;
                        }
                        if let Some(f) = hb.as_mut() {
                            use std::os::unix::fs::FileExt;
                            let _ = f.write_all_at(format!("{idx:020}\n").as_bytes(), 0);
                        }
                        let case = (spec.generate)(tier, seed, idx);
                        st.cases += 1;
                        if idx < 64 && st.samples.len() < 3 {
                            if let Ok(v) = serde_json::to_value(&case) {
                                let s = v.to_string();
                                if s.len() < 6000 {
                                    st.samples.push(v);
                                } else if idx == 0 {
                                    // very large first case: keep a readable cut of it so that the
                                    // evidence always shows at least one explored case
                                    let cut: String = s.chars().take(3000).collect();
                                    st.samples.push(serde_json::json!({"truncated_case_json": cut, "full_length": s.len()}));
                                }
                            }
                        }
                        st.cur_digest = 0;
                        let vs = exec_case(&case, &mut st);
                        let d1 = st.cur_digest;
                        st.log_digest = st.log_digest.wrapping_add(d1);
                        // determinism self-check on a sample: re-execute and compare the event-log digest
                        if idx % 64 == 5 {
                            let mut st2 = Stats::default();
                            let vs2 = exec_case(&case, &mut st2);
                            if st2.cur_digest != d1 || vs2.len() != vs.len() {
                                nondet.lock().unwrap().push(idx);
                            }
                        }
                        if !vs.is_empty() {
                            // instances of an open known finding do not count towards the early stop, and they
                            // have a sample quota of their own: a finding with thousands of instances must
                            // neither end the run before the cases that would show something else have been
                            // executed nor crowd those out of the sample that is minimised and reported
                            let known_id = |v: &Viol| -> Option<&str> {
                                known_open
                                    .iter()
                                    .find(|k| k.property == v.property && crate::known::matches(&k.predicate, v))
                                    .map(|k| k.id.as_str())
                            };
                            let unknown = vs.iter().filter(|v| known_id(v).is_none()).count() as u64;
                            viol_total.fetch_add(vs.len() as u64, Ordering::Relaxed);
                            let n = unknown_total.fetch_add(unknown, Ordering::Relaxed) + unknown;
                            let mut g = viols.lock().unwrap();
                            for v in vs {
                                // keep a varied sample: at most 40 per signature (and per known finding), at most
                                // 2 from one case description
                                let bucket = format!("{}#{}", v.signature(), known_id(&v).unwrap_or(""));
                                let same_sig = g.1.get(&bucket).copied().unwrap_or(0);
                                let same_case = g.2.get(&(bucket.clone(), idx)).copied().unwrap_or(0);
                                if same_sig < 40 && same_case < 2 {
                                    *g.1.entry(bucket.clone()).or_insert(0) += 1;
                                    *g.2.entry((bucket, idx)).or_insert(0) += 1;
                                    g.0.push((idx, v));
                                }
                            }
                            if n > 20_000 {
                                stop.store(true, Ordering::Relaxed);
                            }
                        }
                    }
                    if let Some(f) = hb.as_mut() {
                        use std::os::unix::fs::FileExt;
                        let _ = f.write_all_at(b"done                \n", 0);
                    }
                    merged.lock().unwrap().merge(st);
                })
                .expect("spawn worker");
        }
    });
    let stats = merged.into_inner().unwrap();
    let res = ChildResult {
        n_behaviours: stats.behaviours.len() as u64,
        n_nontrivial: stats.nontrivial.len() as u64,
        n_schedules: stats.schedules.len() as u64,
        stats,
        viols: viols.into_inner().unwrap().0.into_iter().map(|x| x.1).collect(),
        viol_total: viol_total.load(Ordering::Relaxed),
        nondeterministic: nondet.into_inner().unwrap(),
        wall_s: t0.elapsed().as_secs_f64(),
        threads,
        stopped_early: stop.load(Ordering::Relaxed),
    };
    match std::fs::write(out, serde_json::to_vec(&res).unwrap()) {
        Ok(()) => 0,
        Err(e) => {
            eprintln!("cannot write {out:?}: {e}");
            2
        }
    }
}

/// Run one generated case in this process (used for crash attribution).
pub fn one_main(prop: &str, tier: Tier, seed: u64, idx: u64) -> i32 {
    crate::lab::install_panic_hook();
    let Some(spec) = props::spec(prop) else { return 2 };
    let case = (spec.generate)(tier, seed, idx);
    let h = std::thread::Builder::new()
        .stack_size(STACK_BYTES)
        .spawn(move || {
            let mut st = Stats::default();
            exec_case(&case, &mut st).len()
        })
        .unwrap();
    match h.join() {
        Ok(_) => 0,
        Err(_) => 3,
    }
}

#[derive(Serialize, Deserialize, Clone)]
pub struct ReplayFile {
    pub property: String,
    pub clause: String,
    pub detail: String,
    pub seed: u64,
    pub tier: String,
    pub minimised: bool,
    pub case: Case,
}

pub fn run_case_on_thread(case: &Case) -> Result<(Vec<Viol>, u64), String> {
    let case = case.clone();
    let h = std::thread::Builder::new()
        .stack_size(STACK_BYTES)
        .spawn(move || {
            let mut st = Stats::default();
            let v = exec_case(&case, &mut st);
            (v, st.cur_digest)
        })
        .unwrap();
    h.join().map_err(|_| "case thread panicked".to_string())
}

pub fn replay_main(path: &Path) -> i32 {
    crate::lab::install_panic_hook();
    let data = match std::fs::read(path) {
        Ok(d) => d,
        Err(e) => {
            eprintln!("cannot read {path:?}: {e}");
            return 2;
        }
    };
    let rf: ReplayFile = match serde_json::from_slice(&data) {
        Ok(r) => r,
        Err(e) => {
            eprintln!("cannot parse {path:?}: {e}");
            return 2;
        }
    };
    match run_case_on_thread(&rf.case) {
        Ok((vs, digest)) => {
            let hit: Vec<&Viol> = vs.iter().filter(|v| v.clause == rf.clause).collect();
            println!("replay {} clause={} event-log-digest={digest:016x}", rf.property, rf.clause);
            if let Some(v) = hit.first() {
                println!("VIOLATION property={} replay={}", rf.property, path.display());
                println!("  clause: {}\n  detail: {}", v.clause, v.detail);
                1
            } else {
                println!("not reproduced: clause {} did not occur ({} other violations)", rf.clause, vs.len());
                for v in &vs {
                    println!("  other: {} — {}", v.clause, v.detail);
                }
                0
            }
        }
        Err(e) => {
            eprintln!("{e}");
            2
        }
    }
}

/// Delta-debugging loop over the explicit case description.
pub fn shrink_main(input: &Path, output: &Path) -> i32 {
    crate::lab::install_panic_hook();
    let Ok(data) = std::fs::read(input) else { return 2 };
    let Ok(mut rf) = serde_json::from_slice::<ReplayFile>(&data) else { return 2 };
    let mut budget = 2000usize;
    let fails = |c: &Case, clause: &str, budget: &mut usize| -> Option<String> {
        if *budget == 0 {
            return None;
        }
        *budget -= 1;
        match run_case_on_thread(c) {
            Ok((vs, _)) => vs.into_iter().find(|v| v.clause == clause).map(|v| v.detail),
            Err(_) => None,
        }
    };
    let mut progress = true;
    while progress && budget > 0 {
        progress = false;
        for cand in props::shrink_candidates(&rf.case) {
            if let Some(detail) = fails(&cand, &rf.clause, &mut budget) {
                rf.case = cand;
                rf.detail = detail;
                progress = true;
                break;
            }
        }
    }
    rf.minimised = true;
    match std::fs::write(output, serde_json::to_vec_pretty(&rf).unwrap()) {
        Ok(()) => 0,
        Err(_) => 2,
    }
}

// ------------------------------------------------------------------------------------------------
// Supervisor

#[derive(Deserialize, Clone, Debug)]
pub struct KnownEntry {
    pub id: String,
    pub property: String,
    pub status: String,
    #[serde(default)]
    pub clause: String,
    #[serde(default)]
    pub predicate: String,
    #[serde(default)]
    pub description: String,
    #[serde(default)]
    pub commit: String,
}

fn load_known() -> Vec<KnownEntry> {
    let p = verif_dir().join("known_findings.json");
    match std::fs::read(&p) {
        Ok(d) => serde_json::from_slice::<serde_json::Value>(&d)
            .ok()
            .and_then(|v| v.get("findings").cloned())
            .and_then(|f| serde_json::from_value(f).ok())
            .unwrap_or_default(),
        Err(_) => Vec::new(),
    }
}

fn self_exe() -> PathBuf {
    std::env::current_exe().expect("current_exe")
}

fn run_with_timeout(mut cmd: std::process::Command, timeout: Duration) -> (Option<std::process::ExitStatus>, String) {
    use std::process::Stdio;
    cmd.stdout(Stdio::piped()).stderr(Stdio::piped());
    let mut child = match cmd.spawn() {
        Ok(c) => c,
        Err(e) => return (None, format!("spawn failed: {e}")),
    };
    let t0 = Instant::now();
    loop {
        match child.try_wait() {
            Ok(Some(st)) => {
                let mut out = String::new();
                use std::io::Read;
                if let Some(mut o) = child.stdout.take() {
                    let _ = o.read_to_string(&mut out);
                }
                if let Some(mut e) = child.stderr.take() {
                    let mut s = String::new();
                    let _ = e.read_to_string(&mut s);
                    out.push_str(&s);
                }
                return (Some(st), out);
            }
            Ok(None) => {
                if t0.elapsed() > timeout {
                    let _ = child.kill();
                    let _ = child.wait();
                    return (None, "timeout".into());
                }
                std::thread::sleep(Duration::from_millis(20));
            }
            Err(e) => return (None, format!("wait failed: {e}")),
        }
    }
}

fn read_hb(dir: &Path) -> BTreeMap<String, String> {
    let mut m = BTreeMap::new();
    if let Ok(rd) = std::fs::read_dir(dir) {
        for e in rd.flatten() {
            if let Ok(s) = std::fs::read_to_string(e.path()) {
                m.insert(e.file_name().to_string_lossy().to_string(), s.trim().to_string());
            }
        }
    }
    m
}

pub fn check_main(prop: &str, tier: Tier) -> i32 {
    let t0 = Instant::now();
    let seed: u64 = std::env::var("VERIF_SEED")
        .ok()
        .and_then(|s| s.trim().parse().ok())
        .unwrap_or(DEFAULT_SEED);
    println!("VERIF_SEED={seed} property={prop} tier={}", tier.name());
    let Some(spec) = props::spec(prop) else {
        eprintln!("unknown property {prop}");
        return 2;
    };
    let vdir = verif_dir();
    let run_dir = vdir.join("run").join(prop);
    let _ = std::fs::remove_dir_all(&run_dir);
    if std::fs::create_dir_all(&run_dir).is_err() {
        eprintln!("cannot create {run_dir:?}");
        return 2;
    }
    let replays = vdir.join("replays");
    let _ = std::fs::create_dir_all(&replays);
    // replay files of earlier runs of this property are stale
    if let Ok(rd) = std::fs::read_dir(&replays) {
        for e in rd.flatten() {
            if e.file_name().to_string_lossy().starts_with(&format!("{prop}-")) {
                let _ = std::fs::remove_file(e.path());
            }
        }
    }
    let mut skip: Vec<u64> = Vec::new();
    let mut process_viols: Vec<(u64, String)> = Vec::new(); // (idx, what)
    let mut restarts = 0u32;
    let result: ChildResult = loop {
        let out = run_dir.join("result.json");
        let _ = std::fs::remove_file(&out);
        let hb_dir = run_dir.join("hb");
        let _ = std::fs::remove_dir_all(&hb_dir);
        let skip_arg = skip.iter().map(|x| x.to_string()).collect::<Vec<_>>().join(",");
        let script = format!(
            "ulimit -v 12582912 2>/dev/null; exec \"$0\" child {prop} {} {seed} \"$1\" \"$2\" \"$3\"",
            tier.name()
        );
        let mut cmd = std::process::Command::new("sh");
        cmd.arg("-c")
            .arg(&script)
            .arg(self_exe())
            .arg(&out)
            .arg(&hb_dir)
            .arg(if skip_arg.is_empty() { "-".to_string() } else { skip_arg });
        let mut child = match cmd.spawn() {
            Ok(c) => c,
            Err(e) => {
                eprintln!("cannot spawn child: {e}");
                return 2;
            }
        };
        // watchdog: a worker whose announced case does not change for STALL seconds is a hang
        let stall = Duration::from_secs(
            std::env::var("VERIF_STALL_S").ok().and_then(|s| s.parse().ok()).unwrap_or(90),
        );
        let mut last: BTreeMap<String, (String, Instant)> = BTreeMap::new();
        let mut hung: Option<u64> = None;
        let status = loop {
            match child.try_wait() {
                Ok(Some(st)) => break Some(st),
                Ok(None) => {}
                Err(_) => break None,
            }
            std::thread::sleep(Duration::from_millis(200));
            for (k, v) in read_hb(&hb_dir) {
                let now = Instant::now();
                let e = last.entry(k).or_insert((v.clone(), now));
                if e.0 != v {
                    *e = (v, now);
                } else if e.0 != "done" && now.duration_since(e.1) > stall {
                    hung = e.0.parse().ok();
                }
            }
            if hung.is_some() {
                let _ = child.kill();
                let _ = child.wait();
                break None;
            }
        };
        let ok = status.map(|s| s.success()).unwrap_or(false);
        if ok && let Ok(d) = std::fs::read(&out) && let Ok(r) = serde_json::from_slice::<ChildResult>(&d) {
            break r;
        }
        restarts += 1;
        if restarts > 12 || (restarts > 3 && !process_viols.is_empty()) {
            if process_viols.is_empty() {
                eprintln!("child keeps dying; giving up (harness error)");
                return 2;
            }
            // several cases abort or hang: enough to report, do not spend the budget on restarts
            println!("stopping after {} aborted / hung cases", process_viols.len());
            break ChildResult {
                stopped_early: true,
                ..Default::default()
            };
        }
        if let Some(idx) = hung {
            println!("watchdog: case {idx} made no progress for {}s", stall.as_secs());
            process_viols.push((idx, format!("no progress for {} s (killed by the watchdog)", stall.as_secs())));
            skip.push(idx);
            continue;
        }
        // abnormal end: find the culprit among the announced cases by re-running each in its own process
        let cands: Vec<u64> = read_hb(&hb_dir).values().filter_map(|v| v.parse().ok()).collect();
        println!("child ended abnormally ({status:?}); attributing among {} announced cases", cands.len());
        let mut found = false;
        for idx in cands {
            let mut c = std::process::Command::new("sh");
            c.arg("-c")
                .arg(format!(
                    "ulimit -v 12582912 2>/dev/null; exec \"$0\" one {prop} {} {seed} {idx}",
                    tier.name()
                ))
                .arg(self_exe());
            let (st, _out) = run_with_timeout(c, stall);
            let bad = match st {
                Some(s) => !s.success(),
                None => true,
            };
            if bad {
                let what = match st {
                    Some(s) => format!("process ended with {s}"),
                    None => "process hung".to_string(),
                };
                println!("  case {idx}: {what}");
                process_viols.push((idx, what));
                skip.push(idx);
                found = true;
            }
        }
        if !found {
            eprintln!("could not attribute the abnormal end to a case (harness error)");
            return 2;
        }
    };

    // For C15 a result that differs between two executions of the same call is the property's own
    // business (detected in-band by the isolation table, which runs every call on six fresh threads);
    // for every other property it means the harness is not deterministic.
    if !result.nondeterministic.is_empty() && prop != "C15" {
        eprintln!(
            "HARNESS ERROR: {} sampled cases produced a different event log when re-executed: {:?}",
            result.nondeterministic.len(),
            &result.nondeterministic[..result.nondeterministic.len().min(10)]
        );
        return 2;
    }

    // ---------------- violations: dedupe, minimise, confirm, match known findings ----------------
    let known = load_known();
    let mut by_sig: BTreeMap<String, Vec<Viol>> = BTreeMap::new();
    for v in &result.viols {
        by_sig.entry(v.signature()).or_default().push(v.clone());
    }
    // process-level violations (abort / hang) belong to the totality property only
    for (idx, what) in &process_viols {
        let case = (spec.generate)(tier, seed, *idx);
        let v = Viol {
            property: prop.to_string(),
            clause: "process-abort-or-hang".into(),
            detail: format!("case {idx}: {what}"),
            case,
        };
        by_sig.entry(v.signature()).or_default().push(v);
    }
    let mut new_violations = 0u32;
    let mut known_hits: BTreeMap<String, u32> = BTreeMap::new();
    let mut harness_error = false;
    let mut seen_min: std::collections::BTreeSet<(String, u64)> = Default::default();
    let mut seen_orig: std::collections::BTreeSet<u64> = Default::default();
    for (sig, vs) in &by_sig {
        // split the signature class by known-finding predicate so that a known finding does not hide others
        let mut reported_unknown = 0;
        let mut reported_known: BTreeMap<String, bool> = BTreeMap::new();
        for v in vs {
            let kf = known
                .iter()
                .find(|k| k.status == "open" && k.property == v.property && crate::known::matches(&k.predicate, v));
            if let Some(k) = kf {
                *known_hits.entry(k.id.clone()).or_insert(0) += 1;
                if reported_known.insert(k.id.clone(), true).is_none() {
                    println!("KNOWN-FINDING: property={} {} [{}] e.g. {}", v.property, k.description, k.id, one_line(&v.detail));
                }
                continue;
            }
            if reported_unknown >= 8 {
                continue;
            }
            reported_unknown += 1;
            // minimise in a subprocess
            let digest = crate::rng::fnv(serde_json::to_string(&v.case).unwrap().as_bytes());
            let clause_file: String = v.clause.chars().map(|c| if c.is_ascii_alphanumeric() { c } else { '-' }).collect();
            let raw = run_dir.join(format!("raw-{clause_file}-{digest:016x}.json"));
            let rf = ReplayFile {
                property: v.property.clone(),
                clause: v.clause.clone(),
                detail: v.detail.clone(),
                seed,
                tier: tier.name().into(),
                minimised: false,
                case: v.case.clone(),
            };
            let _ = std::fs::write(&raw, serde_json::to_vec_pretty(&rf).unwrap());
            if !seen_orig.insert(digest) {
                reported_unknown -= 1;
                continue;
            }
            let min_tmp = run_dir.join(format!("min-{clause_file}-{digest:016x}.json"));
            let mut min_path = raw.clone();
            if v.clause != "process-abort-or-hang" {
                let mut c = std::process::Command::new(self_exe());
                c.arg("shrink").arg(&raw).arg(&min_tmp);
                let (st, _) = run_with_timeout(c, Duration::from_secs(600));
                if st.map(|s| s.success()).unwrap_or(false) && min_tmp.exists() {
                    min_path = min_tmp.clone();
                }
            }
            // the minimised case may match a known finding even if the original did not (or vice versa)
            let min_case: Option<ReplayFile> = std::fs::read(&min_path).ok().and_then(|d| serde_json::from_slice(&d).ok());
            let mut md = digest;
            if let Some(m) = &min_case {
                let mv = Viol {
                    property: m.property.clone(),
                    clause: m.clause.clone(),
                    detail: m.detail.clone(),
                    case: m.case.clone(),
                };
                if let Some(k) = known
                    .iter()
                    .find(|k| k.status == "open" && k.property == mv.property && crate::known::matches(&k.predicate, &mv))
                {
                    *known_hits.entry(k.id.clone()).or_insert(0) += 1;
                    if reported_known.insert(k.id.clone(), true).is_none() {
                        println!("KNOWN-FINDING: property={} {} [{}] e.g. {}", mv.property, k.description, k.id, one_line(&mv.detail));
                    }
                    reported_unknown -= 1;
                    continue;
                }
                md = crate::rng::fnv(serde_json::to_string(&m.case).unwrap().as_bytes());
                if !seen_min.insert((m.clause.clone(), md)) {
                    reported_unknown -= 1;
                    continue;
                }
            }
            let final_path = replays.join(format!("{}-{clause_file}-{md:016x}.json", v.property));
            if std::fs::copy(&min_path, &final_path).is_err() {
                eprintln!("HARNESS ERROR: cannot write {final_path:?}");
                harness_error = true;
                continue;
            }
            // confirm in a fresh process
            if v.clause != "process-abort-or-hang" {
                let mut c = std::process::Command::new(self_exe());
                c.arg("replay").arg(&final_path);
                let (st, out) = run_with_timeout(c, Duration::from_secs(300));
                let reproduced = st.and_then(|s| s.code()) == Some(1) && out.contains("VIOLATION property=");
                if !reproduced {
                    eprintln!("HARNESS ERROR: {sig} did not reproduce from {final_path:?} in a fresh process:\n{out}");
                    harness_error = true;
                    continue;
                }
            }
            new_violations += 1;
            println!("VIOLATION property={} replay={}", v.property, final_path.display());
            println!("  clause: {}", v.clause);
            let detail = min_case.as_ref().map(|m| m.detail.clone()).unwrap_or(v.detail.clone());
            println!("  detail: {}", one_line(&detail));
        }
    }

    // ---------------- evidence ----------------
    let wall = t0.elapsed().as_secs_f64();
    let st = &result.stats;
    let mut fired: BTreeMap<String, u64> = BTreeMap::new();
    let mut steps: BTreeMap<String, u64> = BTreeMap::new();
    let mut outcomes: BTreeMap<String, u64> = BTreeMap::new();
    let mut other: BTreeMap<String, u64> = BTreeMap::new();
    for (k, v) in &st.counters {
        if let Some(r) = k.strip_prefix("fired.") {
            fired.insert(r.to_string(), *v);
        } else if let Some(r) = k.strip_prefix("steps.") {
            steps.insert(r.to_string(), *v);
        } else if let Some(r) = k.strip_prefix("outcome.") {
            outcomes.insert(r.to_string(), *v);
        } else {
            other.insert(k.clone(), *v);
        }
    }
    let per_hour = |n: u64| -> u64 { if result.wall_s > 0.0 { (n as f64 / result.wall_s * 3600.0) as u64 } else { 0 } };
    let evidence = serde_json::json!({
        "property_id": prop,
        "tier": tier.name(),
        "seed": seed,
        "level": spec.level,
        "coverage": {
            "evaluations": st.evals,
            "distinct_nontrivial": result.n_nontrivial,
            "rule": spec.rule,
            "samples": st.samples,
            "exhaustive": false,
            "case_descriptions": st.cases,
            "distinct_library_behaviours": result.n_behaviours,
            "distinct_schedules": result.n_schedules,
            "fault_kinds_fired": fired,
            "simulated_steps": steps,
            "simulated_time_note": "the system reads no clock; simulated time is counted in simulator steps (read / write / next calls, callbacks, hand-overs)",
            "outcome_classes": outcomes,
            "reach_and_controls": other,
            "runs_per_hour": per_hour(st.evals),
            "case_descriptions_per_hour": per_hour(st.cases),
            "seeds": [seed],
            "worker_threads": result.threads,
            "worker_stack_bytes": STACK_BYTES,
            "worker_restarts_after_abort_or_hang": restarts,
            "event_log_digest": format!("{:016x}", st.log_digest),
            "determinism_resampled_cases": st.cases / 64,
            "known_findings_hit": known_hits,
            "components": spec.components,
        },
        "assumptions": spec.assumptions,
        "wall_s": wall,
        "violations": new_violations,
    });
    let ev_dir = vdir.join("evidence");
    let _ = std::fs::create_dir_all(&ev_dir);
    let ev_path = ev_dir.join(format!("{prop}.json"));
    if let Err(e) = std::fs::write(&ev_path, serde_json::to_vec_pretty(&evidence).unwrap()) {
        eprintln!("cannot write evidence: {e}");
        return 2;
    }
    println!(
        "{prop} {}: {} case descriptions, {} executions, {} distinct non-trivial, {} violations ({} total raw), {:.1}s",
        tier.name(),
        st.cases,
        st.evals,
        result.n_nontrivial,
        new_violations,
        result.viol_total,
        wall
    );
    let _ = std::io::stdout().flush();
    // A confirmed violation (minimised, reproduced in a fresh process) is reported even if another raw
    // one did not reproduce; a run in which nothing could be confirmed but something did not reproduce is
    // a harness error, never a VIOLATION.
    if new_violations > 0 {
        return 1;
    }
    if harness_error {
        return 2;
    }
    0
}

fn one_line(s: &str) -> String {
    let t: String = s.chars().map(|c| if c == '\n' { '⏎' } else if c.is_control() { '·' } else { c }).collect();
    if t.chars().count() > 400 {
        format!("{}…", t.chars().take(400).collect::<String>())
    } else {
        t
    }
}


// ------------------------------------------------------------------------------------------------
// Determinism self-test: the same seed must give the same event log whatever the worker count and
// whichever process runs it (each process has its own hasher keys).

pub fn selftest_main(props_arg: &[String]) -> i32 {
    let all = ["C01", "C07", "C09", "C10", "C11", "C15", "C17"];
    let props: Vec<String> = if props_arg.is_empty() { all.iter().map(|s| s.to_string()).collect() } else { props_arg.to_vec() };
    let seeds: Vec<u64> = std::env::var("VERIF_SELFTEST_SEEDS")
        .ok()
        .map(|s| s.split(',').filter_map(|x| x.trim().parse().ok()).collect())
        .unwrap_or_else(|| vec![DEFAULT_SEED, 1, 7]);
    let limit = std::env::var("VERIF_LIMIT").unwrap_or_else(|_| "2000".into());
    let dir = verif_dir().join("run").join("selftest");
    let _ = std::fs::create_dir_all(&dir);
    let mut bad = 0;
    for p in &props {
        for seed in &seeds {
            let mut digests: Vec<(String, String, u64, u64)> = Vec::new();
            for (round, jobs) in [(0, "1"), (1, "4"), (2, "16"), (3, "16")] {
                let out = dir.join(format!("{p}-{seed}-{round}.json"));
                let hb = dir.join(format!("hb-{p}-{seed}-{round}"));
                let mut c = std::process::Command::new(self_exe());
                c.arg("child").arg(p).arg("quick").arg(seed.to_string()).arg(&out).arg(&hb).arg("-");
                c.env("VERIF_JOBS", jobs).env("VERIF_LIMIT", &limit);
                let (st, o) = run_with_timeout(c, Duration::from_secs(1800));
                if !st.map(|s| s.success()).unwrap_or(false) {
                    eprintln!("selftest: child failed for {p} seed {seed} jobs {jobs}: {o}");
                    bad += 1;
                    continue;
                }
                let r: ChildResult = match std::fs::read(&out).ok().and_then(|d| serde_json::from_slice(&d).ok()) {
                    Some(r) => r,
                    None => {
                        bad += 1;
                        continue;
                    }
                };
                digests.push((jobs.to_string(), format!("{:016x}", r.stats.log_digest), r.stats.evals, r.viol_total));
                let _ = std::fs::remove_file(&out);
                let _ = std::fs::remove_dir_all(&hb);
            }
            let same = digests.windows(2).all(|w| w[0].1 == w[1].1 && w[0].2 == w[1].2 && w[0].3 == w[1].3);
            println!(
                "{p} seed {seed}: {} -> {}",
                digests.iter().map(|d| format!("jobs={} digest={} evals={} viols={}", d.0, d.1, d.2, d.3)).collect::<Vec<_>>().join(" | "),
                if same && digests.len() == 4 { "DETERMINISTIC" } else { "DIVERGES" }
            );
            if !same || digests.len() != 4 {
                bad += 1;
            }
        }
    }
    if bad == 0 { 0 } else { 2 }
}
