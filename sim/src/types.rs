//! Target family used by the simulations (owned types) and the dispatch macro.

use serde::{Deserialize, Serialize};
use std::collections::BTreeMap;

#[derive(Clone, Copy, Debug, Serialize, Deserialize, PartialEq, Eq, PartialOrd, Ord)]
pub enum Target {
    Json,
    Cfg,
    Nested,
    VecI,
    VecS,
    Tup,
    TupS,
    Map,
    En,
    OptS,
    Unit,
    Str,
    I64,
    F64,
    Bool,
    /// map of strings behind `RcAnchor`: values are created and looked up through the thread's anchor
    /// store, so state that survives a call or a document shows up as a value of another document
    RcMap,
    /// a sequence whose elements fall back to their default when they cannot be deserialized (the
    /// `DefaultOnError` pattern): the element swallows whatever error it is shown, a reader failure included
    LenientVec,
    /// a map visitor that reads the first entry of a mapping and returns (allowed by serde's contract:
    /// the deserializer is responsible for what the visitor left unread)
    FirstEntry,
    /// a root type that turns any error of its inner type into a default: the inner type may have
    /// consumed part of the document when it failed
    LenientRoot,
    /// an enum whose variants are selected by a YAML tag, some of them with empty or null-like content
    TagEn,
    /// a map visitor that reads entries until it has met the key `x` and returns then
    UntilX,
    /// a sequence of untyped values each of which falls back to null when it cannot be read: an error met deep
    /// inside an element (a syntax error included) is swallowed there
    LenientJsonVec,
    /// a map visitor that keeps asking for entries after it has been told there are none (serde does not
    /// forbid it; a fused access answers `None` again)
    GreedyMap,
}

/// Entries of a mapping, collected by a visitor that asks again after `None` (three more times).
#[derive(Debug, PartialEq)]
pub struct GreedyMap(pub Vec<(String, Tree)>);
impl<'de> Deserialize<'de> for GreedyMap {
    fn deserialize<D: serde::Deserializer<'de>>(d: D) -> Result<Self, D::Error> {
        struct V;
        impl<'de> serde::de::Visitor<'de> for V {
            type Value = GreedyMap;
            fn expecting(&self, f: &mut std::fmt::Formatter) -> std::fmt::Result {
                f.write_str("a mapping")
            }
            fn visit_map<A: serde::de::MapAccess<'de>>(self, mut a: A) -> Result<GreedyMap, A::Error> {
                let mut v = Vec::new();
                while let Some(e) = a.next_entry::<String, Tree>()? {
                    v.push(e);
                }
                for _ in 0..3 {
                    while let Ok(Some(e)) = a.next_entry::<String, Tree>() {
                        v.push(e);
                    }
                }
                Ok(GreedyMap(v))
            }
        }
        d.deserialize_map(V)
    }
}

/// The value of key `x`; the visitor returns as soon as it has read it (entries behind it stay unread).
#[derive(Debug, PartialEq)]
pub struct UntilX(pub Tree);
impl<'de> Deserialize<'de> for UntilX {
    fn deserialize<D: serde::Deserializer<'de>>(d: D) -> Result<Self, D::Error> {
        struct V;
        impl<'de> serde::de::Visitor<'de> for V {
            type Value = UntilX;
            fn expecting(&self, f: &mut std::fmt::Formatter) -> std::fmt::Result {
                f.write_str("a mapping with a key x")
            }
            fn visit_map<A: serde::de::MapAccess<'de>>(self, mut a: A) -> Result<UntilX, A::Error> {
                while let Some(k) = a.next_key::<String>()? {
                    let v = a.next_value::<Tree>()?;
                    if k == "x" {
                        return Ok(UntilX(v));
                    }
                }
                Err(serde::de::Error::custom("no key x"))
            }
        }
        d.deserialize_map(V)
    }
}

/// First entry of a mapping; the visitor returns without asking for a second key.
#[derive(Debug, PartialEq)]
pub struct FirstEntry(pub String, pub Tree);
impl<'de> Deserialize<'de> for FirstEntry {
    fn deserialize<D: serde::Deserializer<'de>>(d: D) -> Result<Self, D::Error> {
        struct V;
        impl<'de> serde::de::Visitor<'de> for V {
            type Value = FirstEntry;
            fn expecting(&self, f: &mut std::fmt::Formatter) -> std::fmt::Result {
                f.write_str("a mapping with at least one entry")
            }
            fn visit_map<A: serde::de::MapAccess<'de>>(self, mut a: A) -> Result<FirstEntry, A::Error> {
                match a.next_entry::<String, Tree>()? {
                    Some((k, v)) => Ok(FirstEntry(k, v)),
                    None => Err(serde::de::Error::custom("empty mapping")),
                }
            }
        }
        d.deserialize_map(V)
    }
}

/// `Some(i64)`, or `None` whenever an `i64` cannot be read.
#[derive(Debug, PartialEq)]
pub struct LenientRoot(pub Option<i64>);
impl<'de> Deserialize<'de> for LenientRoot {
    fn deserialize<D: serde::Deserializer<'de>>(d: D) -> Result<Self, D::Error> {
        Ok(LenientRoot(i64::deserialize(d).ok()))
    }
}

#[derive(Clone, Debug, Serialize, Deserialize, PartialEq)]
pub enum TagEn {
    Start,
    Stop,
    Speed(i32),
    Note(String),
    Limit(Option<i32>),
}

/// `T`, or its default when `T` cannot be deserialized.
#[derive(Debug, Default, PartialEq)]
pub struct Lenient<T>(pub T);
impl<'de, T: Deserialize<'de> + Default> Deserialize<'de> for Lenient<T> {
    fn deserialize<D: serde::Deserializer<'de>>(d: D) -> Result<Self, D::Error> {
        Ok(Lenient(T::deserialize(d).unwrap_or_default()))
    }
}

/// `RcAnchor<String>` with a Debug form that shows the text (the library's own shows the address).
pub struct RcS(pub serde_saphyr::RcAnchor<String>);
impl std::fmt::Debug for RcS {
    fn fmt(&self, f: &mut std::fmt::Formatter) -> std::fmt::Result {
        write!(f, "Rc({:?})", &*self.0.0)
    }
}
impl<'de> Deserialize<'de> for RcS {
    fn deserialize<D: serde::Deserializer<'de>>(d: D) -> Result<Self, D::Error> {
        serde_saphyr::RcAnchor::<String>::deserialize(d).map(RcS)
    }
}

pub type RcMapT = BTreeMap<String, RcS>;

pub const ALL_TARGETS: [Target; 23] = [
    Target::LenientJsonVec,
    Target::GreedyMap,
    Target::UntilX,
    Target::FirstEntry,
    Target::LenientRoot,
    Target::TagEn,
    Target::LenientVec,
    Target::RcMap,
    Target::Json,
    Target::Cfg,
    Target::Nested,
    Target::VecI,
    Target::VecS,
    Target::Tup,
    Target::TupS,
    Target::Map,
    Target::En,
    Target::OptS,
    Target::Unit,
    Target::Str,
    Target::I64,
    Target::F64,
    Target::Bool,
];

#[derive(Clone, Debug, Serialize, Deserialize, PartialEq)]
pub struct Cfg {
    pub name: String,
    pub n: i32,
    #[serde(default)]
    pub flag: Option<bool>,
    #[serde(default)]
    pub list: Vec<i64>,
}

#[derive(Clone, Debug, Serialize, Deserialize, PartialEq)]
pub struct Inner {
    pub k: String,
    pub v: f64,
}

#[derive(Clone, Debug, Serialize, Deserialize, PartialEq)]
pub struct Nested {
    pub id: u32,
    pub inner: Inner,
    #[serde(default)]
    pub items: Vec<Inner>,
}

#[derive(Clone, Debug, Serialize, Deserialize, PartialEq)]
pub struct TupS(pub i32, pub String);

#[derive(Clone, Debug, Serialize, Deserialize, PartialEq)]
pub enum En {
    U,
    N(i32),
    T(i32, String),
    S { a: i32, b: String },
}

/// Struct with both validation derives; used only by the `_valid` / `_validate` entry points.
#[derive(Clone, Debug, Serialize, Deserialize, PartialEq, garde::Validate, validator::Validate)]
pub struct VCfg {
    #[garde(length(min = 1))]
    #[validate(length(min = 1))]
    pub name: String,
    #[garde(range(max = 1000))]
    #[validate(range(max = 1000))]
    pub n: i32,
    #[serde(default)]
    #[garde(skip)]
    pub list: Vec<i64>,
    /// read from a YAML key that has nothing in common with the Rust field name: a validation issue
    /// on it cannot be mapped back to a YAML path
    #[serde(default, rename = "zzz")]
    #[garde(length(max = 3))]
    #[validate(length(max = 3))]
    pub title: String,
}

pub type MapT = BTreeMap<String, String>;

/// `with_target!(target, func(args...))` calls `func::<T>(args...)` for the Rust type of `target`.
#[macro_export]
macro_rules! with_target {
    ($t:expr, $f:ident ( $($args:expr),* $(,)? )) => {
        match $t {
            $crate::types::Target::Json => $f::<serde_json::Value>($($args),*),
            $crate::types::Target::Cfg => $f::<$crate::types::Cfg>($($args),*),
            $crate::types::Target::Nested => $f::<$crate::types::Nested>($($args),*),
            $crate::types::Target::VecI => $f::<Vec<i64>>($($args),*),
            $crate::types::Target::VecS => $f::<Vec<String>>($($args),*),
            $crate::types::Target::Tup => $f::<(i32, i32)>($($args),*),
            $crate::types::Target::TupS => $f::<$crate::types::TupS>($($args),*),
            $crate::types::Target::Map => $f::<$crate::types::MapT>($($args),*),
            $crate::types::Target::En => $f::<$crate::types::En>($($args),*),
            $crate::types::Target::OptS => $f::<Option<String>>($($args),*),
            $crate::types::Target::Unit => $f::<()>($($args),*),
            $crate::types::Target::Str => $f::<String>($($args),*),
            $crate::types::Target::I64 => $f::<i64>($($args),*),
            $crate::types::Target::F64 => $f::<f64>($($args),*),
            $crate::types::Target::Bool => $f::<bool>($($args),*),
            $crate::types::Target::RcMap => $f::<$crate::types::RcMapT>($($args),*),
            $crate::types::Target::LenientVec => $f::<Vec<$crate::types::Lenient<i64>>>($($args),*),
            $crate::types::Target::FirstEntry => $f::<$crate::types::FirstEntry>($($args),*),
            $crate::types::Target::LenientRoot => $f::<$crate::types::LenientRoot>($($args),*),
            $crate::types::Target::TagEn => $f::<$crate::types::TagEn>($($args),*),
            $crate::types::Target::UntilX => $f::<$crate::types::UntilX>($($args),*),
            $crate::types::Target::GreedyMap => $f::<$crate::types::GreedyMap>($($args),*),
            $crate::types::Target::LenientJsonVec => $f::<Vec<$crate::types::Lenient<serde_json::Value>>>($($args),*),
        }
    };
}


/// Untyped tree that accepts every YAML document, complex mapping keys included (serde_json::Value
/// insists on string keys). Used where every event of a document must be consumed.
#[derive(Clone, Debug, PartialEq)]
pub enum Tree {
    Null,
    Bool(bool),
    I(i64),
    U(u64),
    F(u64),
    S(String),
    Seq(Vec<Tree>),
    Map(Vec<(Tree, Tree)>),
}

impl<'de> Deserialize<'de> for Tree {
    fn deserialize<D: serde::Deserializer<'de>>(d: D) -> Result<Self, D::Error> {
        struct V;
        impl<'de> serde::de::Visitor<'de> for V {
            type Value = Tree;
            fn expecting(&self, f: &mut std::fmt::Formatter) -> std::fmt::Result {
                f.write_str("any YAML node")
            }
            fn visit_unit<E>(self) -> Result<Tree, E> {
                Ok(Tree::Null)
            }
            fn visit_none<E>(self) -> Result<Tree, E> {
                Ok(Tree::Null)
            }
            fn visit_some<D2: serde::Deserializer<'de>>(self, d: D2) -> Result<Tree, D2::Error> {
                Tree::deserialize(d)
            }
            fn visit_bool<E>(self, v: bool) -> Result<Tree, E> {
                Ok(Tree::Bool(v))
            }
            fn visit_i64<E>(self, v: i64) -> Result<Tree, E> {
                Ok(Tree::I(v))
            }
            fn visit_u64<E>(self, v: u64) -> Result<Tree, E> {
                Ok(Tree::U(v))
            }
            fn visit_f64<E>(self, v: f64) -> Result<Tree, E> {
                Ok(Tree::F(v.to_bits()))
            }
            fn visit_str<E>(self, v: &str) -> Result<Tree, E> {
                Ok(Tree::S(v.to_string()))
            }
            fn visit_string<E>(self, v: String) -> Result<Tree, E> {
                Ok(Tree::S(v))
            }
            fn visit_bytes<E>(self, v: &[u8]) -> Result<Tree, E> {
                Ok(Tree::S(String::from_utf8_lossy(v).into_owned()))
            }
            fn visit_seq<A: serde::de::SeqAccess<'de>>(self, mut a: A) -> Result<Tree, A::Error> {
                let mut v = Vec::new();
                while let Some(x) = a.next_element::<Tree>()? {
                    v.push(x);
                }
                Ok(Tree::Seq(v))
            }
            fn visit_map<A: serde::de::MapAccess<'de>>(self, mut a: A) -> Result<Tree, A::Error> {
                let mut v = Vec::new();
                while let Some(k) = a.next_key::<Tree>()? {
                    let x = a.next_value::<Tree>()?;
                    v.push((k, x));
                }
                Ok(Tree::Map(v))
            }
            fn visit_newtype_struct<D2: serde::Deserializer<'de>>(self, d: D2) -> Result<Tree, D2::Error> {
                Tree::deserialize(d)
            }
        }
        d.deserialize_any(V)
    }
}

// `Tree` always validates: the validating entry points can then be driven with the same untyped target
// (their budget handling is a separate copy of the plain entry points').
impl garde::Validate for Tree {
    type Context = ();
    fn validate_into(&self, _ctx: &(), _parent: &mut dyn FnMut() -> garde::Path, _report: &mut garde::Report) {}
}

impl validator::Validate for Tree {
    fn validate(&self) -> Result<(), validator::ValidationErrors> {
        Ok(())
    }
}

/// A target that reads nothing (a `Deserialize` impl that ignores its input).
#[derive(Debug, PartialEq)]
pub struct Noop;
impl<'de> Deserialize<'de> for Noop {
    fn deserialize<D: serde::Deserializer<'de>>(_d: D) -> Result<Self, D::Error> {
        Ok(Noop)
    }
}
impl garde::Validate for Noop {
    type Context = ();
    fn validate_into(&self, _ctx: &(), _parent: &mut dyn FnMut() -> garde::Path, _report: &mut garde::Report) {}
}
impl validator::Validate for Noop {
    fn validate(&self) -> Result<(), validator::ValidationErrors> {
        Ok(())
    }
}

/// "Best effort" untyped tree: a container keeps what it could read and stops at the first element, key or
/// value that fails, whatever the failure was (a budget breach or a reader failure included).
#[derive(Clone, Debug, PartialEq)]
pub struct BestEffortTree(pub Tree);
impl<'de> Deserialize<'de> for BestEffortTree {
    fn deserialize<D: serde::Deserializer<'de>>(d: D) -> Result<Self, D::Error> {
        struct V;
        impl<'de> serde::de::Visitor<'de> for V {
            type Value = Tree;
            fn expecting(&self, f: &mut std::fmt::Formatter) -> std::fmt::Result {
                f.write_str("any YAML node")
            }
            fn visit_unit<E>(self) -> Result<Tree, E> {
                Ok(Tree::Null)
            }
            fn visit_none<E>(self) -> Result<Tree, E> {
                Ok(Tree::Null)
            }
            fn visit_some<D2: serde::Deserializer<'de>>(self, d: D2) -> Result<Tree, D2::Error> {
                BestEffortTree::deserialize(d).map(|t| t.0)
            }
            fn visit_bool<E>(self, v: bool) -> Result<Tree, E> {
                Ok(Tree::Bool(v))
            }
            fn visit_i64<E>(self, v: i64) -> Result<Tree, E> {
                Ok(Tree::I(v))
            }
            fn visit_u64<E>(self, v: u64) -> Result<Tree, E> {
                Ok(Tree::U(v))
            }
            fn visit_f64<E>(self, v: f64) -> Result<Tree, E> {
                Ok(Tree::F(v.to_bits()))
            }
            fn visit_str<E>(self, v: &str) -> Result<Tree, E> {
                Ok(Tree::S(v.to_string()))
            }
            fn visit_string<E>(self, v: String) -> Result<Tree, E> {
                Ok(Tree::S(v))
            }
            fn visit_bytes<E>(self, v: &[u8]) -> Result<Tree, E> {
                Ok(Tree::S(String::from_utf8_lossy(v).into_owned()))
            }
            fn visit_seq<A: serde::de::SeqAccess<'de>>(self, mut a: A) -> Result<Tree, A::Error> {
                let mut v = Vec::new();
                while let Ok(Some(x)) = a.next_element::<BestEffortTree>() {
                    v.push(x.0);
                }
                Ok(Tree::Seq(v))
            }
            fn visit_map<A: serde::de::MapAccess<'de>>(self, mut a: A) -> Result<Tree, A::Error> {
                let mut v = Vec::new();
                while let Ok(Some(k)) = a.next_key::<BestEffortTree>() {
                    match a.next_value::<BestEffortTree>() {
                        Ok(x) => v.push((k.0, x.0)),
                        Err(_) => break,
                    }
                }
                Ok(Tree::Map(v))
            }
            fn visit_newtype_struct<D2: serde::Deserializer<'de>>(self, d: D2) -> Result<Tree, D2::Error> {
                BestEffortTree::deserialize(d).map(|t| t.0)
            }
        }
        d.deserialize_any(V).map(BestEffortTree)
    }
}
impl garde::Validate for BestEffortTree {
    type Context = ();
    fn validate_into(&self, _ctx: &(), _parent: &mut dyn FnMut() -> garde::Path, _report: &mut garde::Report) {}
}
impl validator::Validate for BestEffortTree {
    fn validate(&self) -> Result<(), validator::ValidationErrors> {
        Ok(())
    }
}
