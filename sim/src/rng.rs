//! xoshiro256** seeded through splitmix64. Hand-written so that the stream never changes
//! with a dependency upgrade: one integer (VERIF_SEED) decides every generated case.

#[derive(Clone, Debug)]
pub struct Rng {
    s: [u64; 4],
}

pub fn splitmix(x: &mut u64) -> u64 {
    *x = x.wrapping_add(0x9E37_79B9_7F4A_7C15);
    let mut z = *x;
    z = (z ^ (z >> 30)).wrapping_mul(0xBF58_476D_1CE4_E5B9);
    z = (z ^ (z >> 27)).wrapping_mul(0x94D0_49BB_1331_11EB);
    z ^ (z >> 31)
}

/// FNV-1a over bytes, used for all digests (stable across processes, unlike RandomState).
pub fn fnv(bytes: &[u8]) -> u64 {
    let mut h: u64 = 0xcbf2_9ce4_8422_2325;
    for b in bytes {
        h ^= *b as u64;
        h = h.wrapping_mul(0x0000_0100_0000_01B3);
    }
    h
}

pub fn fnv_mix(h: u64, v: u64) -> u64 {
    let mut h = h;
    for i in 0..8 {
        h ^= (v >> (8 * i)) & 0xff;
        h = h.wrapping_mul(0x0000_0100_0000_01B3);
    }
    h
}

impl Rng {
    pub fn new(seed: u64) -> Self {
        let mut x = seed;
        let s = [
            splitmix(&mut x),
            splitmix(&mut x),
            splitmix(&mut x),
            splitmix(&mut x),
        ];
        Rng { s }
    }

    /// Independent stream for case `idx` of property `tag` under `seed`.
    pub fn for_case(seed: u64, tag: &str, idx: u64) -> Self {
        let h = fnv_mix(fnv_mix(fnv(tag.as_bytes()), seed), idx);
        Rng::new(h)
    }

    pub fn next_u64(&mut self) -> u64 {
        let result = self.s[1].wrapping_mul(5).rotate_left(7).wrapping_mul(9);
        let t = self.s[1] << 17;
        self.s[2] ^= self.s[0];
        self.s[3] ^= self.s[1];
        self.s[1] ^= self.s[2];
        self.s[0] ^= self.s[3];
        self.s[2] ^= t;
        self.s[3] = self.s[3].rotate_left(45);
        result
    }

    /// Uniform in 0..n (n > 0).
    pub fn below(&mut self, n: usize) -> usize {
        debug_assert!(n > 0);
        (self.next_u64() % (n as u64)) as usize
    }

    /// Uniform in lo..=hi.
    pub fn range(&mut self, lo: usize, hi: usize) -> usize {
        lo + self.below(hi - lo + 1)
    }

    /// True with probability num/den.
    pub fn chance(&mut self, num: usize, den: usize) -> bool {
        self.below(den) < num
    }

    pub fn pick<'a, T>(&mut self, xs: &'a [T]) -> &'a T {
        &xs[self.below(xs.len())]
    }

    pub fn shuffle<T>(&mut self, xs: &mut [T]) {
        for i in (1..xs.len()).rev() {
            let j = self.below(i + 1);
            xs.swap(i, j);
        }
    }
}
