//! SimReader / SimWriter: the only byte endpoints the library sees in a simulation.
//! Every behaviour is a pure function of the explicit script; no PRNG, no clock.

use crate::rng::fnv_mix;
use serde::{Deserialize, Serialize};
use std::cell::RefCell;
use std::io;
use std::rc::Rc;

/// Payload of panics raised by the simulator itself (liveness monitors, probe faults).
#[derive(Debug, Clone)]
pub enum SimMarker {
    /// A deterministic liveness budget was exceeded; the string says which.
    Liveness(String),
    /// A `Probe` user type panicked on purpose.
    ProbePanic,
}

#[derive(Clone, Copy, Debug, Serialize, Deserialize, PartialEq, Eq, PartialOrd, Ord)]
pub enum ErrKind {
    Other,
    ConnectionReset,
    BrokenPipe,
    TimedOut,
    WouldBlock,
    PermissionDenied,
    InvalidData,
    UnexpectedEof,
    Interrupted,
}

pub const HARD_KINDS: [ErrKind; 8] = [
    ErrKind::Other,
    ErrKind::ConnectionReset,
    ErrKind::BrokenPipe,
    ErrKind::TimedOut,
    ErrKind::WouldBlock,
    ErrKind::PermissionDenied,
    ErrKind::InvalidData,
    ErrKind::UnexpectedEof,
];

impl ErrKind {
    pub fn to_io(self) -> io::ErrorKind {
        match self {
            ErrKind::Other => io::ErrorKind::Other,
            ErrKind::ConnectionReset => io::ErrorKind::ConnectionReset,
            ErrKind::BrokenPipe => io::ErrorKind::BrokenPipe,
            ErrKind::TimedOut => io::ErrorKind::TimedOut,
            ErrKind::WouldBlock => io::ErrorKind::WouldBlock,
            ErrKind::PermissionDenied => io::ErrorKind::PermissionDenied,
            ErrKind::InvalidData => io::ErrorKind::InvalidData,
            ErrKind::UnexpectedEof => io::ErrorKind::UnexpectedEof,
            ErrKind::Interrupted => io::ErrorKind::Interrupted,
        }
    }
    pub fn name(self) -> &'static str {
        match self {
            ErrKind::Other => "Other",
            ErrKind::ConnectionReset => "ConnectionReset",
            ErrKind::BrokenPipe => "BrokenPipe",
            ErrKind::TimedOut => "TimedOut",
            ErrKind::WouldBlock => "WouldBlock",
            ErrKind::PermissionDenied => "PermissionDenied",
            ErrKind::InvalidData => "InvalidData",
            ErrKind::UnexpectedEof => "UnexpectedEof",
            ErrKind::Interrupted => "Interrupted",
        }
    }
}

pub const SIM_ERR_MSG: &str = "simulated-io-fault";

#[derive(Clone, Copy, Debug, Serialize, Deserialize, PartialEq, Eq)]
pub enum After {
    /// every later read fails again
    Sticky,
    /// later reads report end of input
    ThenEof,
    /// the stream continues where it stopped
    ThenResume,
}

#[derive(Clone, Copy, Debug, Serialize, Deserialize, PartialEq, Eq)]
pub enum FaultPos {
    /// the read that would deliver byte k fails (reads before it never cross k)
    AtByte(usize),
    /// the k-th read call (0-based) fails
    AtRead(usize),
}

#[derive(Clone, Copy, Debug, Serialize, Deserialize, PartialEq, Eq)]
pub struct ReadFault {
    pub pos: FaultPos,
    pub kind: ErrKind,
    pub after: After,
}

#[derive(Clone, Debug, Serialize, Deserialize, PartialEq, Eq)]
pub enum Chunking {
    /// give the caller whatever it asks for
    Whole,
    /// at most n bytes per read
    Fixed(usize),
    /// explicit chunk lengths; once exhausted behaves like `Whole`
    List(Vec<usize>),
}

#[derive(Clone, Debug, Serialize, Deserialize, PartialEq, Eq, Default)]
pub struct ReaderScript {
    pub chunking: Option<Chunking>,
    #[serde(default, skip_serializing_if = "Vec::is_empty")]
    pub faults: Vec<ReadFault>,
    /// stream ends after this many bytes (None = all bytes)
    #[serde(default, skip_serializing_if = "Option::is_none")]
    pub truncate_at: Option<usize>,
    /// one `Ok(0)` at this byte offset, then the stream continues
    #[serde(default, skip_serializing_if = "Option::is_none")]
    pub nonsticky_eof_at: Option<usize>,
    /// after the data, repeat this fragment for ever
    #[serde(default, skip_serializing_if = "Option::is_none")]
    pub endless: Option<Vec<u8>>,
    /// a reader that reports its end once and blocks for ever when it is asked again (a terminal after
    /// Ctrl-D, a FIFO whose writer stays around): being polled after `Ok(0)` is the simulated hang
    #[serde(default, skip_serializing_if = "std::ops::Not::not")]
    pub blocks_after_eof: bool,
    /// the data is all there is for now, but the stream is not over: a read beyond it blocks for ever (a peer
    /// that waits for an answer). Only meaningful with an input cap below the data length: the library then
    /// has no business reading on
    #[serde(default, skip_serializing_if = "std::ops::Not::not")]
    pub peer_waits: bool,
}

impl ReaderScript {
    pub fn whole() -> Self {
        ReaderScript::default()
    }
    pub fn fixed(n: usize) -> Self {
        ReaderScript {
            chunking: Some(Chunking::Fixed(n)),
            ..Default::default()
        }
    }
    pub fn list(v: Vec<usize>) -> Self {
        ReaderScript {
            chunking: Some(Chunking::List(v)),
            ..Default::default()
        }
    }
    pub fn digest(&self) -> u64 {
        crate::rng::fnv(serde_json::to_string(self).unwrap().as_bytes())
    }
}

/// Reads allowed after the reader has ended (EOF / sticky error) before the liveness monitor fires.
pub const POST_END_READ_LIMIT: u64 = 20_000;
/// Bytes an endless reader hands out before the liveness monitor fires.
pub const ENDLESS_BYTE_LIMIT: u64 = 8 * 1024 * 1024;

#[derive(Debug, Default)]
pub struct ReaderState {
    pub data: Vec<u8>,
    pub script: ReaderScript,
    pub pos: usize,
    pub reads: u64,
    pub bytes_out: u64,
    pub chunk_idx: usize,
    pub fired: Vec<bool>,
    /// index of first fault that fired, and the byte position when it fired
    pub first_fired: Option<(usize, usize)>,
    pub sticky: Option<ErrKind>,
    pub forced_eof: bool,
    pub nonsticky_done: bool,
    /// the natural end of the data has been reported with `Ok(0)`
    pub eof_reported: bool,
    /// a fault other than `Interrupted` has been returned
    pub hard_error_reported: bool,
    pub ended: bool,
    pub post_end_reads: u64,
    pub endless_pos: usize,
    /// running digest of (request length, result) pairs = the request trace
    pub trace_digest: u64,
    /// full trace, only kept when `keep_trace`
    pub keep_trace: bool,
    pub trace: Vec<(usize, i64)>,
    /// number of reads that returned fewer bytes than asked while data remained
    pub short_reads: u64,
    /// request sizes seen (1, 3, 4, 8192 ... ) as a small histogram
    pub req_sizes: std::collections::BTreeMap<usize, u64>,
}

#[derive(Clone)]
pub struct SimReader {
    pub st: Rc<RefCell<ReaderState>>,
}

impl SimReader {
    pub fn new(data: &[u8], script: ReaderScript) -> Self {
        let n = script.faults.len();
        SimReader {
            st: Rc::new(RefCell::new(ReaderState {
                data: data.to_vec(),
                script,
                fired: vec![false; n],
                trace_digest: 0xcbf2_9ce4_8422_2325,
                ..Default::default()
            })),
        }
    }
    pub fn keep_trace(self) -> Self {
        self.st.borrow_mut().keep_trace = true;
        self
    }
    pub fn fired_any(&self) -> bool {
        self.st.borrow().first_fired.is_some()
    }
    pub fn first_fired(&self) -> Option<(usize, usize)> {
        self.st.borrow().first_fired
    }
    pub fn bytes_out(&self) -> u64 {
        self.st.borrow().bytes_out
    }
    pub fn reads(&self) -> u64 {
        self.st.borrow().reads
    }
    pub fn pos(&self) -> usize {
        self.st.borrow().pos
    }
    pub fn trace_digest(&self) -> u64 {
        self.st.borrow().trace_digest
    }
}

fn log(st: &mut ReaderState, req: usize, res: i64) {
    st.trace_digest = fnv_mix(fnv_mix(st.trace_digest, req as u64), res as u64);
    if st.keep_trace && st.trace.len() < 100_000 {
        st.trace.push((req, res));
    }
}

impl io::Read for SimReader {
    fn read(&mut self, buf: &mut [u8]) -> io::Result<usize> {
        crate::sched::yield_point();
        let mut guard = self.st.borrow_mut();
        let st = &mut *guard;
        let read_idx = st.reads;
        st.reads += 1;
        *st.req_sizes.entry(buf.len()).or_insert(0) += 1;
        if st.ended {
            st.post_end_reads += 1;
            if st.post_end_reads > POST_END_READ_LIMIT {
                let n = st.post_end_reads;
                drop(guard);
                std::panic::panic_any(SimMarker::Liveness(format!(
                    "reader polled {n} times after it had ended"
                )));
            }
        }
        if buf.is_empty() {
            log(st, 0, 0);
            return Ok(0);
        }
        if st.eof_reported && st.script.blocks_after_eof {
            drop(guard);
            std::panic::panic_any(SimMarker::Liveness(
                "reader polled again after it had reported its end with Ok(0): this reader blocks there for ever".to_string(),
            ));
        }
        // ... and likewise after a hard error (the peer is gone or waits; an `Interrupted` read is retried)
        if st.script.blocks_after_eof && st.hard_error_reported {
            drop(guard);
            std::panic::panic_any(SimMarker::Liveness(
                "reader polled again after it had returned a hard error: this reader blocks there for ever".to_string(),
            ));
        }
        // a peer that has sent what it had and waits: no end of input, the next read blocks for ever
        if st.script.peer_waits && st.pos >= st.script.truncate_at.map_or(st.data.len(), |t| t.min(st.data.len())) {
            drop(guard);
            std::panic::panic_any(SimMarker::Liveness(
                "reader polled for more than the peer has sent (it waits for an answer and sends nothing more)".to_string(),
            ));
        }
        if let Some(k) = st.sticky {
            log(st, buf.len(), -1 - (k as i64));
            return Err(io::Error::new(k.to_io(), SIM_ERR_MSG));
        }
        if st.forced_eof {
            log(st, buf.len(), 0);
            return Ok(0);
        }
        let end = st.script.truncate_at.map_or(st.data.len(), |t| t.min(st.data.len()));
        // faults
        let mut limit = end; // data chunks must not cross an armed AtByte fault
        for i in 0..st.script.faults.len() {
            if st.fired[i] {
                continue;
            }
            let f = st.script.faults[i];
            let hit = match f.pos {
                FaultPos::AtByte(k) => {
                    if k >= st.pos && k < limit {
                        limit = k;
                    }
                    // a fault at k == end fires when the reader would otherwise report EOF
                    k == st.pos && k <= end
                }
                FaultPos::AtRead(k) => k as u64 == read_idx,
            };
            if hit {
                st.fired[i] = true;
                if st.first_fired.is_none() {
                    st.first_fired = Some((i, st.pos));
                }
                match f.after {
                    After::Sticky => {
                        st.sticky = Some(f.kind);
                        st.ended = true;
                    }
                    After::ThenEof => {
                        st.forced_eof = true;
                        st.ended = true;
                    }
                    After::ThenResume => {}
                }
                if f.kind != ErrKind::Interrupted {
                    st.hard_error_reported = true;
                }
                log(st, buf.len(), -1 - (f.kind as i64));
                return Err(io::Error::new(f.kind.to_io(), SIM_ERR_MSG));
            }
        }
        if let Some(k) = st.script.nonsticky_eof_at {
            if !st.nonsticky_done && st.pos >= k {
                st.nonsticky_done = true;
                log(st, buf.len(), 0);
                return Ok(0);
            }
            if !st.nonsticky_done && k < limit {
                limit = k;
            }
        }
        if st.pos >= end {
            if let Some(frag) = st.script.endless.as_ref().filter(|f| !f.is_empty()) {
                if st.bytes_out > ENDLESS_BYTE_LIMIT {
                    let n = st.bytes_out;
                    drop(guard);
                    std::panic::panic_any(SimMarker::Liveness(format!(
                        "endless reader handed out {n} bytes and the call still runs"
                    )));
                }
                let mut n = 0;
                while n < buf.len() {
                    buf[n] = frag[st.endless_pos % frag.len()];
                    st.endless_pos += 1;
                    n += 1;
                }
                st.bytes_out += n as u64;
                log(st, buf.len(), n as i64);
                return Ok(n);
            }
            st.ended = true;
            st.eof_reported = true;
            log(st, buf.len(), 0);
            return Ok(0);
        }
        let avail = limit.max(st.pos) - st.pos;
        let avail = if avail == 0 { end - st.pos } else { avail };
        let want = match &st.script.chunking {
            None | Some(Chunking::Whole) => buf.len(),
            Some(Chunking::Fixed(n)) => (*n).max(1),
            Some(Chunking::List(v)) => {
                let w = v.get(st.chunk_idx).copied().unwrap_or(usize::MAX).max(1);
                st.chunk_idx += 1;
                w
            }
        };
        let n = want.min(buf.len()).min(avail);
        buf[..n].copy_from_slice(&st.data[st.pos..st.pos + n]);
        st.pos += n;
        st.bytes_out += n as u64;
        if n < buf.len() && st.pos < end {
            st.short_reads += 1;
        }
        log(st, buf.len(), n as i64);
        Ok(n)
    }
}

// ------------------------------------------------------------------------------------------------

#[derive(Clone, Copy, Debug, Serialize, Deserialize, PartialEq, Eq)]
pub enum WriteFaultKind {
    /// `write` returns this error
    Err(ErrKind),
    /// `write` returns Ok(0)
    Zero,
}

#[derive(Clone, Debug, Serialize, Deserialize, PartialEq, Eq, Default)]
pub struct WriterScript {
    /// accept at most this many bytes per write (None = all)
    #[serde(default, skip_serializing_if = "Option::is_none")]
    pub short: Option<usize>,
    /// the k-th write call (0-based) fails
    #[serde(default, skip_serializing_if = "Option::is_none")]
    pub fail_at_write: Option<usize>,
    /// or: the write that would accept byte k fails
    #[serde(default, skip_serializing_if = "Option::is_none")]
    pub fail_at_byte: Option<usize>,
    #[serde(default, skip_serializing_if = "Option::is_none")]
    pub fault: Option<WriteFaultKind>,
    /// true: every later write fails too; false: only that one
    #[serde(default)]
    pub sticky: bool,
    /// the k-th flush call fails (the library is not expected to flush, recorded only)
    #[serde(default, skip_serializing_if = "Option::is_none")]
    pub fail_at_flush: Option<usize>,
}

#[derive(Debug, Default)]
pub struct WriterState {
    pub script: WriterScript,
    pub accepted: Vec<u8>,
    pub writes: u64,
    pub flushes: u64,
    pub fired: bool,
    pub fired_at_len: usize,
    pub writes_after_fault: u64,
    pub bytes_after_fault: u64,
    pub limit_writes: u64,
    pub trace_digest: u64,
}

#[derive(Clone)]
pub struct SimWriter {
    pub st: Rc<RefCell<WriterState>>,
}

impl SimWriter {
    pub fn new(script: WriterScript, limit_writes: u64) -> Self {
        SimWriter {
            st: Rc::new(RefCell::new(WriterState {
                script,
                limit_writes,
                trace_digest: 0xcbf2_9ce4_8422_2325,
                ..Default::default()
            })),
        }
    }
}

impl io::Write for SimWriter {
    fn write(&mut self, buf: &[u8]) -> io::Result<usize> {
        crate::sched::yield_point();
        let mut guard = self.st.borrow_mut();
        let st = &mut *guard;
        let idx = st.writes;
        st.writes += 1;
        if st.limit_writes > 0 && st.writes > st.limit_writes {
            let n = st.writes;
            drop(guard);
            std::panic::panic_any(SimMarker::Liveness(format!("writer called {n} times")));
        }
        if st.fired {
            st.writes_after_fault += 1;
        }
        if buf.is_empty() {
            return Ok(0);
        }
        let mut fail = false;
        if st.fired && st.script.sticky {
            fail = true;
        }
        if !st.fired {
            if let Some(k) = st.script.fail_at_write
                && k as u64 == idx
            {
                fail = true;
            }
            if let Some(k) = st.script.fail_at_byte
                && st.accepted.len() >= k
            {
                fail = true;
            }
        }
        if fail {
            if !st.fired {
                st.fired = true;
                st.fired_at_len = st.accepted.len();
            }
            st.trace_digest = fnv_mix(fnv_mix(st.trace_digest, buf.len() as u64), u64::MAX);
            return match st.script.fault.unwrap_or(WriteFaultKind::Err(ErrKind::Other)) {
                WriteFaultKind::Err(k) => Err(io::Error::new(k.to_io(), SIM_ERR_MSG)),
                WriteFaultKind::Zero => Ok(0),
            };
        }
        let mut n = buf.len();
        if let Some(s) = st.script.short {
            n = n.min(s.max(1));
        }
        if let Some(k) = st.script.fail_at_byte
            && !st.fired
            && st.accepted.len() + n > k
        {
            n = k - st.accepted.len();
        }
        st.accepted.extend_from_slice(&buf[..n]);
        if st.fired {
            st.bytes_after_fault += n as u64;
        }
        st.trace_digest = fnv_mix(fnv_mix(st.trace_digest, buf.len() as u64), n as u64);
        Ok(n)
    }

    fn flush(&mut self) -> io::Result<()> {
        let mut st = self.st.borrow_mut();
        let idx = st.flushes;
        st.flushes += 1;
        if st.script.fail_at_flush == Some(idx as usize) {
            return Err(io::Error::new(io::ErrorKind::Other, SIM_ERR_MSG));
        }
        Ok(())
    }
}
