//! Independent event-count model for C07: one pass over the raw saphyr parser events of a text,
//! building per-document and whole-stream usage counts, with alias expansion done the way the
//! documentation of `Budget` describes it (replayed events count like parsed ones). Shares no code
//! with src/budget.rs.

use saphyr_parser::{Event, Parser, ScalarStyle};
use std::collections::{BTreeMap, BTreeSet};

#[derive(Clone, Debug, Default, PartialEq, Eq)]
pub struct Counts {
    pub events: usize,
    pub nodes: usize,
    pub max_depth: usize,
    pub aliases: usize,
    pub anchors: usize,
    pub scalar_bytes: usize,
    pub merge_keys: usize,
    pub documents: usize,
}

#[derive(Clone, Debug)]
enum REv {
    Scalar { len: usize, plain_merge: bool, tagged: bool },
    SeqStart,
    SeqEnd,
    MapStart,
    MapEnd,
}

#[derive(Clone, Copy, Debug)]
enum Ctx {
    Seq { in_value: bool },
    Map { expect_key: bool, in_value: bool },
}

struct Frame {
    id: usize,
    depth: usize,
    buf: Vec<REv>,
}

#[derive(Default)]
struct Doc {
    c: Counts,
    depth: usize,
    stack: Vec<Ctx>,
    frames: Vec<Frame>,
    anchors: BTreeMap<usize, Vec<REv>>,
    defined: BTreeSet<usize>,
    /// a quantity whose counting is a matter of interpretation was met (tagged `<<` reached through an alias)
    ambiguous: bool,
}

impl Doc {
    /// position bookkeeping for a node that starts here; returns true if it sits in key position
    fn enter(&mut self) -> (bool, bool) {
        match self.stack.last_mut() {
            Some(Ctx::Map { expect_key, .. }) => {
                if *expect_key {
                    *expect_key = false;
                    (true, false)
                } else {
                    (false, true)
                }
            }
            _ => (false, false),
        }
    }
    fn value_done(&mut self) {
        if let Some(Ctx::Map { expect_key, .. }) = self.stack.last_mut() {
            *expect_key = true;
        }
    }
    fn record(&mut self, ev: &REv) {
        for f in self.frames.iter_mut() {
            f.buf.push(ev.clone());
        }
    }
    fn node(&mut self, ev: REv, replayed: bool) {
        self.c.events += 1;
        match &ev {
            REv::Scalar { len, plain_merge, tagged } => {
                self.c.nodes += 1;
                self.c.scalar_bytes += len;
                let (is_key, is_value) = self.enter();
                // a tagged `<<` (say `!!str <<`) is an ordinary key, written directly or reached through an
                // alias: nothing is merged for it (the model once followed the library here and called the
                // replayed case a matter of interpretation; by the statement it is a false count)
                let _ = replayed;
                if is_key && *plain_merge && !*tagged {
                    self.c.merge_keys += 1;
                }
                if is_value {
                    self.value_done();
                }
                self.record(&ev);
            }
            REv::SeqStart | REv::MapStart => {
                self.c.nodes += 1;
                let (_, is_value) = self.enter();
                self.depth += 1;
                self.c.max_depth = self.c.max_depth.max(self.depth);
                for f in self.frames.iter_mut() {
                    f.depth += 1;
                }
                self.stack.push(if matches!(ev, REv::SeqStart) {
                    Ctx::Seq { in_value: is_value }
                } else {
                    Ctx::Map {
                        expect_key: true,
                        in_value: is_value,
                    }
                });
                self.record(&ev);
            }
            REv::SeqEnd | REv::MapEnd => {
                self.depth = self.depth.saturating_sub(1);
                let top = self.stack.pop();
                let in_value = match top {
                    Some(Ctx::Seq { in_value }) => in_value,
                    Some(Ctx::Map { in_value, .. }) => in_value,
                    None => false,
                };
                if in_value {
                    self.value_done();
                }
                self.record(&ev);
                for f in self.frames.iter_mut() {
                    f.depth = f.depth.saturating_sub(1);
                }
                while let Some(f) = self.frames.last() {
                    if f.depth == 0 {
                        let f = self.frames.pop().unwrap();
                        self.anchors.insert(f.id, f.buf);
                    } else {
                        break;
                    }
                }
            }
        }
    }
}

pub struct ModelResult {
    pub per_doc: Vec<Counts>,
    /// whole-stream totals as an all-content enforcer sees them (stream markers included)
    pub total: Counts,
    pub ambiguous: bool,
}

/// `with_replay`: expand aliases (deserialization) or not (`check_yaml_budget` scans raw events only).
pub fn count(text: &str, with_replay: bool) -> Result<ModelResult, String> {
    let mut per_doc = Vec::new();
    let mut total = Counts::default();
    let mut cur: Option<Doc> = None;
    let mut stream_events = 0usize; // StreamStart / StreamEnd / DocumentStart / DocumentEnd: markers, not document content
    let mut ambiguous = false;
    let mut max_depth_total = 0usize;
    for item in Parser::new_from_str(text) {
        let (ev, _) = item.map_err(|e| format!("{e}"))?;
        match ev {
            Event::StreamStart | Event::StreamEnd | Event::Nothing => stream_events += 1,
            Event::DocumentStart(_) => {
                stream_events += 1;
                cur = Some(Doc::default());
            }
            Event::DocumentEnd => {
                stream_events += 1;
                if let Some(mut d) = cur.take() {
                    d.c.anchors = d.defined.len();
                    d.c.documents = 1;
                    ambiguous |= d.ambiguous;
                    max_depth_total = max_depth_total.max(d.c.max_depth);
                    per_doc.push(d.c);
                }
            }
            Event::Scalar(v, style, aid, tag) => {
                let d = cur.as_mut().ok_or("scalar outside document")?;
                let rev = REv::Scalar {
                    len: v.len(),
                    plain_merge: matches!(style, ScalarStyle::Plain) && v == "<<",
                    tagged: tag.is_some(),
                };
                if aid != 0 {
                    d.defined.insert(aid);
                    d.anchors.insert(aid, vec![rev.clone()]);
                }
                d.node(rev, false);
            }
            Event::SequenceStart(aid, _) | Event::MappingStart(aid, _) => {
                let is_seq = matches!(ev, Event::SequenceStart(..));
                let d = cur.as_mut().ok_or("container outside document")?;
                let rev = if is_seq { REv::SeqStart } else { REv::MapStart };
                d.node(rev.clone(), false);
                if aid != 0 {
                    d.defined.insert(aid);
                    // the new frame is seeded with its own start event
                    d.frames.push(Frame {
                        id: aid,
                        depth: 1,
                        buf: vec![rev],
                    });
                }
            }
            Event::SequenceEnd => cur.as_mut().ok_or("end outside document")?.node(REv::SeqEnd, false),
            Event::MappingEnd => cur.as_mut().ok_or("end outside document")?.node(REv::MapEnd, false),
            Event::Alias(id) => {
                let d = cur.as_mut().ok_or("alias outside document")?;
                d.c.events += 1;
                d.c.aliases += 1;
                if with_replay {
                    let buf = d.anchors.get(&id).cloned().ok_or("alias of an anchor that is not complete (recursive or unknown)")?;
                    for e in buf {
                        d.node(e, true);
                    }
                } else {
                    // the alias itself occupies the position
                    let (_, is_value) = d.enter();
                    if is_value {
                        d.value_done();
                    }
                }
            }
        }
    }
    for d in &per_doc {
        total.events += d.events;
        total.nodes += d.nodes;
        total.aliases += d.aliases;
        total.anchors += d.anchors;
        total.scalar_bytes += d.scalar_bytes;
        total.merge_keys += d.merge_keys;
        total.documents += 1;
    }
    total.events += stream_events;
    total.max_depth = max_depth_total;
    Ok(ModelResult {
        per_doc,
        total,
        ambiguous,
    })
}
