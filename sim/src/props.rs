//! Registry of properties: specification, generator, executor, shrinker.

use crate::case::{Case, Stats, Tier, Viol};
use crate::prop::*;

pub struct Spec {
    pub id: &'static str,
    pub level: &'static str,
    pub rule: String,
    pub assumptions: Vec<String>,
    pub components: serde_json::Value,
    pub total: Box<dyn Fn(Tier) -> u64 + Sync + Send>,
    pub generate: Box<dyn Fn(Tier, u64, u64) -> Case + Sync + Send>,
}

pub fn components() -> serde_json::Value {
    serde_json::json!({
        "real": ["serde-saphyr (working tree of /repo, features garde+validator+miette, --cfg serde_saphyr_verif)",
                 "saphyr-parser-bw 0.0.608", "encoding_rs_io / encoding_rs", "std::io::BufReader", "serde", "serde_json::Value as a target",
                 "garde / validator derive output"],
        "stub": ["SimReader / SimWriter (the only byte endpoints)", "Probe user types and visitors", "baton scheduler",
                 "reference models (from_str on the same text, list-of-documents, event counter, isolation table)"]
    })
}

pub fn spec(id: &str) -> Option<Spec> {
    match id {
        "C10" => {
            let plan = c10::Plan::new();
            Some(Spec {
                id: "C10",
                level: "fault_enumeration",
                rule: "Reader: for each (document or stream, target, entry point, chunking) every byte position k in 0..=len gets a hard read error of each kind x {sticky, then-EOF, then-resume}; every read call k the fault-free run makes (incl. the library's own 3-byte BOM peek, 8 KiB refills and diagnostic read-ahead) fails in turn; every truncation point (EOF inside a code point = fault, at a boundary = control); UTF-16 LE / BE re-encodings of 8 documents under the EOF, fault, read-call and cap sweeps and one generated case in ten re-encoded (boundaries, spans and the prefix control computed in the input's encoding); cap values {0,1,L-4..L+4,2L+1,None}, incl. documents whose last character is a 2/3/4-byte code point with nothing after it; long tokens crossing the cap; endless readers with a cap. Writer: for each (value incl. a document using every serializer construct - anchors, flow / literal / folded / commented / SpaceAfter wrappers, binary, enums, nested maps -, serializer options) every write index 0..=writes+1 x {Other, BrokenPipe, WouldBlock, Ok(0)} x {sticky, transient} x short-write sizes {1,3,full}, and every byte position under short writes; the fmt-writer entry point (to_fmt_writer) with every write_str index / byte position refused, sticky and transient. One evaluation = one library call under one script. An execution is non-trivial when an injected fault actually fired (the library issued the failing read/write) or the cap was below the input length; distinct = distinct digests of the request trace (sequence of (requested length, result) pairs seen by SimReader/SimWriter).".into(),
                assumptions: vec![
                    "ErrorKind::Interrupted is excluded by the property statement; it is injected as a record-only probe".into(),
                    "documents of the streams used for the iterator oracle are valid and non-null, so item j corresponds to document j".into(),
                    "the input cap counts raw bytes, byte-order mark included; an input that consists of the mark alone is not asserted".into(),
                    "fixed buffering allowance for the pull bound: 20 KiB".into(),
                ],
                components: components(),
                total: Box::new(c10::total),
                generate: Box::new(move |t, s, i| c10::gen_case(&plan, t, s, i)),
            })
        }
        "C09" => {
            let plan = c09::Plan::new();
            Some(Spec {
                id: "C09",
                level: "exploration",
                rule: "Each case is one (text, owned target, options) triple: from_str is the reference; from_slice and the str/slice closure helpers must agree; for the validated struct the garde / validator twins of the single-document entry points must agree among string, slice and reader (documents that pass, fail validation or have the wrong type, followed by nothing, a second document or broken text); closures that skip the document (IgnoredAny) or ignore the deserializer must behave alike for string and reader input; the text with its leading BOM toggled must agree; from_reader and with_deserializer_from_reader must agree under each schedule of the case: ALL 2^(n-1) partitions when the text has at most 13 bytes, otherwise 1-byte reads, one read, a fixed k, random / boundary-hunter lists and two lists that together split at every interesting offset of the text (inside each multi-byte char, CR|LF, indicator|blank, inside --- / ..., at line breaks). Agreement = equal Debug value, or equal error variant and equal line and column. Four Spanned shapes are compared as well (line, column, character offset and length of the place of use and of definition of every node). A quarter of the seeded cases tighten one budget counter or alias limit to 0..24 so that the events charged and the place of the breach are observable per entry point. Borrow cases (every 10th): a struct of &str fields over scalars whose style is known by construction (incl. anchored scalars lent through aliases; one-line block scalars, which stand in the input verbatim and must lend; multi-line and folded ones, which must not), and the same document into Cow<str> fields, which must give exactly the String result. One evaluation = one library call. Non-trivial = a reader execution in which at least one read returned fewer bytes than requested while data remained; distinct = distinct request-trace digests.".into(),
                assumptions: vec![
                    "invalid UTF-8 and UTF-16 input are outside the statement (\"the same UTF-8 text\")".into(),
                    "message text, spans and snippets are not compared across entry points".into(),
                    "block scalars that are empty after chomping are not asserted in the borrow clause".into(),
                ],
                components: components(),
                total: Box::new(c09::total),
                generate: Box::new(move |t, s, i| c09::gen_case(&plan, t, s, i)),
            })
        }
        "C11" => Some(Spec {
            id: "C11",
            level: "exploration",
            rule: "A case is a history of document kinds for one target (15 targets x 12-26 kinds - among the targets a map visitor that returns after the first entry, a root type that turns an inner error into a default, an enum whose variants are selected by tags with empty or null-like content -: valid shapes, empty, explicit null, root block scalars incl. empty ones, quoted empty strings, defining anchors, defining an anchor and then failing, aliasing an anchor of an earlier document, aliasing an anchor defined nowhere behind a type-level error, a byte-order mark in front of a later document (known finding F57), type error early / late, surplus / missing element, duplicate key, three syntax errors, 60 aliases of one anchor - under every per-document limit, two such documents are over the alias/anchor ratio), with seeded end markers / trailing comments / start marker / implicit starts after `...`, a quarter of them under alias limits that one document stays below but two together exceed, and 5 chunk schedules. For the validated struct target the garde / validator batch (str and slice) and iterator entry points are compared with the plain ones with validation applied per document (incl. runs of null documents and a document failing validation). ALL histories up to length 3 (thorough: 4) are enumerated per target, then random histories of length 2..8. Model: every document is classified on its own (raw parser: syntax error / empty-or-null; from_str alone: value or type-level error); batch, slice-batch, read, read_with_options under each schedule and the four single-document entry points are compared with the list of per-document results and the resynchronisation rules. One evaluation = one library call on the stream. Non-trivial = iterator executions on streams of at least two documents; distinct = distinct (stream text, request trace) digests.".into(),
            assumptions: vec![
                "single-document entry points are only asserted on streams with at least two content documents".into(),
            ],
            components: components(),
            total: Box::new(c11::total),
            generate: Box::new(c11::gen_case),
        }),
        "C07" => Some(Spec {
            id: "C07",
            level: "exploration",
            rule: "A case is a stream of documents (10 kinds: plain, anchors+aliases, merge keys incl. anchored maps that themselves contain merge keys, containers as mapping keys and `<<` as a plain value, deep nesting, long scalars, two kinds whose type-level failure leaves containers open when recovery starts, sequences, nested anchors, generated) with one document under test. ALL histories up to length 3 (thorough: 4) with the last document under test, then random streams. For the document under test an independent event-count model (own pass over raw parser events, alias expansion included) gives the usage of every counter; each limit is set to the usage (must pass) and to usage-1 (must fail with the matching breach) through from_str, from_multiple, from_reader (seeded chunking), the other single-document entry points, check_yaml_budget (raw counts, both policies), and also into a target that reads nothing (from_multiple) and a best-effort tree that keeps what it could read and goes on (from_str, from_multiple, from_reader): same verdict, same report; the report handed to the callback must equal the model; the ratio heuristic is probed at its two thresholds; the stream total is compared for from_multiple; and under per-document enforcement (read_with_options) the item of the document under test must be the same alone and after every history, for every counter at both limits, also into the no-op and best-effort targets (same items); the iterator's report is handed over once and counts the documents read. One evaluation = one library call. Non-trivial = iterator executions of a multi-document stream under a limit derived from the document under test; distinct = distinct (request trace, limit) digests.".into(),
            assumptions: vec![
                "target is an untyped tree accepting non-string and container mapping keys (sim/src/types.rs Tree) so that every event is consumed".into(),
                "per-document `events` has no crisp definition (stream markers): differential only; what a per-document report holds at end of stream is not asserted beyond the number of documents".into(),
            ],
            components: components(),
            total: Box::new(c07::total),
            generate: Box::new(c07::gen_case),
        }),
        "C15" => Some(Spec {
            id: "C15",
            level: "exploration",
            rule: "A case is a set of call histories, one per client thread (1..3 real OS threads; exactly one runs at a time, hand-over only at SimReader reads, Probe callbacks and between calls, the next holder taken from the explicit decision list). Alphabet: 60 basic calls (user values whose Drop impl makes a call while the anchor table of a failed or finished document that holds their last reference is released - Rc and Arc flavour -, a `!!binary` value to a string and to a writer refusing everything from byte 0 / 15 / 20 / 40 on, garde / validator failures of a renamed field whose YAML key has near-miss spellings next to it, successful parses, failure midway through an anchored node, failure inside an RcAnchor context, Rc / Arc sharing, recursive anchors, budget and alias-limit breaches, missing / unknown field through serde's static constructors, restrictive visitor, reader parse with an I/O fault midway, iterator abandoned half-way, two iterators stepped alternately, serialisation of a shared graph, validating entry points incl. two failing fields, panicking and failing Probe types inside an anchor context, calls failing after alias expansions, every resource limit exactly at usage, un-anchored Rc / weak wrappers, an iterator whose document fails and whose reader breaks during recovery, serialisations of same-length freshly allocated strings, a serialisation failing midway) and nestings (outer, nest point k, inner) incl. a nest point inside an anchored RcAnchor node, where a user Deserialize performs the inner call at nest point k. Enumerated: all single calls, all pairs, all triples over a 12-call core (thorough: all triples over the alphabet, all 4-histories over the core), every (outer, k, inner) nesting followed by sharing-sensitive calls; then random longer and multi-thread histories; a single-thread history may end with a call made from the destructor of a thread-local that was initialised before the thread's first call (every call of the alphabet, and the empty history, x 10 such calls). Oracle: every call's canonical result (value, error variant + location, pointer-equality classes, Weak::upgrade) equals the same call on a fresh thread (isolation table, itself required to be identical on six fresh threads); an outer call is compared with the same outer call without nesting, the inner with its own entry. One evaluation = one call of the alphabet. Non-trivial = histories with more than one call, a nesting or several threads; distinct = distinct case digests.".into(),
            assumptions: vec![
                "thread_local state starts clean on a freshly spawned OS thread".into(),
                "canonical results do not compare message text except for the two-failing-field validation calls (whose rendering must be stable)".into(),
            ],
            components: components(),
            total: Box::new(c15::total),
            generate: Box::new(c15::gen_case),
        }),
        "C17" => Some(Spec {
            id: "C17",
            level: "exploration",
            rule: "Documents whose line i starts with key k<i> (so a renderer that shows a wrong line is recognisable), 3..600 lines (beyond the 3 KiB ring and the 8 KiB BufReader), LF or CRLF, optional BOM, one failing leaf at a seeded line and column (deep inside long flow sequences, after multi-byte text), control / C1 / ANSI / OSC sequences literal in source lines and as YAML escapes in reflected keys, values, unknown fields, unknown variants and duplicate keys; targets map-of-sequences, map-of-ints, strict struct, map-of-enums, untyped, a garde-validated map of items (paths reflect map keys), a validator-validated list, and a struct in which an anchored number is aliased into a bool field (two-location alias error, definition and use 1..4 lines apart). Groups of 10 cases share one document: from_str / from_multiple / the string closure helper (plain, and nested: the text is a string field of an outer document, the closure deserializes the outer document and returns the error of its own from_str call on the field) at the five radii {0,1,5,64,10000} and from_reader under 1-byte, whole, 100-byte and seeded schedules, the last two members with the text re-encoded as UTF-16 LE / BE, a quarter of them with a read fault in the second half (the diagnostic read-ahead). Lines of 4..20 KiB (storage-time cropping) occur as error and context lines; a carriage return occurs as the only control character of a reflected text. Every returned error is rendered with Display, the default / user / custom formatters, a formatter that words every message itself and ends it with a fixed non-ASCII tail (the tail must arrive in full), snippets off, and (string input and fault-free reader input) the miette adapter; one document in five of three targets stands behind a reserved directive with multi-byte parameters. Oracle per text: no panic; an error carries no source window when snippets are switched off or the radius is 0; no C0 except newline/tab, no DEL, no C1; at most 5 source lines per window, each within two lines of the marked one; each at most 2r+1 characters plus ellipses; gutter number = number in the k<n> key shown; caret line under the header's line; the character under the caret is the (sanitised) character at the reported column of the reported line of the input; without snippet the text names the reported line and column; an error of a string entry point that holds a source window is never rendered without a source line. One evaluation = one parse + all renderings. Non-trivial = every case that produced an error; distinct = distinct rendered-text digests.".into(),
            assumptions: vec![
                "display width follows unicode-width 0.2 with tab = 4 columns; the generator keeps to characters of unambiguous width".into(),
                "lone-CR line breaks are not generated (C16's quantifier)".into(),
                "validation errors and alias errors (two locations) are exempt from the marker-on-reported-line clause".into(),
            ],
            components: components(),
            total: Box::new(c17::total),
            generate: Box::new(c17::gen_case),
        }),
        "C01" => Some(Spec {
            id: "C01",
            level: "exploration",
            rule: "Stream-facing slice of totality. (a) 1360 deep-nesting peers: 16 shapes (flow / block sequences, flow mappings, mixed, anchored and replayed twice, as mapping key, newtype-variant chain, recursive struct chain, tagged, anchored containers nested in each other, failed document whose skipped remainder defines many anchors, block-style nested mappings - the parser refuses flow nesting beyond 256 levels -, the same as value of a merge key, as complex key, as merge source through an alias) x depths {1,9,12,20,64,500,1000,1500,1990,1999,2000,2001,2010,3000,10^4,4*10^4,10^5} x 5 targets, default budget, on worker threads with exactly 8 MiB of stack. (a2) 552 crop peers: one-line documents whose error lies 40-75, 100-103, 127-129, 200, 500 or 1000 characters to the right, with multi-byte fill (2-, 3-, 4-byte characters, mixed) in the part the renderer cuts away and at the location; type error in a flow mapping, stray text behind a quoted scalar, wrong element in a flow sequence. (b) Seeded cases: a generated document / stream / token soup / corpus entry / deep or wide peer / `!!binary` scalar with well-formed, padded, over-padded, truncated and whitespace-broken payloads / document for the validated struct whose failing field has no YAML key that maps back / UTF-16 re-encoding, 0..3 channel corruptions (bit flip, byte drop, chunk duplication, adjacent-chunk swap, truncation, insertion from the indicator alphabet and of invalid UTF-8), delivered under a swarmed chunk schedule with 0..2 read faults (incl. Interrupted, by read index or byte), optionally one non-sticky EOF, swarmed options incl. tight budgets and alias limits, a reader that blocks for ever when polled after its end (one poll = the hang), documents whose markers stand beyond column 65535 under crop radii of 65536 and more, small documents for the probe types, into 34 target types (20 of the family and 14 probe types: reads nothing, sequences and maps of such, under-reading map visitor, value-first map visitor, variant-name-only enum visitor, deep / wide recursive types; their Deserialize impls count their calls), through every entry point: from_slice, from_slice_multiple, from_str, from_multiple, with_deserializer_from_slice, from_reader, with_deserializer_from_reader (closures that deserialize, ignore the deserializer, or skip), read, read_with_options (also abandoned after one item), and the garde / validator variants. Oracle: no unwind out of the library, no process abort (supervisor), bounded steps (SimReader post-end poll bound, hook H1, iterator item bound = input length + 8), every returned error renders with every renderer and through the miette adapter without panicking or hanging. One evaluation = one entry-point call. Non-trivial and distinct = distinct reader request-trace digests.".into(),
            assumptions: vec![
                "exhaustive enumeration of short token strings for the in-memory entry points is bounded enumeration of a pure function and is not done here (DESIGN.md §3 C01)".into(),
                "the stack clause is tied to the default budget by the statement: inputs larger than 4000 bytes always run with a budget".into(),
                "a reader that returns Interrupted for ever is retried for ever by std's contract; Interrupted faults are transient".into(),
            ],
            components: components(),
            total: Box::new(c01::total),
            generate: Box::new(c01::gen_case),
        }),
        _ => None,
    }
}

pub fn exec(case: &Case, st: &mut Stats) -> Vec<Viol> {
    match case {
        Case::C10R(c) => c10::exec_reader(c, st),
        Case::C10W(c) => c10::exec_writer(c, st),
        Case::C09(c) => c09::exec_agree(c, st),
        Case::C09B(c) => c09::exec_borrow(c, st),
        Case::C11(c) => c11::exec(c, st),
        Case::C07(c) => c07::exec(c, st),
        Case::C15(c) => c15::exec(c, st),
        Case::C17(c) => c17::exec(c, st),
        Case::C01(c) => c01::exec(c, st),
    }
}

pub fn shrink_candidates(case: &Case) -> Vec<Case> {
    match case {
        Case::C10R(c) => c10::shrink_reader(c),
        Case::C10W(c) => c10::shrink_writer(c),
        Case::C09(c) => c09::shrink_agree(c),
        Case::C09B(c) => c09::shrink_borrow(c),
        Case::C11(c) => c11::shrink(c),
        Case::C07(c) => c07::shrink(c),
        Case::C15(c) => c15::shrink(c),
        Case::C17(c) => c17::shrink(c),
        Case::C01(c) => c01::shrink(c),
    }
}
