#![allow(dead_code)]
mod case;
mod wl;
mod io;
mod known;
mod lab;
mod model;
mod prop;
mod props;
mod rng;
mod run;
mod sched;
mod types;

use case::Tier;
use std::path::Path;

fn tier(s: &str) -> Tier {
    if s == "thorough" { Tier::Thorough } else { Tier::Quick }
}

fn main() {
    let a: Vec<String> = std::env::args().collect();
    let code = match a.get(1).map(|s| s.as_str()) {
        Some("check") if a.len() >= 4 => run::check_main(&a[2], tier(&a[3])),
        Some("child") if a.len() >= 8 => {
            let skip = if a[7] == "-" { vec![] } else { a[7].split(',').filter_map(|x| x.parse().ok()).collect() };
            run::child_main(&a[2], tier(&a[3]), a[4].parse().unwrap_or(run::DEFAULT_SEED), Path::new(&a[5]), Path::new(&a[6]), skip)
        }
        Some("one") if a.len() >= 6 => run::one_main(&a[2], tier(&a[3]), a[4].parse().unwrap_or(0), a[5].parse().unwrap_or(0)),
        Some("replay") if a.len() >= 3 => run::replay_main(Path::new(&a[2])),
        Some("shrink") if a.len() >= 4 => run::shrink_main(Path::new(&a[2]), Path::new(&a[3])),
        Some("selftest") => run::selftest_main(&a[2..].iter().filter(|x| x.as_str() != "determinism").cloned().collect::<Vec<_>>()),
        Some("show") if a.len() >= 3 => {
            lab::install_panic_hook();
            let rf: run::ReplayFile = serde_json::from_slice(&std::fs::read(&a[2]).unwrap()).unwrap();
            println!("{} | {}", rf.clause, rf.detail);
            if let case::Case::C17(c) = &rf.case {
                println!("doc = {:?} target={:?} radius={} entry={:?}", c.doc.lossy(), c.target, c.radius, c.entry);
                prop::c17::show(c);
            } else if let case::Case::C15(c) = &rf.case {
                prop::c15::show(c);
            } else {
                println!("{}", serde_json::to_string_pretty(&rf.case).unwrap());
            }
            0
        }
        Some("gen") if a.len() >= 6 => {
            // print one generated case
            match props::spec(&a[2]) {
                Some(s) => {
                    let c = (s.generate)(tier(&a[3]), a[4].parse().unwrap_or(0), a[5].parse().unwrap_or(0));
                    println!("{}", serde_json::to_string_pretty(&c).unwrap());
                    0
                }
                None => 2,
            }
        }
        _ => {
            eprintln!("usage: simsaphyr check <ID> <quick|thorough> | replay <file> | shrink <in> <out> | gen <ID> <tier> <seed> <idx>");
            2
        }
    };
    std::process::exit(code);
}
