//! Workload generators: document grammar, token soup, corpus, chunk schedules.

use crate::io::Chunking;
use crate::rng::Rng;
use crate::types::Target;

#[derive(Clone, Debug, PartialEq)]
pub enum Node {
    Null,
    Bool(bool),
    Int(i64),
    Float(String),
    Str(String),
    Seq(Vec<Node>),
    Map(Vec<(String, Node)>),
    /// already rendered flow/inline text (aliases, tagged values)
    Raw(String),
}

pub const WORDS: &[&str] = &[
    "alpha", "beta", "gamma", "x", "name", "value", "héllo", "naïve", "日本語", "ключ", "😀", "a😀b", "ñ",
    "Zürich", "foo bar", "under_score", "dash-ed", "dot.ted", "€uro", "𝄞clef", "long-word-with-many-parts",
];

pub const TRICKY: &[&str] = &[
    "a: b", "# no", "- x", "true", "null", "~", "123", "1.5", "", " lead", "trail ", "it's", "say \"hi\"",
    "tab\there", "line1\nline2", "[x]", "{y}", "*star", "&amp", "!bang", "%pct", "@at", "`tick", "|pipe", ">gt",
    "yes", "off", "0x1F", "0o17", "1e3", ".inf", "<<", "?q", ":c", "é\nü", "x\u{85}y", "z\u{2028}w",
];

fn is_plain_safe(s: &str) -> bool {
    if s.is_empty() {
        return false;
    }
    let first = s.chars().next().unwrap();
    if " -?:,[]{}#&*!|>'\"%@`~".contains(first) || first.is_ascii_digit() || first == '.' || first == '<' {
        return false;
    }
    if s.ends_with(' ') || s.ends_with(':') {
        return false;
    }
    if s.contains(": ") || s.contains(" #") || s.contains('\n') || s.contains('\t') {
        return false;
    }
    if s.chars().any(|c| (c as u32) < 0x20 || c == '\u{85}' || c == '\u{2028}' || c == '\u{2029}' || c == '\u{feff}') {
        return false;
    }
    if s.contains(',') || s.contains('[') || s.contains(']') || s.contains('{') || s.contains('}') {
        return false;
    }
    let l = s.to_ascii_lowercase();
    !matches!(
        l.as_str(),
        "true" | "false" | "null" | "yes" | "no" | "on" | "off" | "y" | "n" | "nan" | "inf"
    )
}

fn dq(s: &str, rng: &mut Rng) -> String {
    let mut o = String::from("\"");
    for c in s.chars() {
        match c {
            '"' => o.push_str("\\\""),
            '\\' => o.push_str("\\\\"),
            '\n' => o.push_str("\\n"),
            '\t' => o.push_str("\\t"),
            '\u{85}' => o.push_str("\\N"),
            '\u{2028}' => o.push_str("\\L"),
            c if (c as u32) < 0x20 => o.push_str(&format!("\\x{:02x}", c as u32)),
            c if !c.is_ascii() && rng.chance(1, 4) => {
                let v = c as u32;
                if v <= 0xffff {
                    o.push_str(&format!("\\u{v:04x}"))
                } else {
                    o.push_str(&format!("\\U{v:08x}"))
                }
            }
            c => o.push(c),
        }
    }
    o.push('"');
    o
}

fn sq(s: &str) -> String {
    format!("'{}'", s.replace('\'', "''"))
}

#[derive(Clone, Debug)]
pub struct Style {
    pub flow: usize,     // probability (out of 10) that a container is rendered in flow style
    pub quote: usize,    // probability (out of 10) that a safe string is quoted anyway
    pub comments: usize, // probability (out of 10) of a trailing comment per line
    pub crlf: bool,
    pub block_scalars: bool,
    pub indent: usize,
    pub anchors: usize, // probability (out of 10) that a sequence gets an anchor/alias pair
}

impl Style {
    pub fn random(rng: &mut Rng) -> Style {
        Style {
            flow: *rng.pick(&[0, 0, 2, 5, 10]),
            quote: *rng.pick(&[0, 2, 5]),
            comments: *rng.pick(&[0, 0, 1, 3]),
            crlf: rng.chance(1, 6),
            block_scalars: rng.chance(1, 2),
            indent: *rng.pick(&[2, 2, 4, 3]),
            anchors: *rng.pick(&[0, 0, 3, 6]),
        }
    }
    pub fn plain() -> Style {
        Style {
            flow: 0,
            quote: 0,
            comments: 0,
            crlf: false,
            block_scalars: false,
            indent: 2,
            anchors: 0,
        }
    }
}

pub fn gen_string(rng: &mut Rng) -> String {
    if rng.chance(1, 14) {
        // several long lines: rendered as a block scalar when the style allows it
        let n = rng.range(2, 4);
        let mut lines = Vec::new();
        for _ in 0..n {
            let mut l = String::new();
            while l.chars().count() < 24 {
                l.push_str(&**rng.pick(WORDS));
                l.push(' ');
            }
            lines.push(l.trim_end().to_string());
        }
        return lines.join("\n");
    }
    match rng.below(10) {
        0 => rng.pick(TRICKY).to_string(),
        1 | 2 => format!("{} {}", rng.pick(WORDS), rng.pick(WORDS)),
        3 => {
            let n = rng.range(20, 120);
            let mut s = String::new();
            while s.len() < n {
                s.push_str(&**rng.pick(WORDS));
                s.push(' ');
            }
            s.trim_end().to_string()
        }
        _ => rng.pick(WORDS).to_string(),
    }
}

fn gen_key(rng: &mut Rng, i: usize) -> String {
    match rng.below(6) {
        0 => format!("{}{}", rng.pick(WORDS).replace(' ', "_"), i),
        _ => format!("k{i}"),
    }
}

pub fn gen_json(rng: &mut Rng, depth: usize) -> Node {
    let leaf = depth == 0 || rng.chance(2, 5);
    if leaf {
        match rng.below(8) {
            0 => Node::Null,
            1 => Node::Bool(rng.chance(1, 2)),
            2 | 3 => Node::Int(rng.below(2000) as i64 - 1000),
            4 => Node::Float(rng.pick(&["1.5", "-0.25", "1e3", ".inf", "-.inf", ".nan", "3.14159", "0.0"]).to_string()),
            _ => Node::Str(gen_string(rng)),
        }
    } else if rng.chance(1, 2) {
        let n = rng.below(5);
        Node::Seq((0..n).map(|_| gen_json(rng, depth - 1)).collect())
    } else {
        let n = rng.below(5);
        Node::Map((0..n).map(|i| (gen_key(rng, i), gen_json(rng, depth - 1))).collect())
    }
}

fn gen_inner(rng: &mut Rng) -> Node {
    Node::Map(vec![
        ("k".into(), Node::Str(gen_string(rng))),
        ("v".into(), Node::Float(rng.pick(&["1.5", "2", "-0.5", "1e2", ".inf"]).to_string())),
    ])
}

/// A node that deserializes into `target` (most of the time).
pub fn gen_for(target: Target, rng: &mut Rng) -> Node {
    match target {
        Target::Json => gen_json(rng, 3),
        Target::Cfg => {
            let mut m = vec![
                ("name".to_string(), Node::Str(gen_string(rng))),
                ("n".to_string(), Node::Int(rng.below(100000) as i64 - 500)),
            ];
            if rng.chance(1, 2) {
                m.push(("flag".into(), if rng.chance(1, 4) { Node::Null } else { Node::Bool(rng.chance(1, 2)) }));
            }
            if rng.chance(2, 3) {
                let n = rng.below(6);
                m.push(("list".into(), Node::Seq((0..n).map(|_| Node::Int(rng.below(1000) as i64)).collect())));
            }
            if rng.chance(1, 3) {
                rng.shuffle(&mut m);
            }
            Node::Map(m)
        }
        Target::Nested => {
            let n = rng.below(4);
            Node::Map(vec![
                ("id".into(), Node::Int(rng.below(5000) as i64)),
                ("inner".into(), gen_inner(rng)),
                ("items".into(), Node::Seq((0..n).map(|_| gen_inner(rng)).collect())),
            ])
        }
        Target::VecI | Target::LenientVec | Target::LenientJsonVec => {
            let n = rng.below(8);
            Node::Seq((0..n).map(|_| Node::Int(rng.below(100000) as i64 - 50000)).collect())
        }
        Target::VecS => {
            let n = rng.below(6);
            Node::Seq((0..n).map(|_| Node::Str(gen_string(rng))).collect())
        }
        Target::Tup => Node::Seq(vec![Node::Int(rng.below(100) as i64), Node::Int(-(rng.below(100) as i64))]),
        Target::TupS => Node::Seq(vec![Node::Int(rng.below(100) as i64), Node::Str(gen_string(rng))]),
        Target::Map | Target::RcMap | Target::GreedyMap => {
            let n = rng.below(6);
            Node::Map((0..n).map(|i| (gen_key(rng, i), Node::Str(gen_string(rng)))).collect())
        }
        Target::En => match rng.below(4) {
            0 => Node::Str("U".into()),
            1 => Node::Map(vec![("N".into(), Node::Int(rng.below(100) as i64))]),
            2 => Node::Map(vec![(
                "T".into(),
                Node::Seq(vec![Node::Int(rng.below(100) as i64), Node::Str(gen_string(rng))]),
            )]),
            _ => Node::Map(vec![(
                "S".into(),
                Node::Map(vec![
                    ("a".into(), Node::Int(rng.below(100) as i64)),
                    ("b".into(), Node::Str(gen_string(rng))),
                ]),
            )]),
        },
        Target::OptS => {
            if rng.chance(1, 4) {
                Node::Null
            } else {
                Node::Str(gen_string(rng))
            }
        }
        Target::Unit => Node::Null,
        Target::Str => Node::Str(gen_string(rng)),
        Target::I64 => Node::Int(rng.below(1_000_000) as i64 - 500_000),
        Target::F64 => Node::Float(rng.pick(&["1.5", "-2.25", "1e10", ".inf", ".nan", "0.1", "7", "+.inf", "-.inf", "+.nan", ".INF", ".NaN", ".Inf"]).to_string()),
        Target::Bool => Node::Bool(rng.chance(1, 2)),
        Target::UntilX => {
            let n = rng.below(3);
            let mut m: Vec<(String, Node)> = (0..n).map(|i| (gen_key(rng, i), Node::Int(rng.below(100) as i64))).collect();
            m.push(("x".into(), Node::Int(rng.below(100) as i64)));
            Node::Map(m)
        }
        Target::FirstEntry => {
            let n = 1 + rng.below(3);
            Node::Map((0..n).map(|i| (gen_key(rng, i), Node::Int(rng.below(100) as i64))).collect())
        }
        Target::LenientRoot => match rng.below(3) {
            0 => Node::Int(rng.below(1000) as i64),
            1 => Node::Str(gen_string(rng)),
            _ => Node::Seq(vec![Node::Int(1), Node::Int(2)]),
        },
        Target::TagEn => match rng.below(3) {
            0 => Node::Str("Start".into()),
            1 => Node::Map(vec![("Speed".into(), Node::Int(rng.below(100) as i64))]),
            _ => Node::Map(vec![("Note".into(), Node::Str(gen_string(rng)))]),
        },
    }
}

fn scalar_text(n: &Node, rng: &mut Rng, st: &Style, in_flow: bool) -> String {
    match n {
        Node::Null => rng.pick(&["null", "~", "", "Null"]).to_string(),
        Node::Bool(b) => {
            if *b {
                rng.pick(&["true", "true", "True", "yes", "on"]).to_string()
            } else {
                rng.pick(&["false", "false", "False", "no", "off"]).to_string()
            }
        }
        Node::Int(i) => {
            if *i >= 0 && rng.chance(1, 10) {
                format!("0x{i:X}")
            } else if *i >= 0 && rng.chance(1, 12) {
                format!("+{i}")
            } else {
                i.to_string()
            }
        }
        Node::Float(f) => f.clone(),
        Node::Str(s) => {
            let safe = is_plain_safe(s) && !(in_flow && s.contains(|c| ",[]{}".contains(c)));
            if safe && !rng.chance(st.quote, 10) {
                s.clone()
            } else if rng.chance(1, 2) && !s.chars().any(|c| (c as u32) < 0x20 || c == '\u{85}' || c == '\u{2028}') {
                sq(s)
            } else {
                dq(s, rng)
            }
        }
        Node::Raw(r) => r.clone(),
        _ => unreachable!(),
    }
}

fn key_text(k: &str, rng: &mut Rng, st: &Style) -> String {
    if is_plain_safe(k) && !rng.chance(st.quote, 20) {
        k.to_string()
    } else {
        dq(k, rng)
    }
}

fn flow(n: &Node, rng: &mut Rng, st: &Style) -> String {
    match n {
        Node::Seq(v) => {
            let items: Vec<String> = v.iter().map(|x| flow(x, rng, st)).collect();
            format!("[{}]", items.join(", "))
        }
        Node::Map(m) => {
            let items: Vec<String> = m
                .iter()
                .map(|(k, v)| {
                    let vt = flow(v, rng, st);
                    let kt = key_text(k, rng, st);
                    if vt.is_empty() { format!("{kt}: null") } else { format!("{kt}: {vt}") }
                })
                .collect();
            format!("{{{}}}", items.join(", "))
        }
        Node::Null => rng.pick(&["null", "~"]).to_string(),
        s => scalar_text(s, rng, st, true),
    }
}

struct Out<'a> {
    s: String,
    st: &'a Style,
    anchor_ctr: usize,
}

impl Out<'_> {
    fn eol(&mut self, rng: &mut Rng) {
        if rng.chance(self.st.comments, 10) {
            self.s.push_str(" # c");
            self.s.push_str(&**rng.pick(WORDS));
        }
        if self.st.crlf {
            self.s.push_str("\r\n");
        } else {
            self.s.push('\n');
        }
    }
}

fn is_container(n: &Node) -> bool {
    matches!(n, Node::Seq(_) | Node::Map(_))
}

fn block_scalar_ok(s: &str) -> bool {
    s.contains('\n')
        && !s.starts_with(' ')
        && !s.starts_with('\n')
        && !s.contains('\t')
        && !s.chars().any(|c| (c as u32) < 0x20 && c != '\n' || c == '\u{85}' || c == '\u{2028}')
        && !s.split('\n').any(|l| l.starts_with(' ') || l.ends_with(' '))
}

fn block(n: &Node, out: &mut Out, rng: &mut Rng, indent: usize) {
    let pad = " ".repeat(indent);
    match n {
        Node::Seq(v) if !v.is_empty() && !rng.chance(out.st.flow, 10) => {
            // optional anchor on first scalar element reused as alias later
            let mut alias_from: Option<String> = None;
            for (i, item) in v.iter().enumerate() {
                out.s.push_str(&pad);
                out.s.push('-');
                if is_container(item) && !is_empty_container(item) && !rng.chance(out.st.flow, 10) {
                    out.eol(rng);
                    block(item, out, rng, indent + out.st.indent);
                } else {
                    out.s.push(' ');
                    if i == 0 && v.len() > 1 && rng.chance(out.st.anchors, 10) {
                        out.anchor_ctr += 1;
                        let name = format!("a{}", out.anchor_ctr);
                        out.s.push_str(&format!("&{name} "));
                        alias_from = Some(name);
                        let t = flow(item, rng, out.st);
                        out.s.push_str(if t.is_empty() { "null" } else { &t });
                    } else if i > 0 && alias_from.is_some() && rng.chance(1, 2) {
                        out.s.push_str(&format!("*{}", alias_from.as_ref().unwrap()));
                    } else {
                        let t = flow(item, rng, out.st);
                        out.s.push_str(&t);
                    }
                    out.eol(rng);
                }
            }
        }
        Node::Map(m) if !m.is_empty() && !rng.chance(out.st.flow, 10) => {
            for (k, v) in m {
                out.s.push_str(&pad);
                let kt = key_text(k, rng, out.st);
                out.s.push_str(&kt);
                out.s.push(':');
                if is_container(v) && !is_empty_container(v) && !rng.chance(out.st.flow, 10) {
                    out.eol(rng);
                    let extra = if matches!(v, Node::Seq(_)) && rng.chance(1, 3) { 0 } else { out.st.indent };
                    block(v, out, rng, indent + extra);
                } else if let Node::Str(s) = v
                    && out.st.block_scalars
                    && block_scalar_ok(s)
                {
                    let eol = if out.st.crlf { "\r\n" } else { "\n" };
                    out.s.push_str(if rng.chance(1, 3) { " >-" } else { " |-" });
                    out.s.push_str(eol);
                    let folded = out.s.ends_with(&format!(">-{eol}"));
                    for (li, l) in s.split('\n').enumerate() {
                        if folded && li > 0 {
                            // a blank line keeps the line break in a folded scalar
                            out.s.push_str(eol);
                        }
                        out.s.push_str(&pad);
                        out.s.push_str(&" ".repeat(out.st.indent));
                        out.s.push_str(l);
                        out.s.push_str(eol);
                    }
                } else {
                    let t = flow(v, rng, out.st);
                    if !t.is_empty() {
                        out.s.push(' ');
                        out.s.push_str(&t);
                    }
                    out.eol(rng);
                }
            }
        }
        other => {
            out.s.push_str(&pad);
            let t = flow(other, rng, out.st);
            out.s.push_str(&t);
            out.eol(rng);
        }
    }
}

fn is_empty_container(n: &Node) -> bool {
    match n {
        Node::Seq(v) => v.is_empty(),
        Node::Map(m) => m.is_empty(),
        _ => false,
    }
}

/// Render a node as one YAML document body (no markers).
pub fn render(n: &Node, rng: &mut Rng, st: &Style) -> String {
    let mut out = Out {
        s: String::new(),
        st,
        anchor_ctr: 0,
    };
    block(n, &mut out, rng, 0);
    out.s
}

/// A generated single document for `target`, with optional decorations.
pub fn gen_doc(target: Target, rng: &mut Rng) -> String {
    let st = Style::random(rng);
    let node = gen_for(target, rng);
    let mut s = String::new();
    if rng.chance(1, 10) {
        s.push('\u{feff}');
    }
    if rng.chance(1, 6) {
        s.push_str("# header ");
        s.push_str(&**rng.pick(WORDS));
        s.push('\n');
    }
    if rng.chance(1, 5) {
        s.push_str("---\n");
    }
    s.push_str(&render(&node, rng, &st));
    if rng.chance(1, 8) {
        s.push_str("...\n");
    }
    if rng.chance(1, 8) {
        // drop the final line break
        while s.ends_with('\n') || s.ends_with('\r') {
            s.pop();
        }
    }
    s
}

pub const SOUP: &[&str] = &[
    "-", "- ", "?", "? ", ":", ": ", ",", "[", "]", "{", "}", "#", "&a", "*a", "!", "!!", "!!str", "!t", "|", ">",
    "|-", ">+", "'", "\"", "%", "%YAML 1.2", "%TAG ! tag:x,2000:", "@", "`", "---", "...", "\n", "\n", "\n  ", "\n- ",
    " ", "  ", "\t", "a", "b: c", "k", "1", "0x1G", "0o9", "~", "null", "true", "<<", "<<: *a", "é", "日", "😀",
    "\u{feff}", "\r", "\r\n", "\u{85}", "\u{2028}", "\\", "\"\\x41\"", "\"\\u00e9\"", "\"\\q\"", "'it''s'", "\u{0}",
    "\u{7}", "\u{1b}[31m", "!!binary", "aGVsbG8=", "!!int", "!!float", "!!null", "!!bool", "- - -", "a: &a [*a]",
];

pub fn gen_soup(rng: &mut Rng, max_tokens: usize) -> String {
    let n = rng.range(1, max_tokens);
    let mut s = String::new();
    for _ in 0..n {
        s.push_str(&**rng.pick(SOUP));
        if rng.chance(1, 3) {
            s.push(' ');
        }
    }
    s
}

/// Mutate a valid document slightly (textual), to land near-valid inputs.
pub fn mutate_text(s: &str, rng: &mut Rng) -> String {
    let mut chars: Vec<char> = s.chars().collect();
    let n = rng.range(1, 3);
    for _ in 0..n {
        if chars.is_empty() {
            chars.push('x');
            continue;
        }
        let i = rng.below(chars.len());
        match rng.below(6) {
            0 => {
                chars.remove(i);
            }
            1 => {
                let t: Vec<char> = rng.pick(SOUP).chars().collect();
                for (j, c) in t.into_iter().enumerate() {
                    chars.insert(i + j, c);
                }
            }
            2 => chars[i] = *rng.pick(&[':', '-', ' ', '\n', '[', '}', '"', '\'', '#', '&', '*', 'é', '\t']),
            3 => {
                let j = rng.below(chars.len());
                chars.swap(i, j);
            }
            4 => chars.truncate(i),
            _ => {
                let c = chars[i];
                chars.insert(i, c);
            }
        }
    }
    chars.into_iter().collect()
}

/// Hand-written corpus: (text, a target that fits).
pub fn corpus() -> Vec<(String, Target)> {
    use Target::*;
    let raw: Vec<(&str, Target)> = vec![
        ("a: 1\n", Json),
        ("a: 1", Json),
        // code points at the edges of every UTF-8 length class (lead bytes C2, DF, E0, EF, F0, F3, F4)
        ("e1: \u{80}\u{7ff}\ne2: \u{800}\u{fffd}\ne3: \u{10000}\u{fffff}\ne4: 'x\u{100000}y\u{10ffff}'\n", Map),
        ("- \u{10ffff}\n- \u{f0000}\u{3ffff}\n- \u{e000}\u{d7ff}\n", VecS),
        // the last character is a 2-, 3- and 4-byte code point with nothing after it
        ("key: café", Json),
        ("- 日本", VecS),
        ("key: ok 😀", Map),
        ("---\na: 1\n---\nb: é", Json),
        ("- 1\n- 2\n- 3\n", VecI),
        ("[1, 2, 3]", VecI),
        ("[]", VecI),
        ("name: x\nn: 5\n", Cfg),
        ("name: héllo wörld\nn: -7\nflag: yes\nlist: [1, 2, 3]\n", Cfg),
        ("---\nname: 日本語\nn: 0x1F\nlist:\n- 1\n- 2\n...\n", Cfg),
        ("{name: \"q\\u00e9\", n: 3}", Cfg),
        ("name: 'it''s'\nn: 1 # c\n# trailing\n", Cfg),
        ("\u{feff}name: bom\nn: 2\n", Cfg),
        ("id: 7\ninner:\n  k: ключ\n  v: 1.5\nitems:\n  - k: a\n    v: 2\n  - {k: b, v: .inf}\n", Nested),
        ("id: 1\ninner: &i {k: x, v: 1}\nitems: [*i, *i]\n", Nested),
        ("- 1\n- 2\n", Tup),
        ("[7, -3]", Tup),
        ("- 5\n- five 😀\n", TupS),
        ("k1: v1\nk2: 'v 2'\nk3: \"v\\t3\"\n", Map),
        ("{}", Map),
        // an alias as a mapping value in front of a merge key and of a plain `<<` value
        ("b: &b {x: 1}\nm:\n  a: *b\n  <<: *b\n  c: <<\n", Json),
        ("b: &b {x: '1'}\nm: {a: *b, <<: *b}\n", Json),
        ("- 1\n- 2\n- 3\n- 4\n", LenientVec),
        ("[10, 20, oops, 40]", LenientVec),
        ("k: &x val\nj: *x\n", RcMap),
        ("a: &x one\nb: &y two\nc: *x\nd: *y\ne: plain\n", RcMap),
        ("base: &b {x: '1'}\n", Json),
        ("a: &x 1\nb: *x\nc: [*x, *x]\n", Json),
        ("d: &d {p: 1, q: 2}\ne:\n  <<: *d\n  r: 3\n", Json),
        ("U", En),
        ("N: 4\n", En),
        ("T: [1, one]\n", En),
        ("S:\n  a: 1\n  b: bee\n", En),
        ("!N 5", En),
        ("~", OptS),
        ("some text", OptS),
        ("", Unit),
        ("null", Unit),
        ("plain scalar with spaces", Str),
        ("\"double \\\"quoted\\\" ü\"", Str),
        ("|\n  literal\n  block é\n", Str),
        (">\n  folded\n  text 日本\n\n  para\n", Str),
        ("'single'", Str),
        ("42", I64),
        ("-0x2A", I64),
        ("1_000", I64),
        ("3.25", F64),
        (".nan", F64),
        ("-.inf", F64),
        ("true", Bool),
        ("off", Bool),
        ("a:\n  b:\n    c:\n      d: [1, {e: f}]\n", Json),
        ("? complex\n: value\n", Json),
        ("- - 1\n  - 2\n- - 3\n", Json),
        ("- a\n-\n  - b\n  - c\n- {d: e}\n", Json),
        ("a: |\n  x\n  y\nb: >-\n  z\n  w\n", Json),
        ("\"k\\x41\": 1\n'q q': 2\n", Json),
        ("a: !!str 123\nb: !!int '7'\nc: !!binary aGk=\n", Json),
        ("# only a comment\n", Json),
        ("--- a\n", Str),
        ("--- |\n  text\n", Str),
        ("key: value # comment 😀\r\nother: 2\r\n", Json),
        ("€: 1\n𝄞: 2\n", Json),
        ("a: 1\n...\n", Json),
        ("a: 1\n...\n# after\n", Json),
        // every spelling of the non-finite floats (an untyped target gets them as text)
        ("a: .inf\nb: +.inf\nc: -.inf\nd: .nan\ne: +.nan\nf: .INF\ng: .NaN\nh: [+.inf, +.nan, -.Inf]\n", Json),
        // text that the scanner rejects behind an explicit end marker is ignored by the single-document
        // entry points; a reader fault or the cap inside it is not
        ("a: 1\n...\n\"never closed trailing text that goes on for a while so that several reads fall into it\n", Json),
        ("name: a\nn: 1\n...\n] stray closing bracket and more text behind it, and more, and more\n", Cfg),
        // (ASCII only: what lies behind the point where the scanner gives up is never decoded, so a stream
        // that ends inside a character there goes unnoticed - recorded in DESIGN §6, not decided)
        ("- 1\n- 2\n...\n@ reserved indicator, then a long tail of text that is not YAML at all\n", VecI),
        ("- &a x\n- *a\n- &b [1, 2]\n- *b\n", Json),
        ("x: [a, b\n", Json),
        ("x: {a: 1\n", Json),
        ("a: 1\n b: 2\n", Json),
        ("a: 'unterminated\n", Json),
        ("a: \"bad \\q escape\"\n", Json),
        ("a: *nope\n", Json),
        ("a: 1\na: 2\n", Json),
        ("- 1\n- x\n", VecI),
        ("name: x\n", Cfg),
        ("name: x\nn: notanumber\n", Cfg),
        ("name: x\nn: 1\nextra: 2\n", Cfg),
        ("[1, 2, 3]", Tup),
        ("[1]", Tup),
        ("a: 1\n---\nb: 2\n", Json),
        ("a: 1\n---\n", Json),
        ("---\n---\n", Json),
        ("\t", Json),
        ("a:\tb\n", Json),
        ("%YAML 1.2\n---\na: 1\n", Json),
        ("%TAG !e! tag:e,2000:\n---\n!e!x 1\n", Json),
        ("a: 99999999999999999999\n", Json),
        ("n: 99999999999999999999\nname: x\n", Cfg),
        ("x: \"\\U0001F600\"\n", Json),
        ("- é\n- 日\n- 😀\n- ñandú\n", VecS),
        ("- 'a'\n- \"b\"\n- c\n", VecS),
        ("text: |\r\n  a long line of literal text goes here\r\n  second long line of text with éé and 日本\r\nnext: >\r\n  folded long line number one is here\r\n  and two\r\n\r\n  para\r\n", Json),
        ("text: |\n  a long line of literal text goes here\n  second long line of text with éé and 日本\nnext: >-\n  folded long line number one is here\n  and two\n", Json),
        ("- |+\r\n  keep trailing breaks in this long line\r\n\r\n- >\r\n  x\r\n", VecS),
        ("|\r\n  literal root scalar with a fairly long first line\r\n  short\r\n", Str),
        ("k: \"double quoted that continues\r\n  on a second line of reasonable length\"\r\n", Json),
        ("k: plain scalar that continues\r\n  on a second line of reasonable length\r\n", Json),
    ];
    raw.into_iter().map(|(s, t)| (s.to_string(), t)).collect()
}

// ------------------------------------------------------------------------------------------------
// Chunk schedules

/// Byte offsets that are interesting split points in `data`: inside multi-byte chars (each interior
/// offset), between CR and LF, right after an indicator before a blank, inside `---` / `...`, inside BOM,
/// at line breaks.
pub fn boundary_offsets(data: &[u8]) -> Vec<(usize, &'static str)> {
    let mut v = Vec::new();
    let n = data.len();
    let mut i = 0;
    while i < n {
        let b = data[i];
        let len = if b < 0x80 {
            1
        } else if b & 0xE0 == 0xC0 {
            2
        } else if b & 0xF0 == 0xE0 {
            3
        } else if b & 0xF8 == 0xF0 {
            4
        } else {
            1
        };
        if len > 1 && i + len <= n {
            let bom = i == 0 && data.starts_with(&[0xEF, 0xBB, 0xBF]);
            for j in 1..len {
                v.push((i + j, if bom { "in_bom" } else { "in_char" }));
            }
        }
        if b == b'\r' && i + 1 < n && data[i + 1] == b'\n' {
            v.push((i + 1, "cr|lf"));
        }
        if (b == b'-' || b == b'?' || b == b':') && i + 1 < n && (data[i + 1] == b' ' || data[i + 1] == b'\n') {
            v.push((i + 1, "indicator|blank"));
        }
        if (b == b'-' || b == b'.') && i + 2 < n && data[i + 1] == b && data[i + 2] == b && (i == 0 || data[i - 1] == b'\n') {
            v.push((i + 1, "in_marker"));
            v.push((i + 2, "in_marker"));
        }
        if b == b'\n' {
            v.push((i + 1, "after_lf"));
            v.push((i, "before_lf"));
        }
        i += len.max(1);
    }
    v.retain(|(o, _)| *o > 0 && *o < n);
    v
}

/// Turn a sorted list of split offsets into chunk lengths.
pub fn chunks_from_splits(splits: &[usize], total: usize) -> Vec<usize> {
    let mut out = Vec::new();
    let mut prev = 0;
    for &s in splits {
        if s > prev && s < total {
            out.push(s - prev);
            prev = s;
        }
    }
    if total > prev {
        out.push(total - prev);
    }
    out
}

/// Swarmed chunk schedule for a byte string.
pub fn gen_chunking(data: &[u8], rng: &mut Rng) -> Chunking {
    match rng.below(8) {
        0 => Chunking::Whole,
        1 => Chunking::Fixed(1),
        2 => Chunking::Fixed(rng.range(2, 9)),
        3 => {
            // geometric-ish random sizes
            let mut v = Vec::new();
            let mut left = data.len();
            while left > 0 && v.len() < 4096 {
                let n = match rng.below(4) {
                    0 => 1,
                    1 => rng.range(1, 4),
                    2 => rng.range(1, 32),
                    _ => rng.range(1, 700),
                };
                v.push(n);
                left = left.saturating_sub(n);
            }
            Chunking::List(v)
        }
        4 | 5 => {
            // boundary hunter: splits only at interesting offsets
            let b = boundary_offsets(data);
            if b.is_empty() {
                return Chunking::Fixed(rng.range(1, 5));
            }
            let mut splits: Vec<usize> = b.iter().filter(|_| rng.chance(1, 3)).map(|x| x.0).collect();
            if splits.is_empty() {
                splits.push(rng.pick(&b).0);
            }
            splits.sort();
            splits.dedup();
            Chunking::List(chunks_from_splits(&splits, data.len()))
        }
        6 => Chunking::Fixed(*rng.pick(&[16, 64, 511, 512, 1024, 3071, 3072, 4096, 8191, 8192])),
        _ => Chunking::List(vec![rng.range(1, data.len().max(1))]),
    }
}
