//! Explicit case descriptions. A case is materialised completely before it is executed; the replay
//! file is this description (JSON) plus the violated clause.

use serde::{Deserialize, Deserializer, Serialize, Serializer};
use std::collections::{BTreeMap, HashSet};

/// Byte string that serialises as text when it is valid UTF-8, as hex otherwise.
#[derive(Clone, Debug, PartialEq, Eq, Default)]
pub struct Doc(pub Vec<u8>);

impl Doc {
    pub fn from_str(s: &str) -> Doc {
        Doc(s.as_bytes().to_vec())
    }
    pub fn as_str(&self) -> Option<&str> {
        std::str::from_utf8(&self.0).ok()
    }
    pub fn lossy(&self) -> String {
        String::from_utf8_lossy(&self.0).into_owned()
    }
}

#[derive(Serialize, Deserialize)]
#[serde(untagged)]
enum DocRepr {
    Text(String),
    Hex { hex: String },
}

impl Serialize for Doc {
    fn serialize<S: Serializer>(&self, s: S) -> Result<S::Ok, S::Error> {
        match std::str::from_utf8(&self.0) {
            Ok(t) => DocRepr::Text(t.to_string()).serialize(s),
            Err(_) => DocRepr::Hex {
                hex: self.0.iter().map(|b| format!("{b:02x}")).collect(),
            }
            .serialize(s),
        }
    }
}

impl<'de> Deserialize<'de> for Doc {
    fn deserialize<D: Deserializer<'de>>(d: D) -> Result<Self, D::Error> {
        match DocRepr::deserialize(d)? {
            DocRepr::Text(t) => Ok(Doc(t.into_bytes())),
            DocRepr::Hex { hex } => {
                let b = hex.as_bytes();
                let mut v = Vec::with_capacity(b.len() / 2);
                let mut i = 0;
                while i + 1 < b.len() {
                    let h = u8::from_str_radix(std::str::from_utf8(&b[i..i + 2]).unwrap_or("00"), 16).unwrap_or(0);
                    v.push(h);
                    i += 2;
                }
                Ok(Doc(v))
            }
        }
    }
}

#[derive(Clone, Debug, Serialize, Deserialize)]
#[serde(tag = "prop")]
pub enum Case {
    C10R(crate::prop::c10::ReaderCase),
    C10W(crate::prop::c10::WriterCase),
    C09(crate::prop::c09::AgreeCase),
    C09B(crate::prop::c09::BorrowCase),
    C11(crate::prop::c11::StreamCase),
    C07(crate::prop::c07::BudgetCase),
    C15(crate::prop::c15::HistoryCase),
    C17(crate::prop::c17::RenderCase),
    C01(crate::prop::c01::TotalCase),
}

#[derive(Clone, Debug, Serialize, Deserialize)]
pub struct Viol {
    pub property: String,
    pub clause: String,
    pub detail: String,
    pub case: Case,
}

impl Viol {
    /// violations with the same signature are reported once
    pub fn signature(&self) -> String {
        format!("{}:{}", self.property, self.clause)
    }
}

#[derive(Clone, Copy, Debug, PartialEq, Eq, Serialize, Deserialize)]
pub enum Tier {
    Quick,
    Thorough,
}

impl Tier {
    pub fn name(self) -> &'static str {
        match self {
            Tier::Quick => "quick",
            Tier::Thorough => "thorough",
        }
    }
}

/// Per-thread statistics, merged by the runner.
#[derive(Default, Debug, Serialize, Deserialize)]
pub struct Stats {
    /// library executions (one call of an entry point under one schedule / fault)
    pub evals: u64,
    /// generated case descriptions
    pub cases: u64,
    pub counters: BTreeMap<String, u64>,
    /// digests of request traces of executions counted as non-trivial
    #[serde(skip)]
    pub nontrivial: HashSet<u64>,
    /// digests of all request traces (distinct library behaviours)
    #[serde(skip)]
    pub behaviours: HashSet<u64>,
    /// digests of schedules (chunk vector + fault vector + decisions)
    #[serde(skip)]
    pub schedules: HashSet<u64>,
    pub samples: Vec<serde_json::Value>,
    /// digest of everything observable in this thread's executions, for the determinism self-check
    pub log_digest: u64,
    /// digest of the case currently executing (reset by the runner before each case)
    #[serde(skip)]
    pub cur_digest: u64,
}

impl Stats {
    pub fn bump(&mut self, key: &str) {
        *self.counters.entry(key.to_string()).or_insert(0) += 1;
    }
    pub fn add(&mut self, key: &str, n: u64) {
        *self.counters.entry(key.to_string()).or_insert(0) += n;
    }
    pub fn note(&mut self, s: &str) {
        self.cur_digest = crate::rng::fnv_mix(self.cur_digest, crate::rng::fnv(s.as_bytes()));
    }
    pub fn merge(&mut self, o: Stats) {
        self.evals += o.evals;
        self.cases += o.cases;
        for (k, v) in o.counters {
            *self.counters.entry(k).or_insert(0) += v;
        }
        self.nontrivial.extend(o.nontrivial);
        self.behaviours.extend(o.behaviours);
        self.schedules.extend(o.schedules);
        for s in o.samples {
            if self.samples.len() < 8 {
                self.samples.push(s);
            }
        }
        // order-independent combination
        self.log_digest = self.log_digest.wrapping_add(o.log_digest);
    }
}
