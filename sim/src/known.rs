//! Hand-written matchers for recorded known findings (see /verif/known_findings.json).
//! A predicate looks at the (minimised) case and the violated clause; it never matches by property alone.

use crate::case::Viol;

pub fn matches(predicate: &str, v: &Viol) -> bool {
    match predicate {
        _ => {
            let _ = v;
            false
        }
    }
}
