//! Hand-written matchers for recorded known findings (see /verif/known_findings.json).
//! A predicate looks at the (minimised) case and the violated clause; it never matches by property alone.

use crate::case::{Case, Viol};

fn doc_text(c: &Case) -> Option<String> {
    match c {
        Case::C09(a) => a.doc.as_str().map(|s| s.to_string()),
        Case::C10R(r) => r.doc.as_str().map(|s| s.to_string()),
        _ => None,
    }
}

/// "!!" (secondary tag handle with an empty suffix): followed by end of input, white space, a line
/// break or a flow indicator.
fn has_empty_suffix_secondary_tag(s: &str) -> bool {
    let b: Vec<char> = s.chars().collect();
    let mut i = 0;
    while i + 1 < b.len() {
        if b[i] == '!' && b[i + 1] == '!' {
            let next = b.get(i + 2).copied();
            match next {
                None => return true,
                Some(c) if c.is_whitespace() || ",[]{}\0".contains(c) => return true,
                _ => {}
            }
        }
        i += 1;
    }
    false
}

/// a line that starts with '%' (a directive) and contains a NUL character
fn has_nul_in_directive(s: &str) -> bool {
    s.split(['\n', '\r']).any(|l| l.starts_with('%') && l.contains('\0'))
}

pub fn matches(predicate: &str, v: &Viol) -> bool {
    match predicate {
        // C09: the dependency's string input accepts an empty-suffix `!!` tag that its buffered input rejects
        "c09_empty_suffix_secondary_tag" => {
            // (the same disagreement seen through any clause that compares string with reader input)
            (matches!(v.clause.as_str(), "reader-disagrees" | "closure-helper-disagrees" | "spanned-locations-disagree" | "tight-budget-disagrees" | "error-span-disagrees" | "interrupted-read-changes-result" | "validating-entry-disagrees"))
                && doc_text(&v.case).map(|s| has_empty_suffix_secondary_tag(&s)).unwrap_or(false)
        }
        // C09: NUL inside a %directive ends the directive for reader input only (consequence of the F04 repair)
        "c09_nul_in_directive" => {
            (matches!(v.clause.as_str(), "reader-disagrees" | "closure-helper-disagrees" | "spanned-locations-disagree" | "tight-budget-disagrees" | "error-span-disagrees" | "interrupted-read-changes-result" | "validating-entry-disagrees"))
                && doc_text(&v.case).map(|s| has_nul_in_directive(&s)).unwrap_or(false)
        }
        // C07: under per-document enforcement the alias/anchor ratio is evaluated once, at the end of the
        // stream, over the last document's counters: a document over its ratio is yielded as Ok (and the
        // error item, if any, follows it). Only the missing breach is known; a false rejection is not.
        "c07_per_document_ratio" => v.clause == "per-document-ratio" && v.detail.contains("breach expected: true"),
        // C01: the derived visitor of a recursive struct with many fields needs more than 4 KiB of stack
        // per nesting level; at the default depth limit of 2000 that does not fit into 8 MiB
        "c01_wide_struct_stack" => {
            v.clause == "process-abort-or-hang"
                && matches!(&v.case, Case::C01(t) if t.target == crate::prop::c01::T01::DeepWide)
        }
        // C11: the parser (dependency) does not know the byte-order mark that YAML allows in front of every
        // document; the library strips only the one at the start of the stream. In front of a later document
        // (or behind an explicit `---`) the mark becomes part of the first scalar.
        "c11_bom_inside_stream" => {
            matches!(v.clause.as_str(), "batch-differs-from-documents" | "iterator-differs-from-documents")
                && v.detail.contains("feff")
                && matches!(&v.case, Case::C11(c) if crate::prop::c11::build_stream(c).chars().skip(1).any(|ch| ch == '\u{feff}'))
        }
        // C11: the parser (dependency) takes a NUL character for the end of its input: everything behind it,
        // further documents included, is silently dropped by every entry point.
        "c11_nul_ends_stream" => {
            matches!(
                v.clause.as_str(),
                "batch-differs-from-documents" | "iterator-differs-from-documents" | "single-entry-accepts-second-document" | "batch-accepts-failing-document"
            ) && matches!(&v.case, Case::C11(c) if {
                let s = crate::prop::c11::build_stream(c);
                // something other than line breaks follows the NUL
                s.split_once('\0').map(|(_, rest)| !rest.trim().is_empty()).unwrap_or(false)
            })
        }
        // C17: the miette adapter hands miette the whole source: lines are shown in full, whatever the radius
        "c17_miette_not_cropped" => v.clause == "miette-not-cropped",
        _ => false,
    }
}
