//! C09 — all entry points agree (str, slice, closure helpers, reader under every chunking);
//! BOM ignored; borrowed strings exactly when verbatim; reader input never lends.

use crate::case::{Case, Doc, Stats, Tier, Viol};
use crate::io::*;
use crate::lab::{self, Entry, OptVec, Outcome, guard};
use crate::rng::Rng;
use crate::types::*;
use crate::wl;
use serde::de::DeserializeOwned;
use serde::{Deserialize, Serialize};
use std::fmt::Debug;

#[derive(Clone, Debug, Serialize, Deserialize)]
pub enum Scheds {
    /// every one of the 2^(n-1) partitions of the bytes into reads (short inputs only)
    AllPartitions,
    List(Vec<Chunking>),
}

#[derive(Clone, Debug, Serialize, Deserialize)]
pub struct AgreeCase {
    pub doc: Doc,
    pub target: Target,
    pub opts: OptVec,
    pub scheds: Scheds,
}

fn run<T: DeserializeOwned + Debug>(entry: Entry, bytes: &[u8], opts: &OptVec, script: &ReaderScript) -> lab::Call {
    lab::single::<T>(entry, bytes, &opts.to_options(), script)
}

pub const MAX_EXHAUSTIVE: usize = 13;

// ------------------------------------------------------------------------------------------------
// Spanned targets: the value carries the line, column and character span of every node, which must
// not depend on the entry point or on how the reader delivers the bytes (byte offsets are documented
// as unavailable for reader input and are not compared).

use serde_saphyr::Spanned;
type SpVal = Spanned<serde_json::Value>;

fn loc(l: &serde_saphyr::Location) -> String {
    format!("{}:{}+{}/{}", l.line(), l.column(), l.span().offset(), l.span().len())
}

fn sp<T: Debug>(s: &Spanned<T>) -> String {
    format!("{:?}@{}<-{}", s.value, loc(&s.referenced), loc(&s.defined))
}

trait SpShape: DeserializeOwned {
    fn canon(&self) -> String;
}
impl SpShape for SpVal {
    fn canon(&self) -> String {
        sp(self)
    }
}
impl SpShape for Vec<SpVal> {
    fn canon(&self) -> String {
        self.iter().map(sp).collect::<Vec<_>>().join(" | ")
    }
}
impl SpShape for std::collections::BTreeMap<String, SpVal> {
    fn canon(&self) -> String {
        self.iter().map(|(k, v)| format!("{k}={}", sp(v))).collect::<Vec<_>>().join(" | ")
    }
}
impl SpShape for std::collections::BTreeMap<String, Spanned<Vec<SpVal>>> {
    fn canon(&self) -> String {
        self.iter()
            .map(|(k, v)| format!("{k}=[{}]@{}<-{}", v.value.iter().map(sp).collect::<Vec<_>>().join(", "), loc(&v.referenced), loc(&v.defined)))
            .collect::<Vec<_>>()
            .join(" | ")
    }
}

/// (clause detail, schedule) for every entry point / schedule whose spanned value differs from from_str's
fn spanned_disagreements<S: SpShape>(text: &str, opts: &OptVec, scheds: &[Chunking], st: &mut Stats) -> Vec<(String, Option<Chunking>)> {
    let mut out = Vec::new();
    let Ok(Ok(reference)) = guard(|| serde_saphyr::from_str_with_options::<S>(text, opts.to_options())) else {
        return out;
    };
    let want = reference.canon();
    st.bump("spanned.shapes_compared");
    if let Ok(r) = guard(|| serde_saphyr::from_slice_with_options::<S>(text.as_bytes(), opts.to_options())) {
        st.evals += 1;
        let got = r.map(|v| v.canon()).map_err(|e| lab::err_info(&e).kind);
        if got.as_ref() != Ok(&want) {
            out.push((format!("from_slice gives {got:?}, from_str gives {want}"), None));
        }
    }
    for ch in scheds {
        let rd = SimReader::new(
            text.as_bytes(),
            ReaderScript {
                chunking: Some(ch.clone()),
                ..Default::default()
            },
        );
        if let Ok(r) = guard(|| serde_saphyr::from_reader_with_options::<_, S>(rd, opts.to_options())) {
            st.evals += 1;
            let got = r.map(|v| v.canon()).map_err(|e| lab::err_info(&e).kind);
            if got.as_ref() != Ok(&want) {
                out.push((format!("from_reader under {} gives {got:?}, from_str gives {want}", describe(ch)), Some(ch.clone())));
                break;
            }
        }
    }
    out
}

pub fn exec_agree(c: &AgreeCase, st: &mut Stats) -> Vec<Viol> {
    let mut out = Vec::new();
    let bytes = &c.doc.0;
    let mk = |clause: &str, detail: String, sched: Option<Chunking>| Viol {
        property: "C09".into(),
        clause: clause.into(),
        detail,
        case: Case::C09(AgreeCase {
            doc: c.doc.clone(),
            target: c.target,
            opts: c.opts.clone(),
            scheds: match sched {
                Some(s) => Scheds::List(vec![s]),
                None => Scheds::List(vec![]),
            },
        }),
    };
    let whole = ReaderScript::default();
    let reference = crate::with_target!(c.target, run(Entry::FromStr, bytes, &c.opts, &whole));
    st.evals += 1;
    let rkey = reference.outcome.agree_key();
    st.note(&rkey);
    st.bump(&format!("outcome.{}", reference.outcome.class()));
    if matches!(reference.outcome, Outcome::Panic(_) | Outcome::Liveness(_)) {
        st.bump("skipped.reference_abnormal(C01)");
        return out;
    }
    // in-memory entry points
    for e in [Entry::FromSlice, Entry::WdStr, Entry::WdSlice] {
        let r = crate::with_target!(c.target, run(e, bytes, &c.opts, &whole));
        st.evals += 1;
        if r.outcome.agree_key() != rkey {
            out.push(mk(
                "mem-entry-disagrees",
                format!("{e:?} gives {} but from_str gives {}", r.outcome.short(), reference.outcome.short()),
                None,
            ));
        }
    }
    // the validating twins of the single-document entry points (garde: `_valid`, validator: `_validate`):
    // string, slice and reader agree, also when the document fails validation and something follows it
    if c.target == Target::Cfg
        && let Some(text) = c.doc.as_str()
    {
        for which in 0..2u8 {
            let run_v = |entry: u8, ch: Option<&Chunking>| -> Outcome {
                let mut renders = Vec::new();
                let opts = c.opts.to_options();
                let rd = || {
                    SimReader::new(
                        text.as_bytes(),
                        ReaderScript {
                            chunking: ch.cloned(),
                            ..Default::default()
                        },
                    )
                };
                match (which, entry) {
                    (0, 0) => lab::canon(guard(|| serde_saphyr::from_str_with_options_valid::<VCfg>(text, opts)), &mut renders),
                    (0, 1) => lab::canon(guard(|| serde_saphyr::from_slice_with_options_valid::<VCfg>(text.as_bytes(), opts)), &mut renders),
                    (0, _) => {
                        let r = rd();
                        lab::canon(guard(|| serde_saphyr::from_reader_with_options_valid::<_, VCfg>(r, opts)), &mut renders)
                    }
                    (_, 0) => lab::canon(guard(|| serde_saphyr::from_str_with_options_validate::<VCfg>(text, opts)), &mut renders),
                    (_, 1) => lab::canon(guard(|| serde_saphyr::from_slice_with_options_validate::<VCfg>(text.as_bytes(), opts)), &mut renders),
                    (_, _) => {
                        let r = rd();
                        lab::canon(guard(|| serde_saphyr::from_reader_with_options_validate::<_, VCfg>(r, opts)), &mut renders)
                    }
                }
            };
            let a = run_v(0, None);
            st.evals += 1;
            if matches!(a, Outcome::Panic(_) | Outcome::Liveness(_)) {
                continue;
            }
            let family = if which == 0 { "garde" } else { "validator" };
            let b = run_v(1, None);
            st.evals += 1;
            if a.agree_key() != b.agree_key() {
                out.push(mk(
                    "validating-entry-disagrees",
                    format!("{family}: the string entry point gives {}, the slice one {}", a.short(), b.short()),
                    None,
                ));
            }
            for ch in [Chunking::Whole, Chunking::Fixed(1), Chunking::Fixed(5)] {
                let r = run_v(2, Some(&ch));
                st.evals += 1;
                st.bump("validating.reader_compared");
                if a.agree_key() != r.agree_key() {
                    out.push(mk(
                        "validating-entry-disagrees",
                        format!("{family}: the string entry point gives {}, the reader one ({ch:?}) {}", a.short(), r.short()),
                        Some(ch.clone()),
                    ));
                }
            }
        }
    }
    // closure helpers whose closure does not deserialize the target: skipping the document
    // (IgnoredAny) and not touching the deserializer at all must behave alike for string and reader input
    if let Some(text) = c.doc.as_str() {
        for mode in 0..2u8 {
            let run_mode = |reader: Option<&Chunking>| -> Outcome {
                let mut renders = Vec::new();
                let opts = c.opts.to_options();
                let f = move |de: serde_saphyr::Deserializer| -> Result<(), serde_saphyr::Error> {
                    if mode == 0 {
                        <serde::de::IgnoredAny as Deserialize>::deserialize(de).map(|_| ())
                    } else {
                        let _ = de;
                        Ok(())
                    }
                };
                match reader {
                    None => lab::canon(guard(|| serde_saphyr::with_deserializer_from_str_with_options(text, opts, f)), &mut renders),
                    Some(ch) => {
                        let rd = SimReader::new(
                            text.as_bytes(),
                            ReaderScript {
                                chunking: Some(ch.clone()),
                                ..Default::default()
                            },
                        );
                        lab::canon(guard(|| serde_saphyr::with_deserializer_from_reader_with_options(rd, opts, f)), &mut renders)
                    }
                }
            };
            let a = run_mode(None);
            for ch in [Chunking::Whole, Chunking::Fixed(1)] {
                let b = run_mode(Some(&ch));
                st.evals += 2;
                if a.agree_key() != b.agree_key() && !matches!(a, Outcome::Panic(_) | Outcome::Liveness(_)) {
                    out.push(mk(
                        "closure-helper-disagrees",
                        format!(
                            "closure that {}: with_deserializer_from_str gives {}, with_deserializer_from_reader ({ch:?}) gives {}",
                            if mode == 0 { "skips the document (IgnoredAny)" } else { "ignores the deserializer" },
                            a.short(),
                            b.short()
                        ),
                        Some(ch.clone()),
                    ));
                }
            }
        }
    }
    // BOM: the same text with one leading BOM added (or removed) gives the same result everywhere
    if let Some(text) = c.doc.as_str() {
        let other: String = match text.strip_prefix('\u{feff}') {
            Some(rest) => rest.to_string(),
            None => format!("\u{feff}{text}"),
        };
        // exactly one BOM is the byte-order mark; a second one is document content and not toggled
        if !other.starts_with('\u{feff}') || !text.starts_with('\u{feff}') {
            let r = crate::with_target!(c.target, run(Entry::FromStr, other.as_bytes(), &c.opts, &whole));
            st.evals += 1;
            st.bump("bom.toggle_compared");
            if r.outcome.agree_key() != rkey {
                out.push(mk(
                    "bom-not-ignored",
                    format!(
                        "from_str with the BOM toggled gives {} instead of {}",
                        r.outcome.short(),
                        reference.outcome.short()
                    ),
                    None,
                ));
            }
        }
    }
    // reader entry points under the schedules
    let scheds: Vec<Chunking> = match &c.scheds {
        Scheds::List(v) => v.clone(),
        Scheds::AllPartitions => {
            let n = bytes.len();
            if n == 0 || n > MAX_EXHAUSTIVE + 3 {
                vec![Chunking::Whole]
            } else {
                st.bump("exhaustive_partition_sets");
                let mut v = Vec::with_capacity(1 << (n - 1));
                for mask in 0u32..(1u32 << (n - 1)) {
                    let mut chunks = Vec::new();
                    let mut len = 1;
                    for i in 0..n - 1 {
                        if mask & (1 << i) != 0 {
                            chunks.push(len);
                            len = 1;
                        } else {
                            len += 1;
                        }
                    }
                    chunks.push(len);
                    v.push(Chunking::List(chunks));
                }
                v
            }
        }
    };
    // a read answered with ErrorKind::Interrupted is to be retried (std's Read contract): one such answer at
    // any read of a 1-byte-per-read delivery - also between the bytes of one character - changes nothing
    if !bytes.is_empty() {
        let n = bytes.len();
        let idxs: Vec<usize> = if n <= 48 { (0..n + 2).collect() } else { (0..16).map(|i| (i * 7919 + n) % (n + 1)).collect() };
        for k in idxs {
            let script = ReaderScript {
                chunking: Some(Chunking::Fixed(1)),
                faults: vec![ReadFault {
                    pos: FaultPos::AtRead(k),
                    kind: ErrKind::Interrupted,
                    after: After::ThenResume,
                }],
                ..Default::default()
            };
            let r = crate::with_target!(c.target, run(Entry::FromReader, bytes, &c.opts, &script));
            st.evals += 1;
            st.bump("fired.interrupted_then_resume");
            if r.outcome.agree_key() != rkey {
                out.push(mk(
                    "interrupted-read-changes-result",
                    format!(
                        "1-byte reads with read {k} answered by Interrupted (then resumed): from_reader gives {} but from_str gives {}",
                        r.outcome.short(),
                        reference.outcome.short()
                    ),
                    Some(Chunking::Fixed(1)),
                ));
                break;
            }
        }
    }
    // documents with anchors, aliases or merge keys under tight limits on exactly those counters: what is
    // charged (alias events, replayed nodes, merge keys) must not depend on the entry point
    if let Some(text) = c.doc.as_str()
        && c.opts.is_default()
        && (text.contains('*') || text.contains("<<"))
        && text.len() < 400
    {
        st.bump("tight_budget_peers");
        for (field, limit) in [(0u8, 0usize), (0, 1), (0, 2), (1, 0), (1, 1), (1, 2), (1, 3), (2, 0), (2, 1), (2, 2)] {
            let mut o = OptVec::default();
            let mut b = serde_saphyr::Budget::default();
            match field {
                0 => b.max_merge_keys = limit,
                1 => b.max_aliases = limit,
                _ => b.max_anchors = limit,
            }
            o.budget = Some(b);
            let a = crate::with_target!(c.target, run(Entry::FromStr, bytes, &o, &whole));
            if matches!(a.outcome, Outcome::Panic(_) | Outcome::Liveness(_)) {
                continue;
            }
            for e in [Entry::FromReader, Entry::WdReader, Entry::WdStr] {
                let r = crate::with_target!(c.target, run(e, bytes, &o, &whole));
                st.evals += 1;
                if r.outcome.agree_key() != a.outcome.agree_key() {
                    out.push(mk(
                        "tight-budget-disagrees",
                        format!(
                            "{} = {limit}: {e:?} gives {} but from_str gives {}",
                            ["max_merge_keys", "max_aliases", "max_anchors"][field as usize],
                            r.outcome.short(),
                            a.outcome.short()
                        ),
                        Some(Chunking::Whole),
                    ));
                    break;
                }
            }
        }
    }
    // the character span carried by an error's location (untyped target; string, slice, reader)
    if let Some(text) = c.doc.as_str() {
        let key = |e: &serde_saphyr::Error| -> String {
            let i = lab::err_info(e);
            match e.location() {
                Some(l) if !i.kind.starts_with("Validat") => format!("{}@{}", i.kind, loc(&l)),
                _ => i.kind,
            }
        };
        if let Ok(Err(e0)) = guard(|| serde_saphyr::from_str_with_options::<serde_json::Value>(text, c.opts.to_options())) {
            let want = key(&e0);
            st.bump("error_spans_compared");
            let mut others: Vec<(String, Option<Chunking>, Option<String>)> = Vec::new();
            if let Ok(r) = guard(|| serde_saphyr::from_slice_with_options::<serde_json::Value>(text.as_bytes(), c.opts.to_options())) {
                others.push(("from_slice".into(), None, r.err().map(|e| key(&e))));
            }
            for ch in scheds.iter().take(3) {
                let rd = SimReader::new(
                    text.as_bytes(),
                    ReaderScript {
                        chunking: Some(ch.clone()),
                        ..Default::default()
                    },
                );
                if let Ok(r) = guard(|| serde_saphyr::from_reader_with_options::<_, serde_json::Value>(rd, c.opts.to_options())) {
                    others.push((format!("from_reader under {}", describe(ch)), Some(ch.clone()), r.err().map(|e| key(&e))));
                }
            }
            st.evals += others.len() as u64;
            for (name, ch, got) in others {
                // (a different kind or position is the main comparison's business; here: same error, other span)
                if let Some(g) = got
                    && g != want
                    && g.split('+').next() == want.split('+').next()
                {
                    out.push(mk("error-span-disagrees", format!("{name} reports {g}, from_str reports {want}"), ch));
                    break;
                }
            }
        }
    }
    // node locations of Spanned targets (a few shapes; the first schedules of the case)
    if let Some(text) = c.doc.as_str() {
        let few: Vec<Chunking> = scheds.iter().take(12).cloned().collect();
        let mut found = Vec::new();
        found.extend(spanned_disagreements::<SpVal>(text, &c.opts, &few, st));
        found.extend(spanned_disagreements::<Vec<SpVal>>(text, &c.opts, &few, st));
        found.extend(spanned_disagreements::<std::collections::BTreeMap<String, SpVal>>(text, &c.opts, &few, st));
        found.extend(spanned_disagreements::<std::collections::BTreeMap<String, Spanned<Vec<SpVal>>>>(text, &c.opts, &few, st));
        for (detail, ch) in found {
            out.push(mk("spanned-locations-disagree", detail, ch));
        }
    }
    let boundaries = wl::boundary_offsets(bytes);
    for sch in &scheds {
        let script = ReaderScript {
            chunking: Some(sch.clone()),
            ..Default::default()
        };
        st.schedules.insert(script.digest());
        for e in lab::READER_ENTRIES {
            let r = crate::with_target!(c.target, run(e, bytes, &c.opts, &script));
            st.evals += 1;
            let rd = r.reader.as_ref().unwrap();
            let d = rd.trace_digest();
            st.behaviours.insert(d);
            {
                let rs = rd.st.borrow();
                if rs.short_reads > 0 {
                    st.nontrivial.insert(d);
                    st.add("fired.split", rs.short_reads);
                }
                st.add("steps.read_calls", rs.reads);
            }
            st.note(&format!("{d:x}"));
            if r.outcome.agree_key() != rkey {
                out.push(mk(
                    "reader-disagrees",
                    format!(
                        "{e:?} under {} gives {} but from_str gives {}",
                        describe(sch),
                        r.outcome.short(),
                        reference.outcome.short()
                    ),
                    Some(sch.clone()),
                ));
                if out.len() > 8 {
                    return out;
                }
            }
        }
        // which boundary classes did this schedule split at?
        if let Chunking::List(v) = sch {
            let mut off = 0;
            for len in v {
                off += len;
                for (o, class) in &boundaries {
                    if *o == off {
                        st.bump(&format!("fired.split_at.{class}"));
                    }
                }
            }
        } else if let Chunking::Fixed(1) = sch {
            for (_, class) in &boundaries {
                st.bump(&format!("fired.split_at.{class}"));
            }
        }
    }
    out
}

fn describe(c: &Chunking) -> String {
    match c {
        Chunking::Whole => "one read".into(),
        Chunking::Fixed(n) => format!("{n}-byte reads"),
        Chunking::List(v) if v.len() <= 12 => format!("reads {v:?}"),
        Chunking::List(v) => format!("{} scripted reads", v.len()),
    }
}

// ------------------------------------------------------------------------------------------------
// Borrow clause

#[derive(Clone, Copy, Debug, Serialize, Deserialize, PartialEq, Eq)]
pub enum BorrowExpect {
    /// every string scalar is single-line plain or escape-free quoted: must succeed and lend
    MustLend,
    /// a borrowed position holds an escape, '' , folding or a multi-line scalar: must fail with the cannot-borrow error
    MustRefuse,
    /// block scalars and the like: only the "if it succeeds it really lends and equals owned" direction
    Unasserted,
}

#[derive(Clone, Debug, Serialize, Deserialize)]
pub struct BorrowCase {
    pub doc: Doc,
    pub expect: BorrowExpect,
    /// reader schedule for the "reader never lends" clause
    pub chunking: Chunking,
}

#[derive(Debug, Deserialize)]
struct BDoc<'a> {
    #[serde(borrow)]
    a: &'a str,
    #[serde(borrow)]
    b: Vec<&'a str>,
}

/// serde buffers untagged (and flattened, internally tagged) types through `deserialize_any`: a `&str` inside
/// can only be filled if the deserializer lends the text there as well.
#[derive(Debug, Deserialize)]
#[serde(untagged)]
enum UB<'a> {
    S(&'a str),
    N(Vec<i64>),
}
#[derive(Debug, Deserialize)]
struct UDoc<'a> {
    #[serde(borrow)]
    a: UB<'a>,
}

/// Mapping keys lent as `&str` (keys travel through the same look-ahead buffer as values).
#[derive(Debug, Deserialize)]
struct KDoc<'a> {
    #[serde(borrow)]
    m: std::collections::BTreeMap<&'a str, &'a str>,
}

/// `Cow` may own, so it must succeed exactly when the owned target does, with the same text.
#[derive(Debug, Deserialize)]
struct CDoc<'a> {
    #[serde(borrow)]
    a: std::borrow::Cow<'a, str>,
    #[serde(borrow)]
    b: Vec<std::borrow::Cow<'a, str>>,
}

#[derive(Debug, Deserialize)]
struct ODoc {
    a: String,
    b: Vec<String>,
}

#[derive(Debug, Deserialize)]
struct MInner<'a> {
    #[serde(borrow)]
    a: &'a str,
    #[allow(dead_code)]
    x: i32,
}
#[derive(Debug, Deserialize)]
struct MDoc<'a> {
    #[serde(borrow)]
    obj: MInner<'a>,
}
#[derive(Debug, Deserialize)]
enum TagV<'a> {
    #[serde(borrow)]
    V(&'a str),
}
#[derive(Debug, Deserialize)]
struct FInner<'a> {
    #[serde(borrow)]
    a: &'a str,
}
#[derive(Debug, Deserialize)]
struct FDoc<'a> {
    #[serde(flatten, borrow)]
    inner: FInner<'a>,
}

#[derive(Debug, Deserialize)]
struct SpFInner<'a> {
    #[serde(borrow)]
    a: Spanned<&'a str>,
}
#[derive(Debug, Deserialize)]
struct SpFDoc<'a> {
    #[allow(dead_code)]
    x: i32,
    #[serde(flatten, borrow)]
    inner: SpFInner<'a>,
}

/// Fixed probes of the borrow clause: (text, what it is, must lend?). A verbatim scalar is lent wherever it
/// stands - behind a merge key (replayed from the anchor's buffer), as the payload of a tag-selected variant, as a
/// mapping key, through serde's own buffering for flattened and untagged types; a scalar whose text differs from
/// what stands in the input is refused, also when the two agree in their first characters.
fn borrow_probes(st: &mut Stats) -> Vec<(String, String)> {
    let mut out = Vec::new();
    let mut lend = |name: &str, text: &str, got: Result<Option<&str>, String>, st: &mut Stats| {
        st.evals += 1;
        st.bump("borrow_probe");
        match got {
            Ok(Some(x)) if within(text, x) => {}
            Ok(Some(x)) => out.push(("borrowed-not-from-input".to_string(), format!("{name} ({text:?}): {x:?} does not point into the input"))),
            Ok(None) => out.push(("borrow-refused-verbatim".to_string(), format!("{name} ({text:?}): not the shape expected"))),
            Err(e) => out.push(("borrow-refused-verbatim".to_string(), format!("{name} ({text:?}): the text stands in the input verbatim, the borrowed target fails with {e}"))),
        }
    };
    let kind = |e: serde_saphyr::Error| lab::err_info(&e).kind;
    {
        let t = String::from("base: &b\n  a: |-\n    hello\n  x: 2\nobj:\n  <<: *b\n  x: 1\n");
        if let Ok(r) = guard(|| serde_saphyr::from_str::<MDoc>(&t)) {
            lend("block scalar behind a merge key", &t, r.map(|d| Some(d.obj.a)).map_err(kind), st);
        }
        let t = String::from("base: &b {a: plain text, x: 2}\nobj:\n  <<: *b\n  x: 1\n");
        if let Ok(r) = guard(|| serde_saphyr::from_str::<MDoc>(&t)) {
            lend("plain scalar behind a merge key", &t, r.map(|d| Some(d.obj.a)).map_err(kind), st);
        }
        let t = String::from("!V |-\n  hello\n");
        if let Ok(r) = guard(|| serde_saphyr::from_str::<TagV>(&t)) {
            lend("block scalar as payload of a tag-selected variant", &t, r.map(|TagV::V(x)| Some(x)).map_err(kind), st);
        }
        let t = String::from("m:\n  ? |-\n    key\n  : v\n");
        if let Ok(r) = guard(|| serde_saphyr::from_str::<KDoc>(&t)) {
            lend("block scalar as mapping key", &t, r.map(|d| d.m.keys().next().copied()).map_err(kind), st);
        }
        for t in ["a: |-\n  hello\n", "a: hello there\n", "a: .inf\n", "a: -.inf\n", "a: .nan\n"] {
            let t = String::from(t);
            if let Ok(r) = guard(|| serde_saphyr::from_str::<FDoc>(&t)) {
                lend("verbatim scalar into a flattened &str field", &t, r.map(|d| Some(d.inner.a)).map_err(kind), st);
            }
        }
        // block scalars that begin with blank lines (their line breaks stand in front of the place the parser
        // names), made of blank lines only, or written at column 0 of the root
        for t in ["--- |\n\nabc\n", "--- |+\n\n\nabc\n\n"] {
            let t = String::from(t);
            if let Ok(r) = guard(|| serde_saphyr::from_str::<&str>(&t)) {
                lend("root block scalar with leading blank lines", &t, r.map(Some).map_err(kind), st);
            }
        }
        for t in ["a: |+\n\n\nj: 1\n", "a: |+\n\n\n", "a: !!str\nj: 1\n", "a: !!str \n"] {
            let t = String::from(t);
            if let Ok(r) = guard(|| serde_saphyr::from_str::<FInner>(&t)) {
                lend("block scalar of blank lines only / empty tagged string", &t, r.map(|d| Some(d.a)).map_err(kind), st);
            }
        }
        // `Spanned<&str>` behind serde's buffering
        {
            let t = String::from("x: 1\na: hello\n");
            if let Ok(r) = guard(|| serde_saphyr::from_str::<SpFDoc>(&t)) {
                lend("plain scalar into a flattened Spanned<&str> field", &t, r.map(|d| Some(d.inner.a.value)).map_err(kind), st);
            }
        }
        let t = String::from("a: |-\n  hello\n");
        if let Ok(r) = guard(|| serde_saphyr::from_str::<UDoc>(&t)) {
            lend(
                "block scalar into an untagged enum holding &str",
                &t,
                r.map(|d| if let UB::S(x) = d.a { Some(x) } else { None }).map_err(kind),
                st,
            );
        }
    }
    // quoted scalars whose unescaped text starts with their own quote character: the text differs from what
    // stands in the input (an escape, a doubled quote), a borrowed target is refused
    for t in ["\"\\\"\"", "''''", "\"\\\"\\\\\"", "''''''", "\"\\\"x\"", "'''x'"] {
        let t = String::from(t);
        let owned = guard(|| serde_saphyr::from_str::<String>(&t));
        let borrowed = guard(|| serde_saphyr::from_str::<&str>(&t));
        st.evals += 2;
        st.bump("borrow_probe");
        if let (Ok(Ok(o)), Ok(b)) = (owned, borrowed) {
            match b {
                Err(e) if lab::err_info(&e).kind == "CannotBorrowTransformedString" => {}
                Ok(x) => out.push((
                    "borrow-accepted-transformed".to_string(),
                    format!("{t:?} (owned text {o:?}) is written with an escape, yet &str gets {x:?}"),
                )),
                Err(e) => out.push((
                    "borrow-wrong-error".to_string(),
                    format!("{t:?}: the borrowed target fails with {} instead of the cannot-borrow error", lab::err_info(&e).kind),
                )),
            }
        }
    }
    out
}

fn within(hay: &str, needle: &str) -> bool {
    let h = hay.as_ptr() as usize;
    let n = needle.as_ptr() as usize;
    n >= h && n + needle.len() <= h + hay.len()
}

pub fn exec_borrow(c: &BorrowCase, st: &mut Stats) -> Vec<Viol> {
    let mut out = Vec::new();
    let mk = |clause: &str, detail: String| Viol {
        property: "C09".into(),
        clause: clause.into(),
        detail,
        case: Case::C09B(c.clone()),
    };
    let Some(text) = c.doc.as_str() else { return out };
    let owned = guard(|| serde_saphyr::from_str::<ODoc>(text));
    let borrowed = guard(|| serde_saphyr::from_str::<BDoc>(text));
    st.evals += 2;
    let (owned, borrowed) = match (owned, borrowed) {
        (Ok(o), Ok(b)) => (o, b),
        _ => {
            st.bump("skipped.reference_abnormal(C01)");
            return out;
        }
    };
    st.note(&format!("{:?}|{:?}", owned.as_ref().map_err(|e| lab::err_info(e)), borrowed.as_ref().map_err(|e| lab::err_info(e))));
    // borrowed mapping keys and values over verbatim plain scalars
    {
        // (one buffer with one address: a `const` may be instantiated more than once)
        let ktext_owned = String::from("m:\n  alpha: one\n  béta: 'two words'\n  \"third\": 3rd\n");
        #[allow(non_snake_case)]
        let KTEXT: &str = &ktext_owned;
        if let Ok(r) = guard(|| serde_saphyr::from_str::<KDoc>(KTEXT)) {
            st.evals += 1;
            match r {
                Ok(k) => {
                    if k.m.len() != 3 || !k.m.iter().all(|(a, b)| within(KTEXT, a) && within(KTEXT, b)) {
                        out.push(mk("borrowed-not-from-input", format!("borrowed map {:?} does not point into the input", k.m)));
                    }
                }
                Err(e) => out.push(mk(
                    "borrow-refused-verbatim",
                    format!("a map of verbatim &str keys and values fails with {}", lab::err_info(&e).kind),
                )),
            }
        }
    }
    // a verbatim scalar reached through serde's buffering (untagged enum): plain, single- and double-quoted
    for t in ["a: abc\n", "a: two words\n", "a: 'abc'\n", "a: \"abc\"\n", "a: héllo\n"] {
        let owned_text = String::from(t);
        if let Ok(r) = guard(|| serde_saphyr::from_str::<UDoc>(&owned_text)) {
            st.evals += 1;
            match r {
                Ok(UDoc { a: UB::S(x) }) if within(&owned_text, x) => {}
                other => out.push(mk(
                    "borrow-refused-verbatim",
                    format!("{t:?} into an untagged enum holding &str: {:?}", other.map_err(|e| lab::err_info(&e).kind)),
                )),
            }
        }
    }
    // verbatim scalars that reach the target through a look-ahead buffer or through serde's buffering, and
    // scalars that only look verbatim
    for (clause, detail) in borrow_probes(st) {
        out.push(mk(&clause, detail));
    }
    // Cow<str>: the same answer as String, whichever way the library chooses to hand the text over
    if let Ok(cow) = guard(|| serde_saphyr::from_str::<CDoc>(text)) {
        st.evals += 1;
        let same = match (&owned, &cow) {
            (Ok(o), Ok(c2)) => o.a == c2.a && o.b.len() == c2.b.len() && o.b.iter().zip(c2.b.iter()).all(|(x, y)| x == y),
            (Err(e1), Err(e2)) => {
                let (i1, i2) = (lab::err_info(e1), lab::err_info(e2));
                i1.kind == i2.kind && i1.line == i2.line && i1.col == i2.col
            }
            _ => false,
        };
        st.bump("borrow.cow_compared");
        if !same {
            out.push(mk(
                "cow-differs-from-owned",
                format!(
                    "String target gives {:?} but Cow<str> target gives {:?}",
                    owned.as_ref().map_err(|e| lab::err_info(e).kind),
                    cow.as_ref().map_err(|e| lab::err_info(e).kind)
                ),
            ));
        }
    }
    match (&owned, &borrowed) {
        (Ok(o), Ok(b)) => {
            st.bump("borrow.lent");
            let mut all = vec![(b.a, o.a.as_str())];
            if b.b.len() != o.b.len() {
                out.push(mk("borrowed-differs-from-owned", format!("borrowed {b:?} vs owned {o:?}")));
                return out;
            }
            for (x, y) in b.b.iter().zip(o.b.iter()) {
                all.push((x, y.as_str()));
            }
            for (bs, os) in all {
                if bs != os {
                    out.push(mk("borrowed-differs-from-owned", format!("borrowed {bs:?} vs owned {os:?}")));
                }
                if !within(text, bs) {
                    out.push(mk(
                        "borrowed-not-from-input",
                        format!("lent string {bs:?} does not point into the input buffer"),
                    ));
                }
            }
            if c.expect == BorrowExpect::MustRefuse {
                out.push(mk(
                    "borrow-accepted-transformed",
                    format!("a transformed scalar was lent: {b:?}"),
                ));
            }
        }
        (Ok(o), Err(e)) => {
            let info = lab::err_info(e);
            st.bump(&format!("borrow.refused.{}", info.kind));
            if c.expect == BorrowExpect::MustLend {
                out.push(mk(
                    "borrow-refused-verbatim",
                    format!("all scalars appear verbatim, owned gives {o:?}, borrowed fails with {}", info.kind),
                ));
            } else if info.kind != "CannotBorrowTransformedString" {
                out.push(mk(
                    "borrow-wrong-error",
                    format!("owned succeeds ({o:?}) but borrowed fails with {} instead of the cannot-borrow error", info.kind),
                ));
            }
        }
        (Err(_), Ok(b)) => out.push(mk("borrowed-differs-from-owned", format!("owned fails but borrowed gives {b:?}"))),
        (Err(_), Err(_)) => st.bump("borrow.both_fail"),
    }
    // reader input never lends
    if owned.is_ok() {
        let script = ReaderScript {
            chunking: Some(c.chunking.clone()),
            ..Default::default()
        };
        let rd = SimReader::new(&c.doc.0, script);
        let h = rd.clone();
        let r = guard(|| {
            serde_saphyr::with_deserializer_from_reader(rd, |de| {
                <BDoc as Deserialize>::deserialize(de).map(|d| format!("{d:?}"))
            })
        });
        st.evals += 1;
        st.behaviours.insert(h.trace_digest());
        if h.st.borrow().short_reads > 0 {
            st.nontrivial.insert(h.trace_digest());
        }
        match r {
            Ok(Ok(v)) => out.push(mk("reader-lent", format!("a reader-based deserializer lent {v}"))),
            Ok(Err(e)) => {
                let k = lab::err_info(&e).kind;
                st.bump(&format!("reader_borrow.refused.{k}"));
                if k != "CannotBorrowTransformedString" {
                    out.push(mk("reader-borrow-wrong-error", format!("reader &str request failed with {k}")));
                }
            }
            Err(_) => st.bump("skipped.reference_abnormal(C01)"),
        }
    }
    out
}

// ------------------------------------------------------------------------------------------------
// Generation

pub struct Plan {
    pub corpus: Vec<(String, Target)>,
}

impl Plan {
    pub fn new() -> Plan {
        Plan { corpus: wl::corpus() }
    }
}

pub fn total(tier: Tier) -> u64 {
    match tier {
        Tier::Quick => 30_000,
        Tier::Thorough => 600_000,
    }
}

fn schedules_for(bytes: &[u8], rng: &mut Rng, n_random: usize) -> Scheds {
    if !bytes.is_empty() && bytes.len() <= MAX_EXHAUSTIVE {
        return Scheds::AllPartitions;
    }
    let mut v = vec![Chunking::Fixed(1), Chunking::Whole, Chunking::Fixed(rng.range(2, 9))];
    for _ in 0..n_random {
        v.push(wl::gen_chunking(bytes, rng));
    }
    // boundary hunter: guarantee every interesting offset is used as a split at least once
    let b = wl::boundary_offsets(bytes);
    if !b.is_empty() {
        let mut even: Vec<usize> = b.iter().step_by(2).map(|x| x.0).collect();
        let mut odd: Vec<usize> = b.iter().skip(1).step_by(2).map(|x| x.0).collect();
        even.sort();
        even.dedup();
        odd.sort();
        odd.dedup();
        v.push(Chunking::List(wl::chunks_from_splits(&even, bytes.len())));
        if !odd.is_empty() {
            v.push(Chunking::List(wl::chunks_from_splits(&odd, bytes.len())));
        }
    }
    Scheds::List(v)
}

const SIMPLE_STR: &[&str] = &["plain", "two words", "héllo", "日本語 text", "a😀b", "x-y_z", "with:colon", "q#hash"];

fn gen_borrow(rng: &mut Rng) -> BorrowCase {
    // each scalar: (yaml text, class)   class 0 = verbatim, 1 = transformed, 2 = block (unasserted)
    fn scalar(rng: &mut Rng, in_flow: bool) -> (String, u8) {
        let w = *rng.pick(SIMPLE_STR);
        match rng.below(12) {
            // tagged scalars: `!!str` makes anything a string (verbatim text: lendable), `!!binary` is
            // decoded (transformed), a non-string tag is no string at all (owned and borrowed fail alike)
            9 => ((*rng.pick(&["!!str null", "!!str ~", "!!str plain", "!!str 12", "! word"])).to_string(), 0),
            10 => ("!!binary aGk=".to_string(), 1),
            11 => ((*rng.pick(&["!!int 5", "!!bool true", "!!null x", "!!float 1.5"])).to_string(), 2),
            0 | 1 | 2 => (w.replace(':', "").replace('#', ""), 0),
            3 => (format!("'{w}'"), 0),
            4 => (format!("\"{w}\""), 0),
            5 => (format!("\"{w}\\n\""), 1),
            6 => (format!("'{w}''s'"), 1),
            7 => (format!("\"a\\u00e9{w}\""), 1),
            _ => {
                if in_flow {
                    (format!("\"{w}\\t\""), 1)
                } else {
                    (format!("\"first\n  second {w}\""), 1)
                }
            }
        }
    }
    let mut worst = 0u8;
    let (a, ca) = if rng.chance(1, 8) {
        // a block scalar of one line is in the input verbatim (with its line break when it is kept): lendable.
        // Several lines are not (the indentation between them is not part of the value), nor is folded text.
        let (t, class) = *rng.pick(&[
            ("|\n  block text\n", 0u8),
            ("|-\n  block text\n", 0),
            (">-\n  block text\n", 0),
            (">\n  block text é\n", 0),
            ("|+\n  kept\n", 0),
            ("|-  # comment\n    deeper text\n", 0),
            ("|\n  two\n  lines\n", 1),
            ("|-\n  two\n\n  paragraphs\n", 1),
        ]);
        (t.to_string(), class)
    } else if rng.chance(1, 8) {
        // block scalars whose content is empty (after chomping): still strings, never null
        ((*rng.pick(&["|-\n", ">-\n", "|-\n\n", "|\n", ">\n", "|+\n", "|-\n  \n", ">-\n\n\n"])).to_string(), 2)
    } else if rng.chance(1, 10) {
        (">\n  folded text\n  more\n".to_string(), 1)
    } else {
        scalar(rng, false)
    };
    worst = worst.max(ca);
    let n = rng.below(4);
    let flow = rng.chance(1, 2);
    let mut items = Vec::new();
    // an anchored scalar lends through its aliases exactly as it lends itself
    let mut anchor: Option<&'static str> = None;
    for i in 0..n {
        if let Some(a) = anchor
            && rng.chance(1, 2)
        {
            items.push(format!("*{a}"));
            continue;
        }
        let (s, cl) = scalar(rng, flow);
        worst = worst.max(cl);
        if i + 1 < n && anchor.is_none() && rng.chance(1, 3) && !s.contains('\n') {
            anchor = Some("anc");
            items.push(format!("&anc {s}"));
        } else {
            items.push(s);
        }
    }
    let mut doc = String::new();
    if rng.chance(1, 8) {
        doc.push('\u{feff}');
    }
    if a.starts_with('|') || a.starts_with('>') {
        doc.push_str(&format!("a: {a}"));
    } else {
        doc.push_str(&format!("a: {a}\n"));
    }
    if flow || items.is_empty() {
        doc.push_str(&format!("b: [{}]\n", items.join(", ")));
    } else {
        doc.push_str("b:\n");
        for i in &items {
            doc.push_str(&format!("  - {i}\n"));
        }
    }
    // transformed beats block for the expectation: any class-1 scalar must be refused
    let has_transformed = {
        // recompute: worst==1 means at least one transformed and no block; with a block present the
        // outcome depends on unasserted behaviour unless a transformed scalar is also present
        worst == 1
    };
    let expect = match worst {
        0 => BorrowExpect::MustLend,
        1 if has_transformed => BorrowExpect::MustRefuse,
        _ => BorrowExpect::Unasserted,
    };
    let chunking = wl::gen_chunking(doc.as_bytes(), rng);
    BorrowCase {
        doc: Doc::from_str(&doc),
        expect,
        chunking,
    }
}

pub fn gen_case(plan: &Plan, tier: Tier, seed: u64, idx: u64) -> Case {
    let mut rng = Rng::for_case(seed, "C09", idx);
    let ncorp = plan.corpus.len() as u64;
    let _ = tier;
    if idx % 10 == 9 {
        return Case::C09B(gen_borrow(&mut rng));
    }
    // systematic: each corpus document, its own target and Json, with and without BOM
    if idx < ncorp * 4 * 10 / 9 + 10 {
        let slot = idx - idx / 10; // dense over non-borrow cases
        if slot < ncorp * 4 {
            let d = (slot % ncorp) as usize;
            let variant = slot / ncorp;
            let (text, t) = plan.corpus[d].clone();
            let text = if variant >= 2 && !text.starts_with('\u{feff}') { format!("\u{feff}{text}") } else { text };
            let target = if variant % 2 == 0 { t } else { Target::Json };
            let scheds = schedules_for(text.as_bytes(), &mut rng, 6);
            return Case::C09(AgreeCase {
                doc: Doc::from_str(&text),
                target,
                opts: OptVec::default(),
                scheds,
            });
        }
    }
    if rng.chance(1, 14) {
        // a document for the validated struct - valid, or failing validation, or of the wrong type - and
        // then nothing, a second document, or broken text behind a `---`
        let first = *rng.pick(&[
            "name: a\nn: 1\n",
            "name: ''\nn: 1\n",
            "name: ok\nn: 5000\n",
            "name: ''\nn: 5000\nzzz: toolong\n",
            "name: ok\nn: x\n",
            "{name: '', n: 2}\n",
        ]);
        let rest = *rng.pick(&["", "---\nname: b\nn: 2\n", "--- [\n", "--- 'x\n", "...\n", "...\n---\nname: c\nn: 3\n", "---\n", "# c\n"]);
        let bom = if rng.chance(1, 5) { "\u{feff}" } else { "" };
        let text = format!("{bom}{first}{rest}");
        let scheds = schedules_for(text.as_bytes(), &mut rng, 3);
        return Case::C09(AgreeCase {
            doc: Doc::from_str(&text),
            target: Target::Cfg,
            opts: if rng.chance(2, 3) { OptVec::default() } else { OptVec::random(&mut rng) },
            scheds,
        });
    }
    let target = *rng.pick(&ALL_TARGETS);
    let text = match rng.below(10) {
        0 | 1 | 2 | 3 => wl::gen_doc(target, &mut rng),
        4 | 5 => {
            let d = wl::gen_doc(target, &mut rng);
            wl::mutate_text(&d, &mut rng)
        }
        6 => {
            // short token soup: exhaustive partitions
            let mut s = wl::gen_soup(&mut rng, 4);
            while s.len() > MAX_EXHAUSTIVE {
                s.pop();
            }
            s
        }
        7 => wl::gen_soup(&mut rng, 12),
        8 => {
            // large document: crosses the 8 KiB BufReader and the 3 KiB ring
            let mut s = String::new();
            let n = rng.range(200, 1500);
            for i in 0..n {
                s.push_str(&format!("k{i}: {}\n", wl::WORDS[i % wl::WORDS.len()]));
            }
            if rng.chance(1, 2) {
                let cut = rng.below(s.len());
                let mut cut = cut;
                while !s.is_char_boundary(cut) {
                    cut -= 1;
                }
                s.insert_str(cut, *rng.pick(&[": x\n", "\t", "[", "\"", "*z "]));
            }
            s
        }
        _ => {
            let (t, _) = plan.corpus[rng.below(plan.corpus.len())].clone();
            wl::mutate_text(&t, &mut rng)
        }
    };
    let target = if text.len() > 4000 { Target::Json } else { target };
    let mut opts = if rng.chance(1, 2) { OptVec::default() } else { OptVec::random(&mut rng) };
    if rng.chance(1, 4) {
        opts.tighten(&mut rng);
    }
    let n_random = if text.len() > 4000 { 2 } else { 4 };
    let scheds = schedules_for(text.as_bytes(), &mut rng, n_random);
    Case::C09(AgreeCase {
        doc: Doc::from_str(&text),
        target,
        opts,
        scheds,
    })
}

pub fn shrink_agree(c: &AgreeCase) -> Vec<Case> {
    let mut out = Vec::new();
    if !c.opts.is_default() {
        let mut n = c.clone();
        n.opts = OptVec::default();
        out.push(Case::C09(n));
    }
    if c.target != Target::Json {
        let mut n = c.clone();
        n.target = Target::Json;
        out.push(Case::C09(n));
    }
    if let Scheds::List(v) = &c.scheds {
        if v.len() > 1 {
            for x in v {
                let mut n = c.clone();
                n.scheds = Scheds::List(vec![x.clone()]);
                out.push(Case::C09(n));
            }
        }
        if v.len() == 1 && v[0] != Chunking::Whole {
            let mut n = c.clone();
            n.scheds = Scheds::List(vec![Chunking::Whole]);
            out.push(Case::C09(n));
            if v[0] != Chunking::Fixed(1) {
                let mut n = c.clone();
                n.scheds = Scheds::List(vec![Chunking::Fixed(1)]);
                out.push(Case::C09(n));
            }
            if let Chunking::List(l) = &v[0] {
                // merge adjacent chunks
                for i in 0..l.len().saturating_sub(1).min(40) {
                    let mut m = l.clone();
                    m[i] += m[i + 1];
                    m.remove(i + 1);
                    let mut n = c.clone();
                    n.scheds = Scheds::List(vec![Chunking::List(m)]);
                    out.push(Case::C09(n));
                }
            }
        }
    }
    for d in crate::prop::c10::shrink_doc_candidates(&c.doc.0) {
        if std::str::from_utf8(&d).is_err() {
            continue;
        }
        let mut n = c.clone();
        // an explicit chunk list no longer fits a shorter document: fall back to 1-byte reads and one read
        if let Scheds::List(v) = &c.scheds
            && v.len() == 1
            && matches!(v[0], Chunking::List(_))
        {
            n.scheds = Scheds::List(vec![Chunking::Fixed(1), Chunking::Whole, Chunking::Fixed(2), Chunking::Fixed(3)]);
        }
        n.doc = Doc(d);
        out.push(Case::C09(n));
    }
    out
}

pub fn shrink_borrow(c: &BorrowCase) -> Vec<Case> {
    let mut out = Vec::new();
    if c.chunking != Chunking::Whole {
        let mut n = c.clone();
        n.chunking = Chunking::Whole;
        out.push(Case::C09B(n));
    }
    out
}
