//! C07 — budget limits: threshold exactness, report accuracy, per-document independence on streams.

use crate::case::{Case, Stats, Tier, Viol};
use crate::io::*;
use crate::lab::{self, Outcome, guard};
use crate::model::{self, Counts};
use crate::rng::Rng;
use crate::wl;
use serde::{Deserialize, Serialize};
use serde_saphyr::budget::{BudgetReport, EnforcingPolicy, check_yaml_budget};
use serde_saphyr::{Budget, Error, Options};
use std::cell::RefCell;
use std::rc::Rc;

#[derive(Clone, Copy, Debug, Serialize, Deserialize, PartialEq, Eq)]
pub enum Counter {
    Events,
    Nodes,
    Depth,
    Aliases,
    Anchors,
    ScalarBytes,
    MergeKeys,
    Documents,
}

pub const COUNTERS: [Counter; 8] = [
    Counter::Events,
    Counter::Nodes,
    Counter::Depth,
    Counter::Aliases,
    Counter::Anchors,
    Counter::ScalarBytes,
    Counter::MergeKeys,
    Counter::Documents,
];

impl Counter {
    fn get(self, c: &Counts) -> usize {
        match self {
            Counter::Events => c.events,
            Counter::Nodes => c.nodes,
            Counter::Depth => c.max_depth,
            Counter::Aliases => c.aliases,
            Counter::Anchors => c.anchors,
            Counter::ScalarBytes => c.scalar_bytes,
            Counter::MergeKeys => c.merge_keys,
            Counter::Documents => c.documents,
        }
    }
    fn breach_name(self) -> &'static str {
        match self {
            Counter::Events => "Events",
            Counter::Nodes => "Nodes",
            Counter::Depth => "Depth",
            Counter::Aliases => "Aliases",
            Counter::Anchors => "Anchors",
            Counter::ScalarBytes => "ScalarBytes",
            Counter::MergeKeys => "MergeKeys",
            Counter::Documents => "Documents",
        }
    }
}

#[allow(deprecated)]
pub fn unlimited() -> Budget {
    let mut b = Budget::default();
    b.max_reader_input_bytes = None;
    b.max_events = usize::MAX;
    b.max_aliases = usize::MAX;
    b.max_anchors = usize::MAX;
    b.max_depth = usize::MAX;
    b.max_documents = usize::MAX;
    b.max_nodes = usize::MAX;
    b.max_total_scalar_bytes = usize::MAX;
    b.max_merge_keys = usize::MAX;
    b.enforce_alias_anchor_ratio = false;
    b
}

#[allow(deprecated)]
pub fn with_limit(c: Counter, limit: usize) -> Budget {
    let mut b = unlimited();
    match c {
        Counter::Events => b.max_events = limit,
        Counter::Nodes => b.max_nodes = limit,
        Counter::Depth => b.max_depth = limit,
        Counter::Aliases => b.max_aliases = limit,
        Counter::Anchors => b.max_anchors = limit,
        Counter::ScalarBytes => b.max_total_scalar_bytes = limit,
        Counter::MergeKeys => b.max_merge_keys = limit,
        Counter::Documents => b.max_documents = limit,
    }
    b
}

#[allow(deprecated)]
fn options_with(b: Budget) -> Options {
    let mut o = Options::default();
    o.budget = Some(b);
    // alias replay limits are not what is under test
    o.alias_limits.max_total_replayed_events = usize::MAX;
    o.alias_limits.max_replay_stack_depth = usize::MAX;
    o
}

fn report_counts(r: &BudgetReport) -> Counts {
    Counts {
        events: r.events,
        nodes: r.nodes,
        max_depth: r.max_depth,
        aliases: r.aliases,
        anchors: r.anchors,
        scalar_bytes: r.total_scalar_bytes,
        merge_keys: r.merge_keys,
        documents: r.documents,
    }
}

/// breach variant name of a budget error, or the error kind
fn breach_of(e: &Error) -> String {
    match e.without_snippet() {
        Error::Budget { breach, .. } => {
            let d = format!("{breach:?}");
            d.chars().take_while(|c| c.is_ascii_alphanumeric()).collect()
        }
        other => format!("not-a-budget-error:{}", lab::variant_name(other)),
    }
}

#[derive(Clone, Debug, Serialize, Deserialize)]
pub struct BudgetCase {
    /// documents of the stream (joined with `---`)
    pub docs: Vec<String>,
    /// index of the document whose thresholds are used for the per-document facet
    pub under_test: usize,
    pub chunking: Chunking,
    /// counters to exercise (all by default)
    pub counters: Vec<Counter>,
    /// how the documents are separated: 0 `---`, 1 `...` only (every later document starts implicitly),
    /// 2 `...` and `---`, 3 a leading `---` as well
    #[serde(default)]
    pub sep: u8,
}

pub fn stream_text(docs: &[String]) -> String {
    stream_text_sep(docs, 0)
}

pub fn stream_text_sep(docs: &[String], sep: u8) -> String {
    let mut s = String::new();
    for (i, d) in docs.iter().enumerate() {
        if i > 0 {
            match sep {
                1 => s.push_str("...\n"),
                2 | 3 => s.push_str("...\n---\n"),
                _ => s.push_str("---\n"),
            }
        } else if sep == 3 {
            s.push_str("---\n");
        }
        s.push_str(d);
        if !d.ends_with('\n') {
            s.push('\n');
        }
    }
    s
}

/// every event must be consumed and complex mapping keys accepted: the simulator's own untyped tree
type Json = crate::types::Tree;

struct Run {
    result: Result<(), String>, // Ok or breach / error name
    reports: Vec<BudgetReport>,
}

fn run_str(text: &str, b: Budget, multi: bool) -> Option<Run> {
    run_str_t::<Json>(text, b, multi)
}

fn run_str_t<T: serde::de::DeserializeOwned>(text: &str, b: Budget, multi: bool) -> Option<Run> {
    let reports: Rc<RefCell<Vec<BudgetReport>>> = Rc::new(RefCell::new(Vec::new()));
    let r2 = reports.clone();
    let opts = options_with(b).with_budget_report(move |r| r2.borrow_mut().push(r));
    let res = if multi {
        guard(|| serde_saphyr::from_multiple_with_options::<T>(text, opts).map(|_| ()))
    } else {
        guard(|| serde_saphyr::from_str_with_options::<T>(text, opts).map(|_| ()))
    };
    let res = res.ok()?;
    Some(Run {
        result: res.map_err(|e| breach_of(&e)),
        reports: reports.borrow().clone(),
    })
}

fn run_reader(text: &str, b: Budget, chunking: &Chunking) -> Option<(Run, SimReader)> {
    run_reader_t::<Json>(text, b, chunking)
}

fn run_reader_t<T: serde::de::DeserializeOwned>(text: &str, b: Budget, chunking: &Chunking) -> Option<(Run, SimReader)> {
    let reports: Rc<RefCell<Vec<BudgetReport>>> = Rc::new(RefCell::new(Vec::new()));
    let r2 = reports.clone();
    let opts = options_with(b).with_budget_report(move |r| r2.borrow_mut().push(r));
    let rd = SimReader::new(
        text.as_bytes(),
        ReaderScript {
            chunking: Some(chunking.clone()),
            ..Default::default()
        },
    );
    let h = rd.clone();
    let res = guard(|| serde_saphyr::from_reader_with_options::<_, T>(rd, opts).map(|_| ())).ok()?;
    Some((
        Run {
            result: res.map_err(|e| breach_of(&e)),
            reports: reports.borrow().clone(),
        },
        h,
    ))
}

/// the remaining single-document entry points: 0 from_slice, 1 with_deserializer_from_str,
/// 2 with_deserializer_from_slice, 3 with_deserializer_from_reader, 4 from_slice_multiple,
/// 5 from_str_valid (garde), 6 from_str_validate (validator), 7 from_reader_valid, 8 from_reader_validate
const OTHER_ENTRIES: [&str; 9] = [
    "from_slice",
    "with_deserializer_from_str",
    "with_deserializer_from_slice",
    "with_deserializer_from_reader",
    "from_slice_multiple",
    "from_str_valid",
    "from_str_validate",
    "from_reader_valid",
    "from_reader_validate",
];

fn run_other(which: usize, text: &str, b: Budget, chunking: &Chunking) -> Option<Run> {
    let reports: Rc<RefCell<Vec<BudgetReport>>> = Rc::new(RefCell::new(Vec::new()));
    let r2 = reports.clone();
    let opts = options_with(b).with_budget_report(move |r| r2.borrow_mut().push(r));
    let de = |d: serde_saphyr::Deserializer| <Json as serde::Deserialize>::deserialize(d).map(|_| ());
    let mk_reader = || {
        SimReader::new(
            text.as_bytes(),
            ReaderScript {
                chunking: Some(chunking.clone()),
                ..Default::default()
            },
        )
    };
    let res = match which {
        0 => guard(|| serde_saphyr::from_slice_with_options::<Json>(text.as_bytes(), opts).map(|_| ())),
        1 => guard(|| serde_saphyr::with_deserializer_from_str_with_options(text, opts, de)),
        2 => guard(|| serde_saphyr::with_deserializer_from_slice_with_options(text.as_bytes(), opts, de)),
        3 => {
            let rd = mk_reader();
            guard(|| serde_saphyr::with_deserializer_from_reader_with_options(rd, opts, de))
        }
        4 => guard(|| serde_saphyr::from_slice_multiple_with_options::<Json>(text.as_bytes(), opts).map(|_| ())),
        5 => guard(|| serde_saphyr::from_str_with_options_valid::<Json>(text, opts).map(|_| ())),
        6 => guard(|| serde_saphyr::from_str_with_options_validate::<Json>(text, opts).map(|_| ())),
        7 => {
            let rd = mk_reader();
            guard(|| serde_saphyr::from_reader_with_options_valid::<_, Json>(rd, opts).map(|_| ()))
        }
        _ => {
            let rd = mk_reader();
            guard(|| serde_saphyr::from_reader_with_options_validate::<_, Json>(rd, opts).map(|_| ()))
        }
    };
    let res = res.ok()?;
    Some(Run {
        result: res.map_err(|e| breach_of(&e)),
        reports: reports.borrow().clone(),
    })
}

/// items of the garde (0) / validator (1) streaming iterators
fn run_iter_validating(which: usize, text: &str, b: Budget, chunking: &Chunking, max_calls: usize) -> Option<(Vec<Result<(), String>>, bool)> {
    let mut rd = SimReader::new(
        text.as_bytes(),
        ReaderScript {
            chunking: Some(chunking.clone()),
            ..Default::default()
        },
    );
    let opts = options_with(b);
    let mut items = Vec::new();
    let mut terminated = false;
    guard(|| {
        let mut it: Box<dyn Iterator<Item = Result<Json, Error>>> = if which == 0 {
            Box::new(serde_saphyr::read_with_options_valid::<_, Json>(&mut rd, opts))
        } else {
            Box::new(serde_saphyr::read_with_options_validate::<_, Json>(&mut rd, opts))
        };
        for _ in 0..max_calls {
            match it.next() {
                Some(r) => items.push(r.map(|_| ()).map_err(|e| breach_of(&e))),
                None => {
                    terminated = true;
                    break;
                }
            }
        }
    })
    .ok()?;
    Some((items, terminated))
}

/// items of the streaming iterator as Ok / breach name / error kind
fn run_iter(text: &str, b: Budget, chunking: &Chunking, max_calls: usize) -> Option<(Vec<Result<(), String>>, bool, SimReader)> {
    run_iter_t::<Json>(text, b, chunking, max_calls).map(|(i, t, h, _)| (i, t, h))
}

/// the same with the reports handed to the callback (one at the end of the stream)
fn run_iter_t<T: serde::de::DeserializeOwned>(
    text: &str,
    b: Budget,
    chunking: &Chunking,
    max_calls: usize,
) -> Option<(Vec<Result<(), String>>, bool, SimReader, Vec<BudgetReport>)> {
    let reports: Rc<RefCell<Vec<BudgetReport>>> = Rc::new(RefCell::new(Vec::new()));
    let r2 = reports.clone();
    let mut rd = SimReader::new(
        text.as_bytes(),
        ReaderScript {
            chunking: Some(chunking.clone()),
            ..Default::default()
        },
    );
    let h = rd.clone();
    let opts = options_with(b).with_budget_report(move |r| r2.borrow_mut().push(r));
    let mut items = Vec::new();
    let mut terminated = false;
    guard(|| {
        let mut it = serde_saphyr::read_with_options::<_, T>(&mut rd, opts);
        for _ in 0..max_calls {
            match it.next() {
                Some(r) => items.push(r.map(|_| ()).map_err(|e| breach_of(&e))),
                None => {
                    terminated = true;
                    break;
                }
            }
        }
    })
    .ok()?;
    let reps = reports.borrow().clone();
    Some((items, terminated, h, reps))
}

// Recursive structures: an alias to the anchor that is still being deserialized is answered without
// replaying anything. The counters of a mapping must not depend on whether its merge key stands before or
// after such an alias.
#[derive(serde::Deserialize, Debug)]
#[allow(dead_code)]
struct RFoo {
    k1: String,
    k2: String,
    k3: serde_saphyr::RcRecursion<RFoo>,
}
#[derive(serde::Deserialize, Debug)]
#[allow(dead_code)]
struct ROuter {
    foo: serde_saphyr::RcRecursive<RFoo>,
}

fn run_recursive(text: &str, b: Budget) -> Option<Run> {
    let reports: Rc<RefCell<Vec<BudgetReport>>> = Rc::new(RefCell::new(Vec::new()));
    let r2 = reports.clone();
    let opts = options_with(b).with_budget_report(move |r| r2.borrow_mut().push(r));
    let res = guard(|| serde_saphyr::from_str_with_options::<ROuter>(text, opts).map(|_| ())).ok()?;
    Some(Run {
        result: res.map_err(|e| breach_of(&e)),
        reports: reports.borrow().clone(),
    })
}

fn recursive_alias_probe(st: &mut Stats) -> Vec<(String, String)> {
    let mut out = Vec::new();
    let variants = [
        ("merge key first", "foo: &a\n  <<: {k1: One, k2: Two}\n  k3: *a\n"),
        ("merge key after the recursive alias", "foo: &a\n  k3: *a\n  <<: {k1: One, k2: Two}\n"),
        ("merge key between", "foo: &a\n  k1: One\n  k3: *a\n  <<: {k2: Two}\n"),
    ];
    for (name, text) in variants {
        let Some(r) = run_recursive(text, unlimited()) else { continue };
        st.evals += 1;
        st.bump("recursive_alias_probe");
        if r.result.is_ok() {
            // nothing is replayed for an alias of the anchor under construction: the report is the count of the
            // parser's own events
            if let (Some(rep), Ok(m)) = (r.reports.first(), model::count(text, false)) {
                let got = report_counts(rep);
                if (got.events, got.nodes, got.aliases, got.scalar_bytes) != (m.total.events, m.total.nodes, m.total.aliases, m.total.scalar_bytes) {
                    out.push((
                        "report-differs-from-model".to_string(),
                        format!("{name} ({text:?}): report {got:?}, the parser's events count {:?}", m.total),
                    ));
                }
                for (cn, n) in [(Counter::Nodes, m.total.nodes), (Counter::Events, m.total.events)] {
                    if let Some(r) = run_recursive(text, with_limit(cn, n)) {
                        st.evals += 1;
                        if r.result.is_err() {
                            out.push((
                                "false-rejection".to_string(),
                                format!("{name} ({text:?}): {cn:?} usage is {n}, limit {n} rejected with {:?}", r.result),
                            ));
                        }
                    }
                }
            }
            match r.reports.first() {
                Some(rep) if rep.merge_keys == 1 => {}
                Some(rep) => out.push((
                    "report-differs-from-model".to_string(),
                    format!("{name} ({text:?}): one plain `<<` in key position, report says merge_keys = {}", rep.merge_keys),
                )),
                None => out.push(("report-callback-count".to_string(), format!("{name}: no report"))),
            }
        }
        for (limit, must_pass) in [(1usize, true), (0, false)] {
            let Some(r) = run_recursive(text, with_limit(Counter::MergeKeys, limit)) else { continue };
            st.evals += 1;
            match (&r.result, must_pass) {
                (Ok(()), true) => {}
                (Err(b), false) if b == "MergeKeys" => {}
                (res, _) => out.push((
                    if must_pass { "false-rejection" } else { "limit-not-enforced" }.to_string(),
                    format!("{name} ({text:?}): max_merge_keys {limit} gives {res:?}"),
                )),
            }
        }
    }
    out
}

pub fn exec(c: &BudgetCase, st: &mut Stats) -> Vec<Viol> {
    let mut out = Vec::new();
    let mk = |clause: &str, detail: String, counters: Vec<Counter>| Viol {
        property: "C07".into(),
        clause: clause.into(),
        detail,
        case: Case::C07(BudgetCase {
            counters,
            ..c.clone()
        }),
    };
    if c.docs.is_empty() || c.under_test >= c.docs.len() {
        return out;
    }
    // fixed probe, run with the smallest case of the enumeration
    if c.docs.len() == 1 && c.docs[0] == "a: 1\n" {
        for (clause, detail) in recursive_alias_probe(st) {
            out.push(mk(&clause, detail, vec![Counter::MergeKeys]));
        }
    }
    let d = &c.docs[c.under_test];
    let dtext = stream_text(std::slice::from_ref(d));
    // ---------------- single document: exactness + report (AllContent) ----------------
    let (m_full, m_raw) = match (model::count(&dtext, true), model::count(&dtext, false)) {
        (Ok(a), Ok(b)) => (a, b),
        _ => {
            st.bump("skipped.model_rejects_document");
            return out;
        }
    };
    if m_full.per_doc.len() != 1 {
        st.bump("skipped.not_one_document");
        return out;
    }
    // does the document deserialize at all (without limits)?
    let base = match run_str(&dtext, unlimited(), false) {
        Some(r) => r,
        None => {
            st.bump("skipped.abnormal(C01)");
            return out;
        }
    };
    st.evals += 1;
    let doc_ok = base.result.is_ok();
    st.bump(if doc_ok { "document.ok" } else { "document.fails_unlimited" });
    st.note(&format!("{:?}{:?}", base.result, m_full.total));
    if doc_ok {
        // report accuracy
        if base.reports.len() != 1 {
            out.push(mk(
                "report-callback-count",
                format!("from_str returned Ok and invoked the report callback {} times", base.reports.len()),
                vec![],
            ));
        } else if !m_full.ambiguous {
            let got = report_counts(&base.reports[0]);
            if got != m_full.total {
                out.push(mk(
                    "report-differs-from-model",
                    format!("from_str report {:?} vs independent count {:?}", got, m_full.total),
                    vec![],
                ));
            }
            if base.reports[0].breached.is_some() {
                out.push(mk("report-breached-on-ok", format!("{:?}", base.reports[0].breached), vec![]));
            }
        }
        // check_yaml_budget: raw events only
        for policy in [EnforcingPolicy::AllContent, EnforcingPolicy::PerDocument] {
            let all = policy == EnforcingPolicy::AllContent;
            if let Ok(Ok(rep)) = guard(|| check_yaml_budget(&dtext, unlimited(), policy)) {
                st.evals += 1;
                let mut got = report_counts(&rep);
                let mut want = m_raw.total.clone();
                if !all {
                    // per-document policy: what the report holds at the end of the stream is not fixed by the statement
                    got.documents = 0;
                    want.documents = 0;
                    got.events = 0;
                    want.events = 0;
                }
                if got != want && !m_raw.ambiguous {
                    out.push(mk(
                        "check-yaml-budget-report",
                        format!("check_yaml_budget({}) report {:?} vs independent raw count {:?}", if all { "AllContent" } else { "PerDocument" }, got, want),
                        vec![],
                    ));
                }
            }
        }
        // reader path: same report
        if let Some((r, h)) = run_reader(&dtext, unlimited(), &c.chunking) {
            st.evals += 1;
            st.behaviours.insert(h.trace_digest());
            if r.result.is_ok() && r.reports.len() == 1 && !m_full.ambiguous {
                let got = report_counts(&r.reports[0]);
                if got != m_full.total {
                    out.push(mk(
                        "report-differs-from-model",
                        format!("from_reader report {:?} vs independent count {:?}", got, m_full.total),
                        vec![],
                    ));
                }
            } else if r.result.is_ok() && r.reports.len() != 1 {
                out.push(mk("report-callback-count", format!("from_reader: {} callback invocations", r.reports.len()), vec![]));
            }
        }
        // thresholds
        if !m_full.ambiguous {
            for &cn in &c.counters {
                let n = cn.get(&m_full.total);
                for (limit, must_pass) in [(n, true), (n.wrapping_sub(1), false)] {
                    if !must_pass && n == 0 {
                        continue;
                    }
                    let mut runs: Vec<(String, Option<Run>)> = vec![
                        ("from_str".into(), run_str(&dtext, with_limit(cn, limit), false)),
                        ("from_multiple".into(), run_str(&dtext, with_limit(cn, limit), true)),
                        ("from_reader".into(), run_reader(&dtext, with_limit(cn, limit), &c.chunking).map(|x| x.0)),
                    ];
                    for (w, name) in OTHER_ENTRIES.iter().enumerate() {
                        runs.push((name.to_string(), run_other(w, &dtext, with_limit(cn, limit), &c.chunking)));
                    }
                    // a target that reads nothing has its document read on its behalf: same verdict, same report
                    runs.push(("from_multiple into a no-op target".into(), run_str_t::<crate::types::Noop>(&dtext, with_limit(cn, limit), true)));
                    // a best-effort target keeps what it could read and goes on: same verdict, same report
                    type Be = crate::types::BestEffortTree;
                    runs.push(("from_str into a best-effort target".into(), run_str_t::<Be>(&dtext, with_limit(cn, limit), false)));
                    runs.push(("from_multiple into a best-effort target".into(), run_str_t::<Be>(&dtext, with_limit(cn, limit), true)));
                    runs.push((
                        "from_reader into a best-effort target".into(),
                        run_reader_t::<Be>(&dtext, with_limit(cn, limit), &c.chunking).map(|x| x.0),
                    ));
                    // the same document closed by `...` and followed by text the scanner rejects: that text is
                    // ignored by the single-document entry points, the budget is not (the stream then has no
                    // StreamEnd event, so the events counter is left out)
                    if cn != Counter::Events && !dtext.contains("...") {
                        let g = format!("{dtext}...\n]\n");
                        runs.push(("from_str + garbage after `...`".into(), run_str(&g, with_limit(cn, limit), false)));
                        runs.push(("from_reader + garbage after `...`".into(), run_reader(&g, with_limit(cn, limit), &c.chunking).map(|x| x.0)));
                        for w in [0usize, 1, 2, 3, 5, 6, 7, 8] {
                            runs.push((
                                format!("{} + garbage after `...`", OTHER_ENTRIES[w]),
                                run_other(w, &g, with_limit(cn, limit), &c.chunking),
                            ));
                        }
                    }
                    for (name, r) in runs {
                        let Some(r) = r else { continue };
                        // a successful call hands over exactly one report, and it equals the model
                        if r.result.is_ok() {
                            if r.reports.len() != 1 {
                                out.push(mk(
                                    "report-callback-count",
                                    format!("{name}: returned Ok and invoked the report callback {} times", r.reports.len()),
                                    vec![cn],
                                ));
                            } else {
                                let mut got = report_counts(&r.reports[0]);
                                let mut want = m_full.total.clone();
                                if name.contains("garbage") {
                                    got.events = 0;
                                    want.events = 0;
                                }
                                if got != want {
                                    out.push(mk(
                                        "report-differs-from-model",
                                        format!("{name}: report {got:?} vs independent count {want:?}"),
                                        vec![cn],
                                    ));
                                }
                            }
                        }
                        st.evals += 1;
                        st.bump(if must_pass { "threshold.at_usage" } else { "fired.limit_one_below_usage" });
                        st.note(&format!("{:?}", r.result));
                        match (&r.result, must_pass) {
                            (Ok(()), true) => {}
                            (Err(b), false) if b == cn.breach_name() => {}
                            (Ok(()), false) => out.push(mk(
                                "limit-not-enforced",
                                format!("{name}: {cn:?} usage is {n}, limit {limit} was accepted"),
                                vec![cn],
                            )),
                            (Err(b), true) => out.push(mk(
                                "false-rejection",
                                format!("{name}: {cn:?} usage is {n}, limit {limit} rejected with {b}"),
                                vec![cn],
                            )),
                            (Err(b), false) => out.push(mk(
                                "wrong-breach",
                                format!("{name}: {cn:?} usage is {n}, limit {limit} rejected with {b} instead of {}", cn.breach_name()),
                                vec![cn],
                            )),
                        }
                    }
                    // check_yaml_budget with the raw counts
                    let nr = cn.get(&m_raw.total);
                    let lim = if must_pass { nr } else { nr.wrapping_sub(1) };
                    if (must_pass || nr > 0) && !m_raw.ambiguous {
                        if let Ok(Ok(rep)) = guard(|| check_yaml_budget(&dtext, with_limit(cn, lim), EnforcingPolicy::AllContent)) {
                            st.evals += 1;
                            let b = rep.breached.as_ref().map(|b| {
                                let d = format!("{b:?}");
                                d.chars().take_while(|c| c.is_ascii_alphanumeric()).collect::<String>()
                            });
                            let ok = match (&b, must_pass) {
                                (None, true) => true,
                                (Some(x), false) => x == cn.breach_name(),
                                _ => false,
                            };
                            if !ok {
                                out.push(mk(
                                    "check-yaml-budget-threshold",
                                    format!("check_yaml_budget: raw {cn:?} usage {nr}, limit {lim}: breached = {b:?}"),
                                    vec![cn],
                                ));
                            }
                        }
                    }
                }
                if out.len() > 6 {
                    return out;
                }
            }
            // alias/anchor ratio heuristic
            let a = m_full.total.aliases;
            let an = m_full.total.anchors;
            if a == 0 {
                // no alias at all: `aliases > multiplier * anchors` cannot hold, whatever the thresholds
                for (min_aliases, mult) in [(0usize, 0usize), (0, 1), (0, 10)] {
                    #[allow(deprecated)]
                    let b = {
                        let mut b = unlimited();
                        b.enforce_alias_anchor_ratio = true;
                        b.alias_anchor_min_aliases = min_aliases;
                        b.alias_anchor_ratio_multiplier = mult;
                        b
                    };
                    if let Some(r) = run_str(&dtext, b, false) {
                        st.evals += 1;
                        st.bump("ratio_heuristic_runs");
                        if r.result.is_err() {
                            out.push(mk(
                                "ratio-heuristic",
                                format!("no aliases, {an} anchors, min_aliases {min_aliases}, multiplier {mult}: rejected with {:?}", r.result),
                                vec![],
                            ));
                        }
                    }
                }
            }
            if a > 0 {
                let floor = if an > 0 { a / an } else { 1 };
                let ceil = if an > 0 { a.div_ceil(an) } else { 1 };
                for (min_aliases, mult, expect_breach) in [
                    (a, floor, an == 0 || a > floor * an),
                    (a, ceil, an == 0),
                    (a + 1, 0, false),
                ] {
                    #[allow(deprecated)]
                    let b = {
                        let mut b = unlimited();
                        b.enforce_alias_anchor_ratio = true;
                        b.alias_anchor_min_aliases = min_aliases;
                        b.alias_anchor_ratio_multiplier = mult;
                        b
                    };
                    if let Some(r) = run_str(&dtext, b, false) {
                        st.evals += 1;
                        st.bump("ratio_heuristic_runs");
                        let breached = matches!(&r.result, Err(x) if x == "AliasAnchorRatio");
                        if breached != expect_breach || (!breached && r.result.is_err()) {
                            out.push(mk(
                                "ratio-heuristic",
                                format!(
                                    "aliases {a}, anchors {an}, min_aliases {min_aliases}, multiplier {mult}: result {:?}, expected breach = {expect_breach}",
                                    r.result
                                ),
                                vec![],
                            ));
                        }
                    }
                }
            }
        }
    }

    // ---------------- stream: AllContent totals ----------------
    let stext = stream_text_sep(&c.docs, c.sep);
    let ms = model::count(&stext, true);
    if let Ok(ms) = &ms
        && c.docs.len() > 1
        && !ms.ambiguous
    {
        if let Some(r) = run_str(&stext, unlimited(), true) {
            st.evals += 1;
            if r.result.is_ok() {
                st.bump("stream.ok_unlimited");
                if r.reports.len() == 1 {
                    let got = report_counts(&r.reports[0]);
                    if got != ms.total {
                        out.push(mk(
                            "report-differs-from-model",
                            format!("from_multiple report {:?} vs independent count {:?}", got, ms.total),
                            vec![],
                        ));
                    }
                } else {
                    out.push(mk("report-callback-count", format!("from_multiple: {} callback invocations", r.reports.len()), vec![]));
                }
                // the alias/anchor ratio of the whole stream (whole-content enforcement looks at it once, at the
                // end): a stream within its ratio passes whatever the ratio of a prefix of its documents is
                {
                    let (a, an) = (ms.total.aliases, ms.total.anchors);
                    if a > 0 && an > 0 {
                        for (mult, expect_breach) in [(a.div_ceil(an), false), ((a - 1) / an, true)] {
                            #[allow(deprecated)]
                            let b = {
                                let mut b = unlimited();
                                b.enforce_alias_anchor_ratio = true;
                                b.alias_anchor_min_aliases = 1;
                                b.alias_anchor_ratio_multiplier = mult;
                                b
                            };
                            if let Some(r) = run_str(&stext, b, true) {
                                st.evals += 1;
                                st.bump("ratio_heuristic_stream_runs");
                                let breached = matches!(&r.result, Err(x) if x == "AliasAnchorRatio");
                                if breached != expect_breach || (!breached && r.result.is_err()) {
                                    out.push(mk(
                                        "ratio-heuristic",
                                        format!(
                                            "from_multiple over the stream: aliases {a}, anchors {an} in total, multiplier {mult}: result {:?}, expected breach = {expect_breach}",
                                            r.result
                                        ),
                                        vec![],
                                    ));
                                }
                            }
                        }
                    }
                }
                // document-count threshold
                let nd = ms.total.documents;
                for (limit, must_pass) in [(nd, true), (nd - 1, false)] {
                    if let Some(r) = run_str(&stext, with_limit(Counter::Documents, limit), true) {
                        st.evals += 1;
                        let ok = match (&r.result, must_pass) {
                            (Ok(()), true) => true,
                            (Err(b), false) => b == "Documents",
                            _ => false,
                        };
                        if !ok {
                            out.push(mk(
                                if must_pass { "false-rejection" } else { "limit-not-enforced" },
                                format!("from_multiple: {nd} documents, max_documents {limit}: {:?}", r.result),
                                vec![Counter::Documents],
                            ));
                        }
                    }
                }
            }
        }
    }

    // ---------------- stream: per-document independence (streaming iterator) ----------------
    if c.docs.len() > 1 && doc_ok && !m_full.ambiguous {
        let tail = "tail: 1\n".to_string();
        let alone: Vec<String> = vec![d.clone(), tail.clone()];
        let mut full: Vec<String> = c.docs.clone();
        full.push(tail);
        let alone_text = stream_text_sep(&alone, c.sep);
        let full_text = stream_text_sep(&full, c.sep);
        // position of the document under test among the items: every earlier document yields exactly one
        // item unless it is empty / null-like (the generator produces none of those)
        let pos = c.under_test;
        let per_doc = &m_full.per_doc[0];
        // the alias/anchor ratio is one of the per-document quantities: a document over its ratio is an
        // error item wherever it stands, a document within it is not affected by its neighbours
        if per_doc.aliases > 0 && per_doc.anchors > 0 {
            let (a, an) = (per_doc.aliases, per_doc.anchors);
            for (mult, expect_breach) in [((a - 1) / an, true), (a.div_ceil(an), false)] {
                #[allow(deprecated)]
                let b = {
                    let mut b = unlimited();
                    b.enforce_alias_anchor_ratio = true;
                    b.alias_anchor_min_aliases = 1;
                    b.alias_anchor_ratio_multiplier = mult;
                    b
                };
                let Some((a_items, a_term, _)) = run_iter(&alone_text, b.clone(), &c.chunking, 6) else { continue };
                let Some((f_items, f_term, _)) = run_iter(&full_text, b, &c.chunking, full.len() + 4) else { continue };
                st.evals += 2;
                st.bump("fired.per_document_ratio_in_stream");
                if !a_term || !f_term {
                    continue;
                }
                // the history may contain documents that are over this ratio themselves: only the document
                // under test alone (followed by the small tail document) is asserted exactly
                let first = a_items.first().cloned();
                let want_err = Err("AliasAnchorRatio".to_string());
                let ok = if expect_breach { first == Some(want_err.clone()) } else { first == Some(Ok(())) && a_items.get(1) == Some(&Ok(())) };
                if !ok {
                    out.push(mk(
                        "per-document-ratio",
                        format!(
                            "document with {a} aliases and {an} anchors, multiplier {mult} (breach expected: {expect_breach}): alone (+ tail document) the iterator yields {a_items:?}"
                        ),
                        vec![],
                    ));
                }
                let _ = f_items;
            }
        }
        // the report at the end of the stream: one invocation, and the number of documents read (not limited
        // under per-document enforcement, but reported)
        if let Some((items, term, _, reps)) = run_iter_t::<Json>(&full_text, unlimited(), &c.chunking, full.len() + 4) {
            st.evals += 1;
            if term && items.iter().all(|i| i.is_ok()) {
                if reps.len() != 1 {
                    out.push(mk("report-callback-count", format!("read_with_options: {} callback invocations for a stream read to its end", reps.len()), vec![]));
                } else if reps[0].documents != full.len() {
                    out.push(mk(
                        "report-differs-from-model",
                        format!("read_with_options: the report says {} documents, the stream has {}", reps[0].documents, full.len()),
                        vec![Counter::Documents],
                    ));
                }
            }
        }
        for &cn in &c.counters {
            if cn == Counter::Documents {
                continue; // ignored under per-document enforcement
            }
            let n = cn.get(per_doc);
            for (limit, at_usage) in [(n, true), (n.wrapping_sub(1), false)] {
                if !at_usage && n == 0 {
                    continue;
                }
                // events: the per-document figure has no crisp definition (stream markers), differential only
                let b = with_limit(cn, limit);
                let Some((a_items, a_term, _)) = run_iter(&alone_text, b.clone(), &c.chunking, 6) else { continue };
                let Some((f_items, f_term, fr, f_reps)) = run_iter_t::<Json>(&full_text, b, &c.chunking, full.len() + 4) else { continue };
                st.evals += 2;
                // the report counts the documents read, failed ones (and the ones entered through recovery) included
                if f_term && f_items.len() == full.len() && f_reps.len() == 1 && f_reps[0].documents != full.len() {
                    out.push(mk(
                        "report-differs-from-model",
                        format!(
                            "{cn:?} limit {limit}: read_with_options yields {f_items:?} for a stream of {} documents, the report says {} documents",
                            full.len(),
                            f_reps[0].documents
                        ),
                        vec![cn],
                    ));
                }
                st.behaviours.insert(fr.trace_digest());
                st.nontrivial.insert(fr.trace_digest() ^ (limit as u64).wrapping_mul(0x9E37_79B9));
                st.add("steps.next_calls", (a_items.len() + f_items.len()) as u64);
                st.bump("fired.per_document_limit_in_stream");
                st.note(&format!("{a_items:?}{f_items:?}"));
                if !a_term || !f_term {
                    out.push(mk("iterator-not-terminated", format!("{cn:?} limit {limit}"), vec![cn]));
                    continue;
                }
                // targets that read nothing, or that keep going after a failure, get the same items
                for (tname, r) in [
                    ("a no-op target", run_iter_t::<crate::types::Noop>(&alone_text, with_limit(cn, limit), &c.chunking, 6)),
                    ("a best-effort target", run_iter_t::<crate::types::BestEffortTree>(&alone_text, with_limit(cn, limit), &c.chunking, 6)),
                ] {
                    let Some((t_items, t_term, _, _)) = r else { continue };
                    st.evals += 1;
                    st.bump("fired.per_document_limit_lenient_target");
                    if t_items != a_items || t_term != a_term {
                        out.push(mk(
                            "lenient-target-changes-verdict",
                            format!("{cn:?} limit {limit} (document's own usage {n}): read_with_options into the untyped tree gives {a_items:?}, into {tname} {t_items:?}"),
                            vec![cn],
                        ));
                    }
                }
                let a = a_items.first().cloned();
                let f = f_items.get(pos).cloned();
                // a stream that ended before reaching the document because an earlier document is a
                // syntax error (not a budget matter) says nothing about the document under test
                if f.is_none()
                    && matches!(f_items.last(), Some(Err(e)) if e.starts_with("not-a-budget-error"))
                {
                    st.bump("skipped.stream_ended_by_earlier_syntax_error");
                    continue;
                }
                // An earlier document that is itself over this limit fails on its own: the iterator goes on
                // (it does so after every breach met inside a document; the documents that follow are
                // within their limits and must not be lost with it).
                if f_items.iter().take(pos).any(|x| matches!(x, Err(e) if !e.starts_with("not-a-budget-error"))) {
                    st.bump("fired.earlier_document_breaches_this_limit");
                }
                // the garde / validator iterators are separate copies of the plain one: same items
                for which in 0..2 {
                    if let Some((v_items, v_term)) = run_iter_validating(which, &full_text, with_limit(cn, limit), &c.chunking, full.len() + 4) {
                        st.evals += 1;
                        if v_items != f_items || v_term != f_term {
                            out.push(mk(
                                "validating-iterator-differs",
                                format!(
                                    "{cn:?} limit {limit}: read_with_options gives {f_items:?}, {} gives {v_items:?}",
                                    if which == 0 { "read_with_options_valid" } else { "read_with_options_validate" }
                                ),
                                vec![cn],
                            ));
                        }
                    }
                }
                if a != f {
                    out.push(mk(
                        "per-document-history-dependence",
                        format!(
                            "{cn:?} limit {limit} (document's own usage {n}): alone the document gives {a:?}, as document {pos} of the stream it gives {f:?} (all items: {f_items:?})"
                        ),
                        vec![cn],
                    ));
                    continue;
                }
                // exactness per document (markers between documents belong to no document)
                {
                    let want: Result<(), String> = if at_usage { Ok(()) } else { Err(cn.breach_name().to_string()) };
                    if a != Some(want.clone()) {
                        out.push(mk(
                            if at_usage { "false-rejection" } else { "limit-not-enforced" },
                            format!("read_with_options, document alone: {cn:?} usage {n}, limit {limit}: item {a:?}"),
                            vec![cn],
                        ));
                    }
                }
            }
            if out.len() > 6 {
                return out;
            }
        }
    }
    out
}

// ------------------------------------------------------------------------------------------------
// Generation

struct G<'a> {
    rng: &'a mut Rng,
    key: usize,
    anchor: usize,
    /// (name, is_map)
    anchors: Vec<(String, bool)>,
}

impl G<'_> {
    fn k(&mut self) -> String {
        self.key += 1;
        format!("k{}", self.key)
    }
    fn word(&mut self) -> String {
        match self.rng.below(5) {
            0 => format!("\"{} {}\"", self.rng.pick(wl::WORDS), self.rng.pick(wl::WORDS)),
            1 => self.rng.below(1000).to_string(),
            _ => self.rng.pick(&["alpha", "béta", "x", "long-word-here", "日本", "v"]).to_string(),
        }
    }
    fn new_anchor(&mut self, is_map: bool) -> String {
        self.anchor += 1;
        let n = format!("a{}", self.anchor);
        self.anchors.push((n.clone(), is_map));
        n
    }
    /// a flow value (single line)
    fn flow_value(&mut self, depth: usize) -> String {
        match self.rng.below(9) {
            0 | 1 | 2 => self.word(),
            3 if depth > 0 => {
                let n = self.rng.below(4);
                let items: Vec<String> = (0..n).map(|_| self.flow_value(depth - 1)).collect();
                format!("[{}]", items.join(", "))
            }
            4 if depth > 0 => {
                let n = self.rng.below(3);
                let items: Vec<String> = (0..n)
                    .map(|_| {
                        let k = self.k();
                        format!("{k}: {}", self.flow_value(depth - 1))
                    })
                    .collect();
                format!("{{{}}}", items.join(", "))
            }
            5 | 6 if !self.anchors.is_empty() => {
                let i = self.rng.below(self.anchors.len());
                format!("*{}", self.anchors[i].0)
            }
            _ => self.word(),
        }
    }
    fn entry(&mut self, out: &mut String, indent: usize, depth: usize) {
        let pad = " ".repeat(indent);
        let k = self.k();
        match self.rng.below(12) {
            0 | 1 => {
                // anchored scalar (now and then an empty one: plain nothing, or a quoted empty string)
                let w = match self.rng.below(8) {
                    0 => String::new(),
                    1 => "\"\"".to_string(),
                    _ => self.word(),
                };
                let a = self.new_anchor(false);
                out.push_str(&format!("{pad}{k}: &{a} {w}\n"));
            }
            2 => {
                // anchored flow map (mergeable); built before the anchor is registered. It may itself
                // start with a merge key, so that replaying it replays a `<<` in key position.
                let n = self.rng.range(1, 3);
                let mut items: Vec<String> = Vec::new();
                let maps: Vec<String> = self.anchors.iter().filter(|a| a.1).map(|a| a.0.clone()).collect();
                if !maps.is_empty() && self.rng.chance(1, 2) {
                    let m = self.rng.pick(&maps).clone();
                    items.push(format!("<<: *{m}"));
                }
                for _ in 0..n {
                    let kk = self.k();
                    items.push(format!("{kk}: {}", self.word()));
                }
                // a quoted or tagged `<<` is an ordinary key, also when the mapping is replayed through an alias
                if self.rng.chance(1, 4) {
                    items.push(format!("{}: {}", self.rng.pick(&["\"<<\"", "'<<'", "!!str << ", "! << "]), self.word()));
                }
                let a = self.new_anchor(true);
                out.push_str(&format!("{pad}{k}: &{a} {{{}}}\n", items.join(", ")));
            }
            3 => {
                // anchored flow sequence, possibly holding aliases (nested expansion)
                let v = {
                    let n = self.rng.below(4);
                    let items: Vec<String> = (0..n).map(|_| self.flow_value(1)).collect();
                    format!("[{}]", items.join(", "))
                };
                let a = self.new_anchor(false);
                out.push_str(&format!("{pad}{k}: &{a} {v}\n"));
            }
            4 | 5 if depth > 0 => {
                // nested block mapping, optionally anchored (registered once it is complete) and
                // optionally with a merge key
                let anchored = self.rng.chance(1, 3);
                let pending = if anchored {
                    self.anchor += 1;
                    Some(format!("a{}", self.anchor))
                } else {
                    None
                };
                match &pending {
                    Some(a) => out.push_str(&format!("{pad}{k}: &{a}\n")),
                    None => out.push_str(&format!("{pad}{k}:\n")),
                }
                let maps: Vec<String> = self.anchors.iter().filter(|a| a.1).map(|a| a.0.clone()).collect();
                if !maps.is_empty() && self.rng.chance(1, 2) {
                    if maps.len() >= 2 && self.rng.chance(1, 3) {
                        out.push_str(&format!("{pad}  <<: [*{}, *{}]\n", maps[0], maps[maps.len() - 1]));
                    } else {
                        let m = self.rng.pick(&maps).clone();
                        out.push_str(&format!("{pad}  <<: *{m}\n"));
                    }
                }
                let n = self.rng.range(1, 3);
                for _ in 0..n {
                    self.entry(out, indent + 2, depth - 1);
                }
                if let Some(a) = pending {
                    self.anchors.push((a, true));
                }
            }
            6 if depth > 0 => {
                // block sequence
                out.push_str(&format!("{pad}{k}:\n"));
                let n = self.rng.range(1, 4);
                for _ in 0..n {
                    let v = self.flow_value(1);
                    out.push_str(&format!("{pad}  - {v}\n"));
                }
            }
            8 => {
                // a container as mapping key (complex key), optionally with a `<<` as its value
                let key = if self.rng.chance(1, 2) {
                    format!("[{}, {}]", self.word(), self.word())
                } else {
                    let kk = self.k();
                    format!("{{{kk}: {}}}", self.word())
                };
                let val = if self.rng.chance(1, 3) { "<<".to_string() } else { self.flow_value(1) };
                out.push_str(&format!("{pad}? {key}\n{pad}: {val}\n"));
            }
            7 => {
                // a value that is literally "<<" (not a merge key) or a quoted "<<" key
                if self.rng.chance(1, 2) {
                    out.push_str(&format!("{pad}{k}: <<\n"));
                } else {
                    out.push_str(&format!("{pad}\"<<{k}\": v\n"));
                }
            }
            _ => {
                let v = self.flow_value(2);
                out.push_str(&format!("{pad}{k}: {v}\n"));
            }
        }
    }
}

pub fn gen_doc(rng: &mut Rng, size: usize) -> String {
    let mut g = G {
        rng,
        key: 0,
        anchor: 0,
        anchors: Vec::new(),
    };
    let mut out = String::new();
    let depth = g.rng.range(1, 4);
    for _ in 0..size {
        g.entry(&mut out, 0, depth);
    }
    out
}

/// Document kinds for histories.
pub fn kind_doc(kind: usize, rng: &mut Rng) -> String {
    match kind {
        0 => "a: 1\n".to_string(),
        1 => "x: &p [1, 2, 3]\ny: *p\nz: [*p, *p]\nn: &n\nm: *n\nq: &e \"\"\n".to_string(),
        2 => "base: &b {u: 1, v: 2, \"<<\": q}\nm1: &m\n  <<: *b\n  w: 3\nm2:\n  <<: *b\nm3: *m\nm4: [*m, {<<: *m, z: 1}]\n".to_string(),
        3 => "d: [[[[[deep]]]]]\n".to_string(),
        4 => format!("s: \"{}\"\n", "é".repeat(rng.range(50, 300))),
        // type-level failures that leave containers open when recovery starts
        5 => "a: [[[x]]]\nb: {c: {d: 1, d: 2}}\nrest: [1, 2, 3]\n".to_string(),
        6 => "p: &q [1, 2]\nq: {r: {s: [*q, {t: 1, t: 2}]}}\n".to_string(),
        7 => "- [[[[1, 2, 3]]]]\n- &z zed\n- *z\n".to_string(),
        8 => "k: &o {a: &i [x, y]}\nl: *o\nm: *i\n? [c1, c2]\n: <<\n? {ck: cv}\n: 1\nn:\n  ? [d]\n  : e\n  <<: *o\n  f: <<\n".to_string(),
        _ => {
            let n = rng.range(2, 7);
            gen_doc(rng, n)
        }
    }
}

pub const N_KINDS: usize = 10;

pub fn total(tier: Tier) -> u64 {
    match tier {
        Tier::Quick => exhaustive_count(3) + 1500,
        Tier::Thorough => exhaustive_count(4) + 40_000,
    }
}

fn exhaustive_count(max_len: u32) -> u64 {
    (1..=max_len).map(|l| (N_KINDS as u64).pow(l)).sum()
}

pub fn gen_case(tier: Tier, seed: u64, idx: u64) -> Case {
    let mut rng = Rng::for_case(seed, "C07", idx);
    let max_len = if tier == Tier::Thorough { 4 } else { 3 };
    let ex = exhaustive_count(max_len);
    let (docs, under_test) = if idx < ex {
        let mut rest = idx;
        let mut l = 1;
        loop {
            let n = (N_KINDS as u64).pow(l);
            if rest < n {
                break;
            }
            rest -= n;
            l += 1;
        }
        let mut docs = Vec::new();
        let mut r = rest;
        for _ in 0..l {
            docs.push(kind_doc((r % N_KINDS as u64) as usize, &mut rng));
            r /= N_KINDS as u64;
        }
        // the document under test is the last one (everything before it is its history)
        let u = docs.len() - 1;
        (docs, u)
    } else {
        let n = rng.range(1, 6);
        let docs: Vec<String> = (0..n)
            .map(|_| {
                if rng.chance(1, 3) {
                    kind_doc(rng.below(N_KINDS), &mut rng)
                } else {
                    let sz = rng.range(1, 10);
                    gen_doc(&mut rng, sz)
                }
            })
            .collect();
        let u = rng.below(docs.len());
        (docs, u)
    };
    let text = stream_text(&docs);
    let chunking = wl::gen_chunking(text.as_bytes(), &mut rng);
    Case::C07(BudgetCase {
        docs,
        under_test,
        chunking,
        counters: COUNTERS.to_vec(),
        // (documents that themselves contain a marker line keep the plain `---` form)
        sep: if text.contains("...") { 0 } else { (idx % 4) as u8 },
    })
}

pub fn shrink(c: &BudgetCase) -> Vec<Case> {
    let mut out = Vec::new();
    // drop documents other than the one under test
    for i in 0..c.docs.len() {
        if i == c.under_test {
            continue;
        }
        let mut n = c.clone();
        n.docs.remove(i);
        if i < c.under_test {
            n.under_test -= 1;
        }
        out.push(Case::C07(n));
    }
    if c.chunking != Chunking::Whole {
        let mut n = c.clone();
        n.chunking = Chunking::Whole;
        out.push(Case::C07(n));
    }
    if c.counters.len() > 1 {
        for cn in &c.counters {
            let mut n = c.clone();
            n.counters = vec![*cn];
            out.push(Case::C07(n));
        }
    }
    // drop lines of documents
    for i in 0..c.docs.len() {
        let lines: Vec<&str> = c.docs[i].split_inclusive('\n').collect();
        if lines.len() > 1 {
            for j in 0..lines.len() {
                let t: String = lines.iter().enumerate().filter(|(k, _)| *k != j).map(|(_, l)| *l).collect();
                let mut n = c.clone();
                n.docs[i] = t;
                out.push(Case::C07(n));
            }
        }
    }
    out
}

#[allow(dead_code)]
fn unused(_: Outcome) {}
