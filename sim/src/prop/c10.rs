//! C10 — I/O faults and the input cap are never swallowed (reader and writer): fault enumeration.

use crate::case::{Case, Doc, Stats, Tier, Viol};
use crate::wl;
use crate::io::*;
use crate::lab::{self, Abnormal, OptVec, Outcome, guard};
use crate::rng::Rng;
use crate::types::*;
use serde::de::DeserializeOwned;
use serde::{Deserialize, Serialize};
use std::fmt::Debug;

#[derive(Clone, Copy, Debug, Serialize, Deserialize, PartialEq, Eq, PartialOrd, Ord)]
pub enum REntry {
    FromReader,
    WdReader,
    Read,
    ReadPlain,
    ReaderValid,
    ReaderValidate,
    ReadValid,
    ReadValidate,
    /// closure helper whose closure skips the document (`IgnoredAny`) instead of building a value
    WdReaderSkip,
    /// closure helper whose closure takes the first element of the root collection and returns
    WdReaderFirst,
}

/// Takes the first element / entry of a sequence or mapping (as an untyped value) and stops.
struct FirstOnly;
impl<'de> serde::de::Visitor<'de> for FirstOnly {
    type Value = String;
    fn expecting(&self, f: &mut std::fmt::Formatter) -> std::fmt::Result {
        f.write_str("anything")
    }
    fn visit_seq<A: serde::de::SeqAccess<'de>>(self, mut a: A) -> Result<String, A::Error> {
        Ok(format!("{:?}", a.next_element::<serde_json::Value>()?))
    }
    fn visit_map<A: serde::de::MapAccess<'de>>(self, mut a: A) -> Result<String, A::Error> {
        Ok(format!("{:?}", a.next_entry::<serde_json::Value, serde_json::Value>()?))
    }
    fn visit_str<E>(self, v: &str) -> Result<String, E> {
        Ok(v.to_string())
    }
    fn visit_unit<E>(self) -> Result<String, E> {
        Ok("null".into())
    }
    fn visit_bool<E>(self, v: bool) -> Result<String, E> {
        Ok(v.to_string())
    }
    fn visit_i64<E>(self, v: i64) -> Result<String, E> {
        Ok(v.to_string())
    }
    fn visit_u64<E>(self, v: u64) -> Result<String, E> {
        Ok(v.to_string())
    }
    fn visit_f64<E>(self, v: f64) -> Result<String, E> {
        Ok(v.to_string())
    }
}

impl REntry {
    pub fn is_iter(self) -> bool {
        matches!(self, REntry::Read | REntry::ReadPlain | REntry::ReadValid | REntry::ReadValidate)
    }
    pub fn is_validating(self) -> bool {
        matches!(
            self,
            REntry::ReaderValid | REntry::ReaderValidate | REntry::ReadValid | REntry::ReadValidate
        )
    }
}

// (a closure that stops after the first element - WdReaderFirst - always gets an error from the helper,
// for string and reader input alike: nothing to learn from faults there, it is not in the tables)
pub const PLAIN_ENTRIES: [REntry; 5] = [REntry::FromReader, REntry::WdReader, REntry::Read, REntry::ReadPlain, REntry::WdReaderSkip];
pub const VALID_ENTRIES: [REntry; 4] = [
    REntry::ReaderValid,
    REntry::ReaderValidate,
    REntry::ReadValid,
    REntry::ReadValidate,
];

#[derive(Clone, Debug, Serialize, Deserialize)]
pub enum Sel {
    /// every byte position x these kinds x these after-behaviours
    SweepFaults { kinds: Vec<ErrKind>, afters: Vec<After> },
    Fault(ReadFault),
    /// every truncation point
    SweepEof,
    /// fail the k-th read call, for every k the fault-free run makes (plus one)
    SweepReads { kinds: Vec<ErrKind>, afters: Vec<After> },
    EofAt(usize),
    /// cap values around the length
    SweepCap,
    Cap(Option<usize>),
    /// endless reader repeating `frag` after the document, with this cap
    Endless { frag: Doc, cap: Option<usize> },
}

#[derive(Clone, Debug, Serialize, Deserialize)]
pub struct ReaderCase {
    pub doc: Doc,
    /// for streams: start and end offset of each (non-null) document's text
    #[serde(default)]
    pub doc_spans: Vec<(usize, usize)>,
    pub target: Target,
    pub entry: REntry,
    pub opts: OptVec,
    pub chunking: Chunking,
    pub sel: Sel,
}

pub struct RRes {
    pub single: Option<Outcome>,
    pub items: Vec<Outcome>,
    pub terminated: bool,
    pub abnormal: Option<Outcome>,
    pub reader: SimReader,
}

fn drive_iter<T: Debug, I: Iterator<Item = Result<T, serde_saphyr::Error>>>(
    it: &mut I,
    max_calls: usize,
    items: &mut Vec<Outcome>,
    terminated: &mut bool,
) {
    let mut renders = Vec::new();
    for _ in 0..max_calls {
        match it.next() {
            Some(r) => items.push(lab::canon(Ok(r), &mut renders)),
            None => {
                *terminated = true;
                break;
            }
        }
    }
}

fn abn(a: Abnormal) -> Outcome {
    match a {
        Abnormal::Panic(s) => Outcome::Panic(s),
        Abnormal::Liveness(s) => Outcome::Liveness(s),
        Abnormal::ProbePanic => Outcome::ProbePanic,
    }
}

fn run_plain<T: DeserializeOwned + Debug>(
    entry: REntry,
    bytes: &[u8],
    opts: &OptVec,
    script: &ReaderScript,
    max_calls: usize,
) -> RRes {
    let mut rd = SimReader::new(bytes, script.clone());
    let handle = rd.clone();
    let mut renders = Vec::new();
    let mut items = Vec::new();
    let mut terminated = false;
    let mut single = None;
    let mut abnormal = None;
    match entry {
        REntry::FromReader => {
            let r = guard(|| serde_saphyr::from_reader_with_options::<_, T>(rd, opts.to_options()));
            single = Some(lab::canon(r, &mut renders));
        }
        REntry::WdReader => {
            let r = guard(|| {
                serde_saphyr::with_deserializer_from_reader_with_options(rd, opts.to_options(), |de| T::deserialize(de))
            });
            single = Some(lab::canon(r, &mut renders));
        }
        REntry::WdReaderSkip => {
            let r = guard(|| {
                serde_saphyr::with_deserializer_from_reader_with_options(rd, opts.to_options(), |de| {
                    <serde::de::IgnoredAny as Deserialize>::deserialize(de).map(|_| ())
                })
            });
            single = Some(lab::canon(r, &mut renders));
        }
        REntry::WdReaderFirst => {
            let r = guard(|| {
                serde_saphyr::with_deserializer_from_reader_with_options(rd, opts.to_options(), |de| {
                    serde::Deserializer::deserialize_any(de, FirstOnly)
                })
            });
            single = Some(lab::canon(r, &mut renders));
        }
        REntry::Read => {
            if let Err(a) = guard(|| {
                let mut it = serde_saphyr::read_with_options::<_, T>(&mut rd, opts.to_options());
                drive_iter(&mut it, max_calls, &mut items, &mut terminated);
            }) {
                abnormal = Some(abn(a));
            }
        }
        REntry::ReadPlain => {
            if let Err(a) = guard(|| {
                let mut it = serde_saphyr::read::<_, T>(&mut rd);
                drive_iter(&mut it, max_calls, &mut items, &mut terminated);
            }) {
                abnormal = Some(abn(a));
            }
        }
        _ => unreachable!(),
    }
    RRes {
        single,
        items,
        terminated,
        abnormal,
        reader: handle,
    }
}

fn run_valid(entry: REntry, bytes: &[u8], opts: &OptVec, script: &ReaderScript, max_calls: usize) -> RRes {
    let mut rd = SimReader::new(bytes, script.clone());
    let handle = rd.clone();
    let mut renders = Vec::new();
    let mut items = Vec::new();
    let mut terminated = false;
    let mut single = None;
    let mut abnormal = None;
    match entry {
        REntry::ReaderValid => {
            let r = guard(|| serde_saphyr::from_reader_with_options_valid::<_, VCfg>(rd, opts.to_options()));
            single = Some(lab::canon(r, &mut renders));
        }
        REntry::ReaderValidate => {
            let r = guard(|| serde_saphyr::from_reader_with_options_validate::<_, VCfg>(rd, opts.to_options()));
            single = Some(lab::canon(r, &mut renders));
        }
        REntry::ReadValid => {
            if let Err(a) = guard(|| {
                let mut it = serde_saphyr::read_with_options_valid::<_, VCfg>(&mut rd, opts.to_options());
                drive_iter(&mut it, max_calls, &mut items, &mut terminated);
            }) {
                abnormal = Some(abn(a));
            }
        }
        REntry::ReadValidate => {
            if let Err(a) = guard(|| {
                let mut it = serde_saphyr::read_with_options_validate::<_, VCfg>(&mut rd, opts.to_options());
                drive_iter(&mut it, max_calls, &mut items, &mut terminated);
            }) {
                abnormal = Some(abn(a));
            }
        }
        _ => unreachable!(),
    }
    RRes {
        single,
        items,
        terminated,
        abnormal,
        reader: handle,
    }
}

pub fn run_entry(c: &ReaderCase, bytes: &[u8], opts: &OptVec, script: &ReaderScript) -> RRes {
    let max_calls = c.doc_spans.len().max(1) + 3;
    if c.entry.is_validating() {
        run_valid(c.entry, bytes, opts, script, max_calls)
    } else {
        crate::with_target!(c.target, run_plain(c.entry, bytes, opts, script, max_calls))
    }
}

fn script_with(c: &ReaderCase) -> ReaderScript {
    ReaderScript {
        chunking: Some(c.chunking.clone()),
        ..Default::default()
    }
}

/// Some(big_endian) when the input starts with a UTF-16 byte-order mark
pub fn utf16_kind(data: &[u8]) -> Option<bool> {
    match data {
        [0xFF, 0xFE, ..] => Some(false),
        [0xFE, 0xFF, ..] => Some(true),
        _ => None,
    }
}

fn utf16_unit(data: &[u8], at: usize, be: bool) -> u16 {
    if be { u16::from_be_bytes([data[at], data[at + 1]]) } else { u16::from_le_bytes([data[at], data[at + 1]]) }
}

/// Is offset `k` a character boundary of the input (UTF-8, or UTF-16 when it starts with that BOM)?
fn char_boundary(data: &[u8], k: usize) -> bool {
    if let Some(be) = utf16_kind(data) {
        if k >= data.len() || k <= 2 {
            return true; // (a cut inside the 2-byte mark leaves no UTF-16 input at all: not asserted)
        }
        if (k - 2) % 2 != 0 {
            return false;
        }
        // between the two halves of a surrogate pair?
        let prev = utf16_unit(data, k - 2, be);
        return !(0xD800..0xDC00).contains(&prev);
    }
    k >= data.len() || (data[k] & 0xC0) != 0x80
}

/// The first `k` bytes as text, when they are complete characters of the input's encoding
fn decode_prefix(data: &[u8], k: usize) -> Option<String> {
    if let Some(be) = utf16_kind(data) {
        if k < 2 || (k - 2) % 2 != 0 {
            return None;
        }
        let units: Vec<u16> = (2..k).step_by(2).map(|i| utf16_unit(data, i, be)).collect();
        return String::from_utf16(&units).ok();
    }
    std::str::from_utf8(&data[..k]).ok().map(|s| s.to_string())
}

/// `text` re-encoded as UTF-16 with a byte-order mark, and the map from UTF-8 offsets to offsets in it
pub fn to_utf16(text: &str, be: bool) -> (Vec<u8>, impl Fn(usize) -> usize + '_) {
    let mut v = if be { vec![0xFE, 0xFF] } else { vec![0xFF, 0xFE] };
    for u in text.encode_utf16() {
        v.extend_from_slice(&if be { u.to_be_bytes() } else { u.to_le_bytes() });
    }
    let map = move |off: usize| -> usize {
        let mut o = off.min(text.len());
        while !text.is_char_boundary(o) {
            o -= 1;
        }
        2 + 2 * text[..o].encode_utf16().count()
    };
    (v, map)
}

fn note_run(st: &mut Stats, r: &RRes, nontrivial: bool) {
    st.evals += 1;
    let d = r.reader.trace_digest();
    st.behaviours.insert(d);
    if nontrivial {
        st.nontrivial.insert(d);
    }
    let rs = r.reader.st.borrow();
    st.add("steps.read_calls", rs.reads);
    st.add("steps.bytes_delivered", rs.bytes_out);
    st.add("fired.split", rs.short_reads);
    if let Some(o) = &r.single {
        st.bump(&format!("outcome.{}", o.class()));
        st.note(&o.agree_key());
    }
    for o in &r.items {
        st.bump(&format!("outcome.item.{}", o.class()));
        st.note(&o.agree_key());
    }
    st.add("steps.next_calls", r.items.len() as u64 + r.terminated as u64);
    st.note(&format!("{d:x}"));
}

/// Oracle for one execution under a fault that fired (or an EOF inside a code point) at byte `p`.
fn check_faulted(
    c: &ReaderCase,
    r: &RRes,
    refr: &RRes,
    p: usize,
    resumes: bool,
    what: &str,
    narrowed: &dyn Fn() -> Case,
    out: &mut Vec<Viol>,
) {
    let mut v = |clause: &str, detail: String| {
        out.push(Viol {
            property: "C10".into(),
            clause: clause.into(),
            detail,
            case: narrowed(),
        })
    };
    if let Some(a) = &r.abnormal {
        v("reader-abnormal", format!("{what} at byte {p}: {}", a.short()));
        return;
    }
    if let Some(o) = &r.single {
        match o {
            Outcome::Err(_) => {}
            Outcome::Ok(val) => v(
                "reader-fault-swallowed",
                format!("{what} at byte {p} fired, yet the call returned Ok({})", trunc(val)),
            ),
            other => v("reader-abnormal", format!("{what} at byte {p}: {}", other.short())),
        }
        return;
    }
    // iterator
    if !r.terminated {
        v(
            "iterator-not-terminated",
            format!("{what} at byte {p}: iterator still yields after {} items", r.items.len()),
        );
        return;
    }
    // Silent truncation: the faulted run yields a strict prefix of the fault-free items, i.e. every
    // error item it contains is one the fault-free run has as well (say a type error of an early
    // document) and the remaining documents just vanish.
    if r.items.len() < refr.items.len() && r.items[..] == refr.items[..r.items.len()] {
        v(
            "iterator-silent-truncation",
            format!(
                "{what} at byte {p} fired; the iterator yielded {:?} and ended, the fault-free run yields {:?}: nothing tells the caller that documents were lost",
                r.items.iter().map(|o| o.short()).collect::<Vec<_>>(),
                refr.items.iter().map(|o| o.short()).collect::<Vec<_>>()
            ),
        );
        return;
    }
    let first_err = r.items.iter().position(|o| !o.is_ok());
    match first_err {
        None => v(
            "iterator-fault-swallowed",
            format!(
                "{what} at byte {p} fired, yet the iterator yielded no error item (items: {:?})",
                r.items.iter().map(|o| o.short()).collect::<Vec<_>>()
            ),
        ),
        Some(fe) => {
            // The span table is only meaningful when the fault-free run yields exactly one item per
            // listed document (hand-written corpus streams carry no span table): otherwise only
            // "every Ok item is one of the fault-free items" is asserted.
            let spans_ok = refr.items.len() == c.doc_spans.len();
            for (j, o) in r.items.iter().enumerate() {
                if let Outcome::Panic(_) | Outcome::Liveness(_) = o {
                    v("reader-abnormal", format!("{what} at byte {p}: {}", o.short()));
                    return;
                }
                if !o.is_ok() {
                    continue;
                }
                if !spans_ok {
                    if !refr.items.contains(o) {
                        v(
                            "iterator-value-from-truncated-prefix",
                            format!(
                                "{what} at byte {p}: item {j} is {} which the fault-free run never yields ({:?})",
                                o.short(),
                                refr.items.iter().map(|x| x.short()).collect::<Vec<_>>()
                            ),
                        );
                        return;
                    }
                    continue;
                }
                if j < fe {
                    let complete = c.doc_spans.get(j).map(|s| s.1 <= p).unwrap_or(false);
                    let same = refr.items.get(j) == Some(o);
                    if !complete || !same {
                        v(
                            "iterator-value-from-truncated-prefix",
                            format!(
                                "{what} at byte {p}: item {j} is {} but that document was not completely delivered (span {:?}) or differs from the fault-free item {:?}",
                                o.short(),
                                c.doc_spans.get(j),
                                refr.items.get(j).map(|x| x.short())
                            ),
                        );
                        return;
                    }
                } else {
                    // After the first error item the item/document correspondence is lost (a failed
                    // document may yield one item or none). An Ok item is legitimate if it equals the
                    // fault-free item of a document that was completely delivered before the fault, or
                    // that lies wholly behind a transient fault.
                    let ok = refr.items.iter().enumerate().any(|(jj, x)| {
                        x == o
                            && c
                                .doc_spans
                                .get(jj)
                                .map(|s| s.1 <= p || (resumes && s.0 >= p))
                                .unwrap_or(false)
                    });
                    if !ok {
                        v(
                            "iterator-value-after-fault",
                            format!("{what} at byte {p}: Ok item {j} after the error item: {}", o.short()),
                        );
                        return;
                    }
                }
            }
        }
    }
}

fn trunc(s: &str) -> String {
    if s.len() > 120 {
        let mut e = 120;
        while !s.is_char_boundary(e) {
            e -= 1;
        }
        format!("{}…", &s[..e])
    } else {
        s.to_string()
    }
}

pub fn exec_reader(c: &ReaderCase, st: &mut Stats) -> Vec<Viol> {
    let mut out = Vec::new();
    let bytes = &c.doc.0;
    let base = script_with(c);
    // fault-free reference through the same entry point and schedule
    let refr = run_entry(c, bytes, &c.opts, &base);
    note_run(st, &refr, false);
    // A document on which the fault-free call itself does not return normally is the totality
    // property's (C01) business; C10 only speaks about calls that meet a fault.
    let ref_abnormal = refr.abnormal.is_some()
        || matches!(refr.single, Some(Outcome::Panic(_)) | Some(Outcome::Liveness(_)))
        || refr.items.iter().any(|o| matches!(o, Outcome::Panic(_) | Outcome::Liveness(_)))
        || (c.entry.is_iter() && !refr.terminated);
    if ref_abnormal {
        st.bump("skipped.reference_abnormal(C01)");
        return out;
    }
    let narrowed = |sel: Sel| {
        let mut n = c.clone();
        n.sel = sel;
        Case::C10R(n)
    };
    match &c.sel {
        Sel::SweepFaults { kinds, afters } => {
            for k in 0..=bytes.len() {
                for kind in kinds {
                    for after in afters {
                        let f = ReadFault {
                            pos: FaultPos::AtByte(k),
                            kind: *kind,
                            after: *after,
                        };
                        one_fault(c, st, &refr, f, &narrowed, &mut out);
                    }
                }
                if out.len() > 40 {
                    break;
                }
            }
        }
        Sel::Fault(f) => one_fault(c, st, &refr, *f, &narrowed, &mut out),
        Sel::SweepReads { kinds, afters } => {
            // the library also issues reads of its own (3-byte BOM peek, 8 KiB refills, diagnostic
            // read-ahead): every one of them gets its turn to fail
            let n = refr.reader.reads().min(4000);
            for k in 0..=n {
                for kind in kinds {
                    for after in afters {
                        let f = ReadFault {
                            pos: FaultPos::AtRead(k as usize),
                            kind: *kind,
                            after: *after,
                        };
                        one_fault(c, st, &refr, f, &narrowed, &mut out);
                    }
                }
                if out.len() > 40 {
                    break;
                }
            }
        }
        Sel::SweepEof => {
            for k in 0..bytes.len() {
                one_eof(c, st, &refr, k, &narrowed, &mut out);
                if out.len() > 40 {
                    break;
                }
            }
        }
        Sel::EofAt(k) => one_eof(c, st, &refr, *k, &narrowed, &mut out),
        Sel::SweepCap => {
            let l = bytes.len();
            let mut caps: Vec<Option<usize>> = vec![Some(0), Some(1), Some(2 * l + 1), None];
            for d in 0..=4usize {
                caps.push(Some(l + d));
                if l >= d {
                    caps.push(Some(l - d));
                }
            }
            for cap in caps {
                one_cap(c, st, &refr, cap, &narrowed, &mut out);
            }
        }
        Sel::Cap(cap) => one_cap(c, st, &refr, *cap, &narrowed, &mut out),
        Sel::Endless { frag, cap } => {
            let mut script = base.clone();
            script.endless = Some(frag.0.clone());
            let mut opts = c.opts.clone();
            // an endless reader needs a budget to be stopped by; without one there is nothing to assert
            let mut b = opts.budget.clone().unwrap_or_default();
            b.max_reader_input_bytes = *cap;
            opts.budget = Some(b);
            let mut cc = c.clone();
            // allow enough next() calls for an endless stream of small documents to reach the cap
            cc.doc_spans = vec![(0, 0); cap.unwrap_or(0) / 4 + 8];
            let r = run_entry(&cc, bytes, &opts, &script);
            note_run(st, &r, true);
            st.bump("fired.endless");
            let pulled = r.reader.bytes_out();
            let bad = r.abnormal.clone().or_else(|| {
                r.single
                    .clone()
                    .filter(|o| matches!(o, Outcome::Panic(_) | Outcome::Liveness(_)))
            });
            if let Some(a) = bad {
                out.push(Viol {
                    property: "C10".into(),
                    clause: "endless-abnormal".into(),
                    detail: format!("endless reader, cap {cap:?}: {}", a.short()),
                    case: Case::C10R(c.clone()),
                });
            } else if let Some(cap) = cap {
                let ok_single = r.single.as_ref().map(|o| o.is_err()).unwrap_or(true);
                let ok_iter = r.single.is_some() || (r.terminated && r.items.iter().any(|o| o.is_err()));
                if !ok_single || !ok_iter {
                    out.push(Viol {
                        property: "C10".into(),
                        clause: "cap-not-enforced".into(),
                        detail: format!("endless reader with cap {cap}: no error returned"),
                        case: Case::C10R(c.clone()),
                    });
                }
                if pulled > (*cap as u64) + PULL_ALLOWANCE {
                    out.push(Viol {
                        property: "C10".into(),
                        clause: "pull-bound".into(),
                        detail: format!("cap {cap}: pulled {pulled} bytes from the reader"),
                        case: Case::C10R(c.clone()),
                    });
                }
            }
        }
    }
    out
}

/// Fixed buffering allowance: BufReader (8 KiB) + decoder buffer (8 KiB) + diagnostic read-ahead (1 KiB) + BOM + slack.
pub const PULL_ALLOWANCE: u64 = 20 * 1024;

fn one_fault(
    c: &ReaderCase,
    st: &mut Stats,
    refr: &RRes,
    f: ReadFault,
    narrowed: &dyn Fn(Sel) -> Case,
    out: &mut Vec<Viol>,
) {
    let mut script = script_with(c);
    script.faults = vec![f];
    let r = run_entry(c, &c.doc.0, &c.opts, &script);
    let fired = r.reader.first_fired();
    note_run(st, &r, fired.is_some());
    st.schedules.insert(script.digest());
    if f.kind == ErrKind::Interrupted {
        // record-only probe: C10 excludes Interrupted
        st.bump(if fired.is_some() { "fired.interrupted(record-only)" } else { "notfired.interrupted" });
        return;
    }
    match fired {
        None => {
            st.bump("configured_but_not_fired");
            // the library never issued the failing read: the result must equal the fault-free one
            let same = r.single == refr.single && r.items == refr.items;
            if !same {
                out.push(Viol {
                    property: "C10".into(),
                    clause: "unfired-fault-changed-result".into(),
                    detail: format!("fault {f:?} never fired but the result differs from the fault-free run"),
                    case: narrowed(Sel::Fault(f)),
                });
            }
        }
        Some((_, p)) => {
            st.bump(&format!("fired.hard_err.{}", f.kind.name()));
            st.bump(&format!("fired.after.{:?}", f.after));
            let what = format!("{} ({:?})", f.kind.name(), f.after);
            check_faulted(
                c,
                &r,
                refr,
                p,
                f.after == After::ThenResume,
                &what,
                &|| narrowed(Sel::Fault(f)),
                out,
            );
        }
    }
}

fn one_eof(
    c: &ReaderCase,
    st: &mut Stats,
    refr: &RRes,
    k: usize,
    narrowed: &dyn Fn(Sel) -> Case,
    out: &mut Vec<Viol>,
) {
    let bytes = &c.doc.0;
    let mut script = script_with(c);
    script.truncate_at = Some(k);
    let r = run_entry(c, bytes, &c.opts, &script);
    st.schedules.insert(script.digest());
    let has_bom = bytes.starts_with(&[0xEF, 0xBB, 0xBF]);
    if utf16_kind(bytes).is_some() {
        st.bump("utf16.eof_points");
    }
    if !char_boundary(bytes, k) && !(has_bom && k < 3) {
        note_run(st, &r, true);
        st.bump("fired.eof_mid_char");
        check_faulted(c, &r, refr, k, false, "EOF inside a code point", &|| narrowed(Sel::EofAt(k)), out);
    } else {
        note_run(st, &r, false);
        st.bump("control.eof_at_boundary");
        // control: same as the in-memory parse of the prefix (single-document entry points, non-validating)
        if let (Some(o), false) = (&r.single, c.entry.is_validating()) {
            if let Some(prefix) = decode_prefix(bytes, k) {
                let prefix = prefix.as_str();
                let m = crate::with_target!(c.target, mem_ref(prefix, &c.opts));
                // (closures that skip or stop early produce a value of their own: only Ok / Err is compared)
                let own_value = matches!(c.entry, REntry::WdReaderSkip | REntry::WdReaderFirst);
                let agree = match (o, &m) {
                    (Outcome::Ok(a), Outcome::Ok(b)) => own_value || a == b,
                    (Outcome::Ok(_), Outcome::Err(_)) if own_value => true,
                    (Outcome::Err(_), Outcome::Err(_)) => true,
                    _ => false,
                };
                if !agree && !known_c09_divergence(prefix) {
                    out.push(Viol {
                        property: "C10".into(),
                        clause: "eof-at-boundary-differs-from-prefix".into(),
                        detail: format!(
                            "stream ending at char boundary {k}: reader gives {}, from_str(prefix) gives {}",
                            o.short(),
                            m.short()
                        ),
                        case: narrowed(Sel::EofAt(k)),
                    });
                }
            }
        }
        if let Some(a) = r.abnormal.as_ref().or(r.single.as_ref().filter(|o| matches!(o, Outcome::Panic(_) | Outcome::Liveness(_)))) {
            out.push(Viol {
                property: "C10".into(),
                clause: "reader-abnormal".into(),
                detail: format!("EOF at {k}: {}", a.short()),
                case: narrowed(Sel::EofAt(k)),
            });
        }
    }
}

/// Inputs on which the string and reader paths are known to disagree for reasons that belong to C09
/// (recorded there); the C10 control clause does not re-report them.
fn known_c09_divergence(prefix: &str) -> bool {
    prefix.contains("!!") || prefix.contains('%') || prefix.starts_with("\u{feff}\u{feff}")
}

fn mem_ref<T: DeserializeOwned + Debug>(s: &str, opts: &OptVec) -> Outcome {
    let mut renders = Vec::new();
    lab::canon(guard(|| serde_saphyr::from_str_with_options::<T>(s, opts.to_options())), &mut renders)
}

fn one_cap(
    c: &ReaderCase,
    st: &mut Stats,
    refr: &RRes,
    cap: Option<usize>,
    narrowed: &dyn Fn(Sel) -> Case,
    out: &mut Vec<Viol>,
) {
    let bytes = &c.doc.0;
    let l = bytes.len();
    let mut opts = c.opts.clone();
    #[allow(deprecated)]
    match opts.budget.as_mut() {
        Some(b) => b.max_reader_input_bytes = cap,
        None => return,
    }
    if c.entry == REntry::ReadPlain {
        return; // `read` overrides the cap with None by design
    }
    // the reference for "unaffected" must use the same budget minus the cap
    let mut ref_opts = c.opts.clone();
    #[allow(deprecated)]
    if let Some(b) = ref_opts.budget.as_mut() {
        b.max_reader_input_bytes = None;
    }
    let script = script_with(c);
    let r = run_entry(c, bytes, &opts, &script);
    // (the cap counts raw bytes, byte-order mark included - UTF-8 and UTF-16 alike; only an input that
    // consists of nothing but the mark is left out: no character arrives that could be charged)
    let has_bom = (bytes.starts_with(&[0xEF, 0xBB, 0xBF]) && l <= 3) || (utf16_kind(bytes).is_some() && l <= 2);
    if utf16_kind(bytes).is_some() {
        st.bump("utf16.caps");
    }
    let below = cap.map(|x| x < l).unwrap_or(false);
    note_run(st, &r, below);
    st.bump(match cap {
        None => "cap.none",
        Some(x) if x < l => "fired.cap_below_len",
        Some(x) if x == l => "cap.equal_len",
        Some(_) => "cap.above_len",
    });
    let pulled = r.reader.bytes_out();
    if let Some(x) = cap
        && pulled > x as u64 + PULL_ALLOWANCE
    {
        out.push(Viol {
            property: "C10".into(),
            clause: "pull-bound".into(),
            detail: format!("cap {x}: pulled {pulled} bytes"),
            case: narrowed(Sel::Cap(cap)),
        });
    }
    let _ = refr;
    match cap {
        Some(x) if x < l => {
            if has_bom && x + 3 >= l {
                st.bump("cap.bom_ambiguous_not_asserted");
                return;
            }
            // Exceeding the cap must surface as an error whenever the library really consumes the whole
            // input, which the fault-free run shows: it drained the reader up to and including the
            // end-of-input report. (A call that stops early, e.g. because a scan error after an implicit
            // document end is ignored, never meets the cap.)
            let drained = {
                let rs = refr.reader.st.borrow();
                rs.ended && rs.pos >= l
            };
            if !drained {
                st.bump("cap.not_asserted_reference_stopped_early");
                return;
            }
            let errored = match &r.single {
                Some(o) => o.is_err(),
                None => r.terminated && r.items.iter().any(|o| o.is_err()),
            };
            if !errored {
                out.push(Viol {
                    property: "C10".into(),
                    clause: "cap-not-enforced".into(),
                    detail: format!(
                        "input of {l} bytes, cap {x}: no error (single {:?}, items {:?})",
                        r.single.as_ref().map(|o| o.short()),
                        r.items.iter().map(|o| o.short()).collect::<Vec<_>>()
                    ),
                    case: narrowed(Sel::Cap(cap)),
                });
            }
        }
        _ => {
            let ref2 = run_entry(c, bytes, &ref_opts, &script);
            st.evals += 1;
            if ref2.single != r.single || ref2.items != r.items {
                out.push(Viol {
                    property: "C10".into(),
                    clause: "cap-affects-small-input".into(),
                    detail: format!(
                        "input of {l} bytes, cap {cap:?}: result {:?}/{:?} differs from the uncapped {:?}/{:?}",
                        r.single.as_ref().map(|o| o.short()),
                        r.items.iter().map(|o| o.short()).collect::<Vec<_>>(),
                        ref2.single.as_ref().map(|o| o.short()),
                        ref2.items.iter().map(|o| o.short()).collect::<Vec<_>>()
                    ),
                    case: narrowed(Sel::Cap(cap)),
                });
            }
        }
    }
}

// ------------------------------------------------------------------------------------------------
// Writer side

#[derive(Clone, Debug, Serialize, Deserialize)]
pub enum WVal {
    Json(serde_json::Value),
    Cfg(Cfg),
    Nested(Nested),
    En(En),
    /// Rc-shared strings: [a, a, b] serialised with anchors
    Shared(Vec<String>),
    Lit(String),
    Fold(String),
    Commented(i64, String),
    Flow(Vec<i64>),
    /// one document holding every serializer construct: comments, flow collections, block scalars,
    /// Rc / Arc / weak anchors, enum variants, empty containers, options, multi-line and long strings,
    /// special floats, a space-after field, nested structs, bytes-like sequences
    Rich(RichSeed),
}

#[derive(Clone, Debug, Serialize, Deserialize)]
pub struct RichSeed {
    pub words: Vec<String>,
    pub n: i64,
    pub variant: u8,
}

#[derive(Serialize)]
struct RichInner {
    k: String,
    v: f64,
    opt: Option<bool>,
}

/// A `Serialize` impl that adds context to the serializer's error the way `serialize_with` helpers and
/// transcoders do: the error that comes back is a new `custom` one.
struct Rewrap<T>(T);
impl<T: Serialize> Serialize for Rewrap<T> {
    fn serialize<S: serde::Serializer>(&self, s: S) -> Result<S::Ok, S::Error> {
        self.0
            .serialize(s)
            .map_err(|e| <S::Error as serde::ser::Error>::custom(format!("while writing the wrapped field: {e}")))
    }
}

/// A `Serialize` impl that carries on whatever the serializer answers for an element ("best effort").
struct BestEffort(Vec<i64>);
impl Serialize for BestEffort {
    fn serialize<S: serde::Serializer>(&self, s: S) -> Result<S::Ok, S::Error> {
        use serde::ser::SerializeSeq;
        let mut seq = s.serialize_seq(Some(self.0.len()))?;
        for x in &self.0 {
            let _ = seq.serialize_element(x);
        }
        seq.end()
    }
}

#[derive(Serialize)]
struct Rich {
    best_effort: BestEffort,
    rewrapped: Rewrap<Vec<String>>,
    c: serde_saphyr::Commented<i64>,
    f: serde_saphyr::FlowSeq<Vec<i64>>,
    fm: serde_saphyr::FlowMap<std::collections::BTreeMap<String, i64>>,
    sa: serde_saphyr::SpaceAfter<i64>,
    lit: serde_saphyr::LitString,
    fold: serde_saphyr::FoldString,
    multi: String,
    long: String,
    shared: Vec<serde_saphyr::RcAnchor<String>>,
    arc: (serde_saphyr::ArcAnchor<RichInner>, serde_saphyr::ArcAnchor<RichInner>),
    weak: serde_saphyr::RcWeakAnchor<String>,
    dangling: serde_saphyr::RcWeakAnchor<String>,
    e: Vec<En>,
    empty_v: Vec<i64>,
    empty_m: std::collections::BTreeMap<String, i64>,
    none: Option<i64>,
    unit: (),
    floats: Vec<f64>,
    tricky: Vec<String>,
    inner: RichInner,
    nested: Vec<std::collections::BTreeMap<String, Vec<RichInner>>>,
    tuple: (i64, String, bool),
    ch: char,
}

fn build_rich(seed: &RichSeed) -> Rich {
    use serde_saphyr::*;
    let w = |i: usize| seed.words.get(i % seed.words.len().max(1)).cloned().unwrap_or_else(|| "w".into());
    let s1 = std::rc::Rc::new(w(0));
    let s2 = std::rc::Rc::new(w(1));
    let a1 = std::sync::Arc::new(RichInner { k: w(2), v: 1.5, opt: Some(true) });
    let gone = std::rc::Rc::new("gone".to_string());
    let dangling = RcWeakAnchor::from(&gone);
    drop(gone);
    let mut fm = std::collections::BTreeMap::new();
    fm.insert(w(3), seed.n);
    fm.insert("z".into(), 2);
    let mut nm = std::collections::BTreeMap::new();
    nm.insert(w(4), vec![RichInner { k: w(5), v: -0.0, opt: None }, RichInner { k: "q".into(), v: 2.0, opt: Some(false) }]);
    Rich {
        best_effort: BestEffort(vec![1, seed.n, 3, 4]),
        rewrapped: Rewrap(vec![w(1), w(2)]),
        c: Commented(seed.n, w(6)),
        f: FlowSeq(vec![1, seed.n, 3]),
        fm: FlowMap(fm),
        sa: SpaceAfter(seed.n),
        lit: LitString(format!("{}\n{}\n", w(7), w(8))),
        fold: FoldString((0..24).map(|i| w(i)).collect::<Vec<_>>().join(" ")),
        multi: format!("{}\n  {}\n\n{}", w(9), w(10), w(11)),
        long: (0..40).map(|i| w(i + 3)).collect::<Vec<_>>().join(" "),
        shared: vec![RcAnchor(s1.clone()), RcAnchor(s2.clone()), RcAnchor(s1.clone()), RcAnchor(s2)],
        arc: (ArcAnchor(a1.clone()), ArcAnchor(a1)),
        weak: RcWeakAnchor::from(&s1),
        dangling,
        e: match seed.variant % 3 {
            0 => vec![En::U, En::N(1)],
            1 => vec![En::T(2, w(12)), En::S { a: 3, b: w(13) }],
            _ => vec![],
        },
        empty_v: vec![],
        empty_m: Default::default(),
        none: None,
        unit: (),
        floats: vec![f64::INFINITY, f64::NEG_INFINITY, f64::NAN, 0.1, 1e300, -0.0],
        tricky: vec!["true".into(), "123".into(), "".into(), " lead".into(), "a: b".into(), "# no".into(), "- x".into(), "null".into(), "~".into(), w(14)],
        inner: RichInner { k: w(15), v: 3.25, opt: None },
        nested: vec![nm],
        tuple: (seed.n, w(16), true),
        ch: 'é',
    }
}

#[derive(Clone, Copy, Debug, Serialize, Deserialize, Default)]
pub struct SerOpts {
    pub indent_step: usize,
    pub compact_list_indent: bool,
    pub quote_all: bool,
    pub prefer_block_scalars: bool,
    pub empty_as_braces: bool,
    pub tagged_enums: bool,
    pub yaml_12: bool,
    pub min_fold_chars: usize,
    pub folded_wrap_chars: usize,
}

impl SerOpts {
    pub fn default_like() -> SerOpts {
        SerOpts {
            indent_step: 2,
            compact_list_indent: false,
            quote_all: false,
            prefer_block_scalars: true,
            empty_as_braces: true,
            tagged_enums: false,
            yaml_12: false,
            min_fold_chars: 32,
            folded_wrap_chars: 80,
        }
    }
    #[allow(deprecated)]
    pub fn to_real(self) -> serde_saphyr::SerializerOptions {
        let mut o = serde_saphyr::SerializerOptions::default();
        o.indent_step = self.indent_step;
        o.compact_list_indent = self.compact_list_indent;
        o.quote_all = self.quote_all;
        o.prefer_block_scalars = self.prefer_block_scalars;
        o.empty_as_braces = self.empty_as_braces;
        o.tagged_enums = self.tagged_enums;
        o.yaml_12 = self.yaml_12;
        o.min_fold_chars = self.min_fold_chars;
        o.folded_wrap_chars = self.folded_wrap_chars;
        o
    }
}

#[derive(Clone, Debug, Serialize, Deserialize)]
pub enum WSel {
    /// every write index x kinds x {sticky, transient} x short sizes
    Sweep,
    One(WriterScript),
    /// one script against the fmt-writer entry point
    Fmt(WriterScript),
}

#[derive(Clone, Debug, Serialize, Deserialize)]
pub struct WriterCase {
    pub val: WVal,
    pub opts: SerOpts,
    pub sel: WSel,
}

/// Where a value is serialized to: one generic walk over `WVal` serves every serializer entry point.
trait Sink {
    type Out;
    fn put<T: Serialize>(self, v: &T, so: serde_saphyr::SerializerOptions) -> Self::Out;
}

struct IoSink<'a, W: std::io::Write>(&'a mut W);
impl<W: std::io::Write> Sink for IoSink<'_, W> {
    type Out = Result<(), serde_saphyr::ser::Error>;
    fn put<T: Serialize>(self, v: &T, so: serde_saphyr::SerializerOptions) -> Self::Out {
        serde_saphyr::to_io_writer_with_options(self.0, v, so)
    }
}

struct FmtSink<'a, W: std::fmt::Write>(&'a mut W);
impl<W: std::fmt::Write> Sink for FmtSink<'_, W> {
    type Out = Result<(), serde_saphyr::ser::Error>;
    fn put<T: Serialize>(self, v: &T, so: serde_saphyr::SerializerOptions) -> Self::Out {
        serde_saphyr::to_fmt_writer_with_options(self.0, v, so)
    }
}

struct StrSink;
impl Sink for StrSink {
    type Out = Result<String, serde_saphyr::ser::Error>;
    fn put<T: Serialize>(self, v: &T, so: serde_saphyr::SerializerOptions) -> Self::Out {
        serde_saphyr::to_string_with_options(v, so)
    }
}

fn feed<K: Sink>(val: &WVal, k: K, o: SerOpts) -> K::Out {
    use serde_saphyr::*;
    let so = o.to_real();
    match val {
        WVal::Json(v) => k.put(v, so),
        WVal::Cfg(v) => k.put(v, so),
        WVal::Nested(v) => k.put(v, so),
        WVal::En(v) => k.put(v, so),
        WVal::Shared(v) => {
            let rcs: Vec<RcAnchor<String>> = v.iter().map(|s| RcAnchor::from(std::rc::Rc::new(s.clone()))).collect();
            let mut g = Vec::new();
            for (i, r) in rcs.iter().enumerate() {
                g.push(r.clone());
                if i == 0 {
                    g.push(r.clone());
                }
            }
            k.put(&g, so)
        }
        WVal::Lit(s) => k.put(&LitString(s.clone()), so),
        WVal::Fold(s) => k.put(&FoldString(s.clone()), so),
        WVal::Commented(n, c) => k.put(&Commented(*n, c.clone()), so),
        WVal::Flow(v) => k.put(&FlowSeq(v.clone()), so),
        WVal::Rich(seed) => k.put(&build_rich(seed), so),
    }
}

fn ser_to<W: std::io::Write>(val: &WVal, w: &mut W, o: SerOpts) -> Result<(), serde_saphyr::ser::Error> {
    feed(val, IoSink(w), o)
}

fn ser_ref(val: &WVal, o: SerOpts) -> Result<String, serde_saphyr::ser::Error> {
    feed(val, StrSink, o)
}

/// `fmt::Write` over a SimWriter: one `write_str` is one scripted write; a refused write is `fmt::Error`.
struct FmtAdapter(SimWriter);
impl std::fmt::Write for FmtAdapter {
    fn write_str(&mut self, s: &str) -> std::fmt::Result {
        use std::io::Write as _;
        match self.0.write(s.as_bytes()) {
            Ok(n) if n == s.len() => Ok(()),
            _ => Err(std::fmt::Error),
        }
    }
}

/// The fmt-writer entry point under every write index / byte position: an error comes back and what the
/// writer accepted is a prefix of the fault-free text.
fn sweep_fmt_writer(c: &WriterCase, text: &str, st: &mut Stats, out: &mut Vec<Viol>) {
    let run = |s: &WriterScript| {
        let w = SimWriter::new(s.clone(), (text.len() as u64 + 64) * 8);
        let h = w.clone();
        let mut a = FmtAdapter(w);
        let r = guard(|| feed(&c.val, FmtSink(&mut a), c.opts));
        (r, h)
    };
    let mk = |clause: &str, detail: String, s: &WriterScript| Viol {
        property: "C10".into(),
        clause: clause.into(),
        detail,
        case: Case::C10W(WriterCase {
            val: c.val.clone(),
            opts: c.opts,
            sel: WSel::Fmt(s.clone()),
        }),
    };
    let scripts: Vec<WriterScript> = match &c.sel {
        WSel::Fmt(s) => vec![s.clone()],
        WSel::One(_) => return,
        WSel::Sweep => {
            let (r, h) = run(&WriterScript::default());
            st.evals += 1;
            let n_writes = h.st.borrow().writes as usize;
            if !matches!(r, Ok(Ok(()))) || h.st.borrow().accepted != text.as_bytes() {
                out.push(mk(
                    "writer-faultfree-differs",
                    format!("to_fmt_writer wrote {:?}, to_string gives {text:?}", String::from_utf8_lossy(&h.st.borrow().accepted)),
                    &WriterScript::default(),
                ));
                return;
            }
            let mut v = Vec::new();
            for k in 0..=n_writes {
                for sticky in [true, false] {
                    v.push(WriterScript {
                        fail_at_write: Some(k),
                        sticky,
                        ..Default::default()
                    });
                }
            }
            for b in 0..=text.len() {
                v.push(WriterScript {
                    fail_at_byte: Some(b),
                    sticky: b % 2 == 0,
                    ..Default::default()
                });
            }
            v
        }
    };
    for s in &scripts {
        let (r, h) = run(s);
        st.evals += 1;
        let ws = h.st.borrow();
        st.behaviours.insert(ws.trace_digest ^ 0x5555);
        if !ws.fired {
            st.bump("fmt_writer.no_fault_fired");
            continue;
        }
        st.nontrivial.insert(ws.trace_digest ^ 0x5555);
        st.bump("fired.fmt_write_refused");
        match r {
            Err(a) => out.push(mk("writer-abnormal", format!("to_fmt_writer: {a:?}"), s)),
            Ok(Ok(())) => out.push(mk(
                "writer-fault-swallowed",
                format!("to_fmt_writer: a write was refused after {} bytes but serialization returned Ok", ws.fired_at_len),
                s,
            )),
            Ok(Err(_)) => {}
        }
        // a write refused at byte position b never accepts part of that write, so the accepted text may
        // end inside the refused piece only at its start: still a prefix
        if !text.as_bytes().starts_with(&ws.accepted) {
            out.push(mk(
                "writer-not-a-prefix",
                format!(
                    "to_fmt_writer: writer accepted {:?}, not a prefix of {text:?} ({} bytes accepted after the refusal)",
                    String::from_utf8_lossy(&ws.accepted),
                    ws.bytes_after_fault
                ),
                s,
            ));
        }
        if out.len() > 20 {
            break;
        }
    }
}

pub fn exec_writer(c: &WriterCase, st: &mut Stats) -> Vec<Viol> {
    let mut out = Vec::new();
    let mk = |clause: &str, detail: String, script: &WriterScript| Viol {
        property: "C10".into(),
        clause: clause.into(),
        detail,
        case: Case::C10W(WriterCase {
            val: c.val.clone(),
            opts: c.opts,
            sel: WSel::One(script.clone()),
        }),
    };
    let reference = match guard(|| ser_ref(&c.val, c.opts)) {
        Ok(r) => r,
        Err(a) => {
            out.push(mk("writer-abnormal", format!("to_string: {a:?}"), &WriterScript::default()));
            return out;
        }
    };
    // fault-free run through the io writer
    let free = run_writer(c, &WriterScript::default(), 0);
    st.evals += 1;
    let n_writes = free.1.st.borrow().writes;
    match (&reference, &free.0) {
        (Ok(text), Ok(Ok(()))) => {
            if free.1.st.borrow().accepted != text.as_bytes() {
                out.push(mk(
                    "writer-faultfree-differs",
                    format!("io writer received {:?}, to_string gives {:?}", String::from_utf8_lossy(&free.1.st.borrow().accepted), text),
                    &WriterScript::default(),
                ));
            }
        }
        (Err(_), Ok(Err(_))) => {
            st.bump("writer.ref_is_error");
            return out;
        }
        (r, f) => {
            out.push(mk(
                "writer-faultfree-differs",
                format!("to_string: {:?}; io writer: {:?}", r.as_ref().map(|_| ()), f.as_ref().map(|x| x.as_ref().map(|_| ()).map_err(|e| e.to_string()))),
                &WriterScript::default(),
            ));
            return out;
        }
    }
    let text = reference.unwrap();
    sweep_fmt_writer(c, &text, st, &mut out);
    let scripts: Vec<WriterScript> = match &c.sel {
        WSel::One(s) => vec![s.clone()],
        WSel::Fmt(_) => vec![],
        WSel::Sweep => {
            let mut v = Vec::new();
            let kinds = [
                WriteFaultKind::Err(ErrKind::Other),
                WriteFaultKind::Err(ErrKind::BrokenPipe),
                WriteFaultKind::Err(ErrKind::WouldBlock),
                WriteFaultKind::Zero,
            ];
            for k in 0..=(n_writes as usize + 1) {
                for (ki, kind) in kinds.iter().enumerate() {
                    for sticky in [true, false] {
                        // full-size writes
                        v.push(WriterScript {
                            fail_at_write: Some(k),
                            fault: Some(*kind),
                            sticky,
                            ..Default::default()
                        });
                        if ki == 0 {
                            for short in [1usize, 3] {
                                v.push(WriterScript {
                                    short: Some(short),
                                    fail_at_write: Some(k),
                                    fault: Some(*kind),
                                    sticky,
                                    ..Default::default()
                                });
                            }
                        }
                    }
                }
            }
            // fault positioned by byte, which under short writes lands inside a write_all loop
            for b in 0..=text.len() {
                for short in [None, Some(1usize), Some(3)] {
                    v.push(WriterScript {
                        short,
                        fail_at_byte: Some(b),
                        fault: Some(WriteFaultKind::Err(ErrKind::ConnectionReset)),
                        sticky: b % 2 == 0,
                        ..Default::default()
                    });
                }
            }
            // short writes alone (no fault) must not change the output
            for short in [1usize, 3] {
                v.push(WriterScript {
                    short: Some(short),
                    ..Default::default()
                });
            }
            v
        }
    };
    let limit = (text.len() as u64 + n_writes + 8) * 4;
    for s in &scripts {
        let (res, w) = run_writer(c, s, limit);
        st.evals += 1;
        st.schedules.insert(crate::rng::fnv(serde_json::to_string(s).unwrap().as_bytes()));
        let ws = w.st.borrow();
        st.behaviours.insert(ws.trace_digest);
        st.add("steps.write_calls", ws.writes);
        let res = match res {
            Ok(r) => r,
            Err(a) => {
                out.push(mk("writer-abnormal", format!("{a:?}"), s));
                continue;
            }
        };
        st.note(&format!("{:?}|{}|{}", res.as_ref().map_err(|e| e.to_string()), ws.accepted.len(), ws.fired));
        if !ws.fired {
            st.bump("writer.no_fault_fired");
            if res.is_err() || ws.accepted != text.as_bytes() {
                out.push(mk(
                    "writer-faultfree-differs",
                    format!("no fault fired (script {s:?}) but result {:?} / {} bytes vs {}", res.as_ref().map_err(|e| e.to_string()), ws.accepted.len(), text.len()),
                    s,
                ));
            }
            continue;
        }
        st.nontrivial.insert(ws.trace_digest);
        match s.fault {
            Some(WriteFaultKind::Zero) => st.bump("fired.write_zero"),
            Some(WriteFaultKind::Err(k)) => st.bump(&format!("fired.write_err.{}", k.name())),
            None => st.bump("fired.write_err.Other"),
        }
        st.bump(if s.sticky { "fired.write.sticky" } else { "fired.write.transient" });
        if s.short.is_some() {
            st.bump("fired.short_write");
        }
        let want_kind = match s.fault.unwrap_or(WriteFaultKind::Err(ErrKind::Other)) {
            WriteFaultKind::Err(k) => k.to_io(),
            WriteFaultKind::Zero => std::io::ErrorKind::WriteZero,
        };
        match &res {
            Ok(()) => out.push(mk(
                "writer-fault-swallowed",
                format!("write fault fired after {} bytes but serialization returned Ok", ws.fired_at_len),
                s,
            )),
            Err(serde_saphyr::ser::Error::IO { error }) => {
                if error.kind() != want_kind {
                    out.push(mk(
                        "writer-wrong-io-error",
                        format!("injected {want_kind:?}, got {:?}", error.kind()),
                        s,
                    ));
                } else if !matches!(s.fault, Some(WriteFaultKind::Zero)) && !error.to_string().contains(SIM_ERR_MSG) {
                    out.push(mk("writer-wrong-io-error", format!("error message lost: {error}"), s));
                }
            }
            Err(e) => out.push(mk(
                "writer-wrong-io-error",
                format!("expected ser::Error::IO, got {e:?}"),
                s,
            )),
        }
        if !text.as_bytes().starts_with(&ws.accepted) {
            out.push(mk(
                "writer-not-a-prefix",
                format!(
                    "writer accepted {:?}, not a prefix of {:?} ({} bytes accepted after the fault)",
                    String::from_utf8_lossy(&ws.accepted),
                    text,
                    ws.bytes_after_fault
                ),
                s,
            ));
        }
        if out.len() > 20 {
            break;
        }
    }
    out
}

fn run_writer(
    c: &WriterCase,
    s: &WriterScript,
    limit: u64,
) -> (Result<Result<(), serde_saphyr::ser::Error>, Abnormal>, SimWriter) {
    let mut w = SimWriter::new(s.clone(), limit);
    let h = w.clone();
    let r = guard(|| ser_to(&c.val, &mut w, c.opts));
    (r, h)
}

// ------------------------------------------------------------------------------------------------
// Case generation

fn gen_wval(rng: &mut Rng) -> WVal {
    fn to_json(n: &wl::Node) -> serde_json::Value {
        use serde_json::Value as V;
        match n {
            wl::Node::Null => V::Null,
            wl::Node::Bool(b) => V::Bool(*b),
            wl::Node::Int(i) => V::from(*i),
            wl::Node::Float(f) => f.parse::<f64>().ok().and_then(|x| serde_json::Number::from_f64(x).map(V::Number)).unwrap_or(V::from(1.25)),
            wl::Node::Str(s) | wl::Node::Raw(s) => V::String(s.clone()),
            wl::Node::Seq(v) => V::Array(v.iter().map(to_json).collect()),
            wl::Node::Map(m) => V::Object(m.iter().map(|(k, v)| (k.clone(), to_json(v))).collect()),
        }
    }
    match rng.below(12) {
        0 => WVal::Cfg(Cfg {
            name: wl::gen_string(rng),
            n: rng.below(1000) as i32 - 500,
            flag: if rng.chance(1, 2) { Some(rng.chance(1, 2)) } else { None },
            list: (0..rng.below(5)).map(|_| rng.below(100) as i64).collect(),
        }),
        1 => WVal::Nested(Nested {
            id: rng.below(100) as u32,
            inner: Inner { k: wl::gen_string(rng), v: 1.5 },
            items: (0..rng.below(3)).map(|_| Inner { k: wl::gen_string(rng), v: rng.below(10) as f64 / 4.0 }).collect(),
        }),
        2 => match rng.below(4) {
            0 => WVal::En(En::U),
            1 => WVal::En(En::N(rng.below(9) as i32)),
            2 => WVal::En(En::T(3, wl::gen_string(rng))),
            _ => WVal::En(En::S { a: 1, b: wl::gen_string(rng) }),
        },
        3 => WVal::Shared((0..rng.range(1, 3)).map(|_| wl::gen_string(rng)).collect()),
        4 => WVal::Lit(format!("{}\n{}\n", wl::gen_string(rng), wl::gen_string(rng))),
        5 => {
            let mut s = String::new();
            for _ in 0..rng.range(5, 40) {
                s.push_str(&**rng.pick(wl::WORDS));
                s.push(' ');
            }
            WVal::Fold(s)
        }
        6 => WVal::Commented(rng.below(100) as i64, wl::gen_string(rng)),
        7 => WVal::Flow((0..rng.below(6)).map(|_| rng.below(100) as i64).collect()),
        8 | 9 => WVal::Rich(RichSeed {
            words: (0..rng.range(3, 8)).map(|_| wl::gen_string(rng)).collect(),
            n: rng.below(1000) as i64 - 500,
            variant: rng.below(3) as u8,
        }),
        _ => WVal::Json(to_json(&wl::gen_json(rng, 3))),
    }
}

fn gen_seropts(rng: &mut Rng) -> SerOpts {
    let mut o = SerOpts::default_like();
    if rng.chance(1, 2) {
        return o;
    }
    o.indent_step = *rng.pick(&[1, 2, 3, 4, 8, 0]);
    o.compact_list_indent = rng.chance(1, 2);
    o.quote_all = rng.chance(1, 4);
    o.prefer_block_scalars = rng.chance(1, 2);
    o.empty_as_braces = rng.chance(1, 2);
    o.tagged_enums = rng.chance(1, 3);
    o.yaml_12 = rng.chance(1, 3);
    o.min_fold_chars = *rng.pick(&[0, 8, 32, 1000]);
    o.folded_wrap_chars = *rng.pick(&[1, 10, 80, 200]);
    o
}

/// Length of `body` up to the last byte of document content: trailing blank lines, comment lines and a
/// trailing comment on the last content line do not belong to the content (a fault inside them cannot
/// truncate the document).
pub fn content_len(body: &str) -> usize {
    let mut end = body.len();
    loop {
        let head = &body[..end];
        let line_start = head.rfind('\n').map(|i| i + 1).unwrap_or(0);
        let line = &head[line_start..];
        let t = line.trim();
        if t.is_empty() || t.starts_with('#') || t == "..." || t.starts_with("... ") {
            if line_start == 0 {
                return 0;
            }
            end = line_start - 1; // drop the line and its line break
            while end > 0 && body.as_bytes()[end - 1] == b'\r' {
                end -= 1;
            }
            continue;
        }
        // strip a trailing comment (" #" outside quotes)
        let mut in_dq = false;
        let mut in_sq = false;
        let mut prev_blank = true;
        let mut cut = line.len();
        let mut it = line.char_indices().peekable();
        while let Some((i, c)) = it.next() {
            match c {
                '\\' if in_dq => {
                    it.next();
                }
                '"' if !in_sq => in_dq = !in_dq,
                '\'' if !in_dq => in_sq = !in_sq,
                '#' if !in_dq && !in_sq && prev_blank => {
                    cut = i;
                    break;
                }
                _ => {}
            }
            prev_blank = c == ' ' || c == '\t';
        }
        return line_start + line[..cut].trim_end().len();
    }
}

/// Build a stream of valid documents for `target`, with the span of each document's text.
pub fn gen_stream(target: Target, rng: &mut Rng, ndocs: usize) -> (String, Vec<(usize, usize)>) {
    let mut s = String::new();
    let mut spans = Vec::new();
    let st = wl::Style::random(rng);
    for i in 0..ndocs {
        if i > 0 || rng.chance(1, 3) {
            s.push_str("---\n");
        }
        let mut body;
        loop {
            // now and then a document of another shape: a type-level error the iterator recovers from
            let wrong = target != Target::Json && rng.chance(1, 7);
            let node = if wrong {
                wl::gen_for(if matches!(target, Target::VecI | Target::Tup) { Target::Map } else { Target::VecI }, rng)
            } else {
                wl::gen_for(target, rng)
            };
            body = wl::render(&node, rng, &st);
            // skip null-like documents: the iterator drops them and the item/document mapping would shift
            let t = body.trim();
            if !(t.is_empty() || t == "~" || t.eq_ignore_ascii_case("null") || t.starts_with('#')) {
                break;
            }
            if !matches!(target, Target::Json | Target::OptS | Target::Unit) {
                break;
            }
        }
        let start = s.len();
        s.push_str(&body);
        // the document is complete once its last content byte has been delivered
        let end = start + content_len(&body);
        spans.push((start, end));
        if rng.chance(1, 6) {
            s.push_str("...\n");
        }
    }
    (s, spans)
}

const ITER_TARGETS: [Target; 10] = [
    // lenient targets: a failure shown to them is swallowed, the iterator must report it all the same
    Target::LenientRoot,
    Target::LenientVec,
    Target::LenientRoot,
    Target::Json,
    Target::Cfg,
    Target::Nested,
    Target::VecI,
    Target::Map,
    Target::En,
    Target::Str,
];

fn vcfg_doc(rng: &mut Rng) -> String {
    let st = wl::Style::random(rng);
    let node = wl::Node::Map(vec![
        ("name".into(), wl::Node::Str(wl::gen_string(rng))),
        ("n".into(), wl::Node::Int(rng.below(2000) as i64)),
        (
            "list".into(),
            wl::Node::Seq((0..rng.below(4)).map(|_| wl::Node::Int(rng.below(50) as i64)).collect()),
        ),
    ]);
    wl::render(&node, rng, &st)
}

fn gen_opts(rng: &mut Rng) -> OptVec {
    OptVec::random(rng)
}

pub struct Plan {
    pub corpus: Vec<(String, Target)>,
}

impl Plan {
    pub fn new() -> Plan {
        Plan { corpus: wl::corpus() }
    }
}

pub fn total(tier: Tier) -> u64 {
    match tier {
        Tier::Quick => 6100,
        Tier::Thorough => 40_000,
    }
}

/// idx -> explicit case. The first block walks the hand corpus systematically, the rest is generated.
pub fn gen_case(plan: &Plan, tier: Tier, seed: u64, idx: u64) -> Case {
    let mut rng = Rng::for_case(seed, "C10", idx);
    let ncorp = plan.corpus.len() as u64;
    let all_kinds = HARD_KINDS.to_vec();
    let all_afters = vec![After::Sticky, After::ThenEof, After::ThenResume];
    // writer cases: every 5th index
    if idx % 5 == 4 {
        return Case::C10W(WriterCase {
            val: gen_wval(&mut rng),
            opts: gen_seropts(&mut rng),
            sel: WSel::Sweep,
        });
    }
    let slot = idx / 5 * 4 + idx % 5; // dense index over reader cases
    // systematic block for the validating copies of the reader code: a small corpus of VCfg documents
    // (valid, failing validation, two documents, null first document) x 4 entry points x 3 sweeps
    const VDOCS: [&str; 8] = [
        "name: x\nn: 5\n",
        "name: héllo\nn: 7\nlist: [1, 2, 3]\n",
        "name: ''\nn: 5000\n",
        "{name: q, n: 1}",
        "name: a\nn: 1\n---\nname: b\nn: 2\n",
        "~\n---\nname: c\nn: 3\n...\n",
        "\u{feff}name: bom\nn: 2\n",
        "name: x\nn: notanumber\n---\nname: y\nn: 4\n",
    ];
    let vslots = (VDOCS.len() * 4 * 3) as u64;
    if slot >= ncorp * 8 * 4 && slot < ncorp * 8 * 4 + vslots {
        let w = (slot - ncorp * 8 * 4) as usize;
        let text = VDOCS[w % VDOCS.len()];
        let entry = VALID_ENTRIES[(w / VDOCS.len()) % 4];
        let sel = match w / (VDOCS.len() * 4) {
            0 => Sel::SweepFaults {
                kinds: vec![ErrKind::Other, ErrKind::UnexpectedEof, ErrKind::WouldBlock],
                afters: all_afters.clone(),
            },
            1 => Sel::SweepEof,
            _ => Sel::SweepReads {
                kinds: vec![ErrKind::Other, ErrKind::ConnectionReset],
                afters: all_afters.clone(),
            },
        };
        // spans: only single-document texts carry a meaningful table
        let spans = if text.contains("---") { vec![] } else { vec![(0, content_len(text))] };
        return Case::C10R(ReaderCase {
            doc: Doc::from_str(text),
            doc_spans: spans,
            target: Target::Cfg,
            entry,
            opts: OptVec::default(),
            chunking: [Chunking::Fixed(1), Chunking::Whole, Chunking::Fixed(3)][w % 3].clone(),
            sel,
        });
    }
    // systematic block for UTF-16 input (goes through the transcoding decoder): documents re-encoded
    // little- and big-endian x 2 entry points x 4 sweeps
    const U16_DOCS: [&str; 9] = [
        // the mark written twice (the text begins with U+FEFF and the encoding adds its own)
        "\u{feff}a: 1\n",
        "a: 1\n",
        "key: café 😀\n",
        "- a\n- 😀",
        "name: héllo\nn: 7\nlist: [1, 2, 3]\n",
        "k: \"q\\u00e9 日本語\"\n",
        "a: 1\n---\nb: é\n---\nc: 😀😀\n",
        "x: &a [1, 2]\ny: *a\n",
        "t: |\n  line é\n  𝄞 clef\n",
    ];
    let ustart = ncorp * 8 * 4 + vslots;
    let uslots = (U16_DOCS.len() * 2 * 2 * 4) as u64;
    if slot >= ustart && slot < ustart + uslots {
        let w = (slot - ustart) as usize;
        let text = U16_DOCS[w % U16_DOCS.len()];
        let be = (w / U16_DOCS.len()) % 2 == 1;
        let entry = [REntry::FromReader, REntry::Read][(w / (U16_DOCS.len() * 2)) % 2];
        let sel = match w / (U16_DOCS.len() * 4) {
            0 => Sel::SweepEof,
            1 => Sel::SweepFaults {
                kinds: vec![ErrKind::Other, ErrKind::UnexpectedEof],
                afters: all_afters.clone(),
            },
            2 => Sel::SweepCap,
            _ => Sel::SweepReads {
                kinds: vec![ErrKind::Other],
                afters: all_afters.clone(),
            },
        };
        let (bytes, map) = to_utf16(text, be);
        let spans = if text.contains("---") {
            // three documents separated by `---` lines
            let mut v = Vec::new();
            let mut start = 0usize;
            for part in text.split("---\n") {
                v.push((map(start), map(start + content_len(part))));
                start += part.len() + 4;
            }
            v
        } else {
            vec![(map(0), map(content_len(text)))]
        };
        return Case::C10R(ReaderCase {
            doc: Doc(bytes),
            doc_spans: spans,
            target: Target::Json,
            entry,
            opts: OptVec::default(),
            chunking: [Chunking::Fixed(1), Chunking::Whole, Chunking::Fixed(3), Chunking::Fixed(2)][w % 4].clone(),
            sel,
        });
    }
    // choose document / stream, target, entry
    let block = slot / (ncorp * 8);
    let systematic = block < 4;
    let (doc, spans, target, entry) = if systematic {
        let within = slot % (ncorp * 8);
        let d = (within % ncorp) as usize;
        let e = (within / ncorp) as usize; // 0..8
        let (text, t) = plan.corpus[d].clone();
        let entry = [
            REntry::FromReader,
            REntry::WdReader,
            REntry::Read,
            REntry::ReadPlain,
            REntry::FromReader,
            REntry::Read,
            REntry::WdReaderSkip,
            REntry::ReadPlain,
        ][e];
        let target = if e >= 4 { Target::Json } else { t };
        let l = content_len(&text);
        let spans = vec![(0, l)];
        (text, spans, target, entry)
    } else {
        let validating = rng.chance(1, 4);
        if validating {
            let entry = *rng.pick(&VALID_ENTRIES);
            if entry.is_iter() {
                let n = rng.range(1, 3);
                let mut s = String::new();
                let mut spans = Vec::new();
                for i in 0..n {
                    if i > 0 {
                        s.push_str("---\n");
                    }
                    let b = vcfg_doc(&mut rng);
                    let start = s.len();
                    s.push_str(&b);
                    spans.push((start, start + content_len(&b)));
                }
                (s, spans, Target::Cfg, entry)
            } else {
                let b = vcfg_doc(&mut rng);
                let l = content_len(&b);
                (b, vec![(0, l)], Target::Cfg, entry)
            }
        } else {
            let entry = *rng.pick(&PLAIN_ENTRIES);
            if entry.is_iter() {
                let t = *rng.pick(&ITER_TARGETS);
                let n = rng.range(1, 4);
                let (s, spans) = gen_stream(t, &mut rng, n);
                (s, spans, t, entry)
            } else {
                let t = *rng.pick(&ALL_TARGETS);
                let s = wl::gen_doc(t, &mut rng);
                let l = content_len(&s);
                (s, vec![(0, l)], t, entry)
            }
        }
    };
    let bytes = doc.as_bytes();
    let chunking = if systematic {
        let e = ((slot % (ncorp * 8)) / ncorp) as usize;
        [
            Chunking::Fixed(1),
            Chunking::Whole,
            Chunking::Fixed(2),
            Chunking::Fixed(5),
            Chunking::Whole,
            Chunking::Fixed(1),
            Chunking::Fixed(3),
            Chunking::Fixed(7),
        ][e]
        .clone()
    } else {
        wl::gen_chunking(bytes, &mut rng)
    };
    let sel = if systematic {
        match block {
            0 => Sel::SweepFaults {
                kinds: all_kinds.clone(),
                afters: all_afters.clone(),
            },
            1 => Sel::SweepEof,
            2 => Sel::SweepCap,
            _ => Sel::SweepReads {
                kinds: vec![ErrKind::Other, ErrKind::ConnectionReset, ErrKind::UnexpectedEof],
                afters: all_afters.clone(),
            },
        }
    } else {
        match rng.below(10) {
            0 | 1 => Sel::SweepEof,
            2 => Sel::SweepCap,
            3 if entry != REntry::ReadPlain => Sel::Endless {
                frag: Doc::from_str(*rng.pick(&["- a\n", "k: v\n", "---\nx: 1\n", "# c\n", "é: ü\n"])),
                cap: *rng.pick(&[Some(0usize), Some(100), Some(5000), Some(70_000)]),
            },
            4 => Sel::SweepFaults {
                kinds: all_kinds.clone(),
                afters: all_afters.clone(),
            },
            5 => Sel::SweepReads {
                kinds: vec![*rng.pick(&HARD_KINDS), ErrKind::Other],
                afters: all_afters.clone(),
            },
            _ => Sel::SweepFaults {
                kinds: vec![*rng.pick(&HARD_KINDS), ErrKind::Other],
                afters: all_afters.clone(),
            },
        }
    };
    let _ = tier;
    let opts = if systematic && rng.chance(3, 4) { OptVec::default() } else { gen_opts(&mut rng) };
    if !systematic && rng.chance(1, 25) && !entry.is_validating() && entry != REntry::ReadPlain {
        // the cap is crossed inside one long token: the pull bound must hold there too
        let n = *rng.pick(&[40_000usize, 100_000, 250_000]);
        let d = match rng.below(4) {
            0 => format!("k: {}\n", "x".repeat(n)),
            1 => format!("k: \"{}\"\n", "é".repeat(n / 2)),
            2 => format!("# {}\nk: 1\n", "c".repeat(n)),
            _ => format!("k: |\n  {}\n", "y".repeat(n)),
        };
        return Case::C10R(ReaderCase {
            doc_spans: vec![(0, d.trim_end().len())],
            doc: Doc::from_str(&d),
            target: Target::Json,
            entry,
            opts: OptVec::default(),
            chunking,
            sel: Sel::Cap(Some(*rng.pick(&[0usize, 100, 1000, 9000]))),
        });
    }
    if let Sel::Endless { cap, .. } = &sel {
        // Endless input must continue the document (or the stream) validly, so that the parse cannot end
        // before the cap is met: (document, repeated fragment) pairs by construction.
        let (d, f) = *rng.pick(&[
            ("- 0\n", "- a\n"),
            ("a: 1\n", "k: v\n"),
            ("a: 1\n", "# c\n"),
            ("a: 1\n", "é: ü\n"),
            ("x: 1\n", "---\nx: 1\n"),
            ("t: |\n", "  line é\n"),
        ]);
        let entry = if entry.is_validating() { REntry::FromReader } else { entry };
        return Case::C10R(ReaderCase {
            doc: Doc::from_str(d),
            doc_spans: vec![(0, d.len())],
            target: Target::Json,
            entry,
            opts,
            chunking,
            sel: Sel::Endless {
                frag: Doc::from_str(f),
                cap: *cap,
            },
        });
    }
    // one generated case in ten arrives as UTF-16 (byte-order mark + transcoding decoder)
    // (a text that itself starts with U+FEFF would carry two marks: which of them are content is C09's
    // business, F08)
    if !systematic && rng.chance(1, 10) && !doc.starts_with('\u{feff}') {
        let (b16, map) = to_utf16(&doc, rng.chance(1, 2));
        let spans16: Vec<(usize, usize)> = spans.iter().map(|(a, b)| (map(*a), map(*b))).collect();
        let chunking = wl::gen_chunking(&b16, &mut rng);
        return Case::C10R(ReaderCase {
            doc: Doc(b16),
            doc_spans: spans16,
            target,
            entry,
            opts,
            chunking,
            sel,
        });
    }
    Case::C10R(ReaderCase {
        doc: Doc(bytes.to_vec()),
        doc_spans: spans,
        target,
        entry,
        opts,
        chunking,
        sel,
    })
}

// ------------------------------------------------------------------------------------------------
// Shrinking

pub fn shrink_doc_candidates(doc: &[u8]) -> Vec<Vec<u8>> {
    let mut out = Vec::new();
    let Ok(s) = std::str::from_utf8(doc) else {
        // drop halves / single bytes
        if doc.len() > 1 {
            out.push(doc[..doc.len() / 2].to_vec());
            out.push(doc[doc.len() / 2..].to_vec());
        }
        for i in 0..doc.len().min(64) {
            let mut d = doc.to_vec();
            d.remove(i);
            out.push(d);
        }
        return out;
    };
    // drop lines
    let lines: Vec<&str> = s.split_inclusive('\n').collect();
    if lines.len() > 1 {
        for i in 0..lines.len() {
            let t: String = lines.iter().enumerate().filter(|(j, _)| *j != i).map(|(_, l)| *l).collect();
            out.push(t.into_bytes());
        }
    }
    // drop characters (bounded)
    let chars: Vec<char> = s.chars().collect();
    if chars.len() <= 80 {
        for i in 0..chars.len() {
            let t: String = chars.iter().enumerate().filter(|(j, _)| *j != i).map(|(_, c)| *c).collect();
            out.push(t.into_bytes());
        }
    } else {
        out.push(chars[..chars.len() / 2].iter().collect::<String>().into_bytes());
        out.push(chars[chars.len() / 2..].iter().collect::<String>().into_bytes());
    }
    out
}

pub fn shrink_reader(c: &ReaderCase) -> Vec<Case> {
    let mut out = Vec::new();
    let mut push = |n: ReaderCase| out.push(Case::C10R(n));
    // simpler chunking
    if c.chunking != Chunking::Whole {
        let mut n = c.clone();
        n.chunking = Chunking::Whole;
        push(n);
        if c.chunking != Chunking::Fixed(1) {
            let mut n = c.clone();
            n.chunking = Chunking::Fixed(1);
            push(n);
        }
    }
    // default options
    if !c.opts.is_default() {
        let mut n = c.clone();
        n.opts = OptVec::default();
        push(n);
    }
    // simpler fault
    if let Sel::Fault(f) = &c.sel {
        if f.after != After::Sticky {
            let mut n = c.clone();
            n.sel = Sel::Fault(ReadFault { after: After::Sticky, ..*f });
            push(n);
        }
        if f.kind != ErrKind::Other {
            let mut n = c.clone();
            n.sel = Sel::Fault(ReadFault { kind: ErrKind::Other, ..*f });
            push(n);
        }
    }
    if c.target != Target::Json && !c.entry.is_validating() {
        let mut n = c.clone();
        n.target = Target::Json;
        push(n);
    }
    // shorter documents: only when spans do not matter (single document) — keep position-type selectors in range
    if c.doc_spans.len() <= 1 {
        for d in shrink_doc_candidates(&c.doc.0) {
            let removed_before = |pos: usize| -> usize {
                // map a byte position to the shrunk document conservatively: clamp
                pos.min(d.len())
            };
            let mut n = c.clone();
            n.sel = match &c.sel {
                Sel::Fault(f) => Sel::Fault(ReadFault {
                    pos: match f.pos {
                        FaultPos::AtByte(k) => FaultPos::AtByte(removed_before(k)),
                        p => p,
                    },
                    ..*f
                }),
                Sel::EofAt(k) => Sel::EofAt(removed_before(*k)),
                s => s.clone(),
            };
            n.doc_spans = vec![(0, content_len(&String::from_utf8_lossy(&d)))];
            n.doc = Doc(d);
            push(n);
        }
    }
    // move the fault earlier
    if let Sel::Fault(f) = &c.sel
        && let FaultPos::AtByte(k) = f.pos
        && k > 0
    {
        for nk in [0, k / 2, k - 1] {
            let mut n = c.clone();
            n.sel = Sel::Fault(ReadFault { pos: FaultPos::AtByte(nk), ..*f });
            push(n);
        }
    }
    out
}

pub fn shrink_writer(c: &WriterCase) -> Vec<Case> {
    let mut out = Vec::new();
    let d = SerOpts::default_like();
    if serde_json::to_string(&c.opts).ok() != serde_json::to_string(&d).ok() {
        out.push(Case::C10W(WriterCase { val: c.val.clone(), opts: d, sel: c.sel.clone() }));
    }
    if let WVal::Json(v) = &c.val {
        match v {
            serde_json::Value::Array(a) => {
                for i in 0..a.len() {
                    let mut b = a.clone();
                    b.remove(i);
                    out.push(Case::C10W(WriterCase { val: WVal::Json(serde_json::Value::Array(b)), opts: c.opts, sel: c.sel.clone() }));
                    out.push(Case::C10W(WriterCase { val: WVal::Json(a[i].clone()), opts: c.opts, sel: c.sel.clone() }));
                }
            }
            serde_json::Value::Object(m) => {
                for k in m.keys() {
                    let mut b = m.clone();
                    b.remove(k);
                    out.push(Case::C10W(WriterCase { val: WVal::Json(serde_json::Value::Object(b)), opts: c.opts, sel: c.sel.clone() }));
                    out.push(Case::C10W(WriterCase { val: WVal::Json(m[k].clone()), opts: c.opts, sel: c.sel.clone() }));
                }
            }
            serde_json::Value::String(s) if s.len() > 1 => {
                out.push(Case::C10W(WriterCase { val: WVal::Json(serde_json::Value::String("a".into())), opts: c.opts, sel: c.sel.clone() }));
            }
            _ => {}
        }
    } else {
        out.push(Case::C10W(WriterCase { val: WVal::Json(serde_json::json!(["a", 1])), opts: c.opts, sel: c.sel.clone() }));
    }
    if let WSel::One(s) = &c.sel {
        if s.short.is_some() {
            let mut n = s.clone();
            n.short = None;
            out.push(Case::C10W(WriterCase { val: c.val.clone(), opts: c.opts, sel: WSel::One(n) }));
        }
        if let Some(k) = s.fail_at_write
            && k > 0
        {
            let mut n = s.clone();
            n.fail_at_write = Some(k - 1);
            out.push(Case::C10W(WriterCase { val: c.val.clone(), opts: c.opts, sel: WSel::One(n) }));
            let mut n = s.clone();
            n.fail_at_write = Some(0);
            out.push(Case::C10W(WriterCase { val: c.val.clone(), opts: c.opts, sel: WSel::One(n) }));
        }
    }
    out
}
