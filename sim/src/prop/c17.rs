//! C17 — rendered error reports: total, terminal-safe, cropped, right line, caret under the reported column.
//! The reader-window channel (RingReader contents depend on the chunk schedule and on a read-ahead that
//! runs while the error is constructed) is simulated with SimReader schedules and faults.

use crate::case::{Case, Doc, Stats, Tier, Viol};
use crate::io::*;
use crate::lab::{self, guard};
use crate::rng::Rng;
use crate::wl;
use serde::{Deserialize, Serialize};
use std::collections::BTreeMap;
use unicode_width::UnicodeWidthChar;
use validator::Validate as _;

#[derive(Clone, Copy, Debug, Serialize, Deserialize, PartialEq, Eq)]
pub enum RTarget {
    /// BTreeMap<String, Vec<i32>>
    MapVec,
    /// BTreeMap<String, i32>
    MapInt,
    /// struct with fields k1..k7, deny_unknown_fields
    Strict,
    /// enum E { Alpha, Beta } inside a map value: BTreeMap<String, E>
    MapEnum,
    Json,
    /// garde-validated map of items (validation paths reflect map keys of the input)
    GardeMap,
    /// validator-validated list of items
    ValidatorList,
    /// struct whose k3 / k5 are bool and the rest i32: an anchored number aliased into a bool field gives
    /// an error with two locations (use site and definition)
    TwoLoc,
}

#[derive(Clone, Debug, Serialize, Deserialize)]
pub enum REntry {
    Str,
    /// the same text through from_multiple (its own snippet attachment)
    StrMulti,
    /// ... and through the string closure helper
    WdStr,
    /// the text is a string field of an outer document read with the string closure helper; the closure
    /// deserializes the outer document and then the embedded text with `from_str`, and returns that error
    WdNested,
    Reader { chunking: Chunking, faults: Vec<ReadFault> },
}

impl REntry {
    pub fn is_string(&self) -> bool {
        matches!(self, REntry::Str | REntry::StrMulti | REntry::WdStr | REntry::WdNested)
    }
}

#[derive(Clone, Debug, Serialize, Deserialize)]
pub struct RenderCase {
    pub doc: Doc,
    pub target: RTarget,
    pub radius: usize,
    pub with_snippet: bool,
    pub entry: REntry,
    /// reader entries only: the text arrives as UTF-16 (Some(big_endian)) with a byte-order mark, so the
    /// recent-bytes window in front of the decoder holds UTF-16
    #[serde(default)]
    pub utf16: Option<bool>,
}

/// the bytes a reader entry delivers
fn reader_bytes(c: &RenderCase) -> Vec<u8> {
    match (c.utf16, c.doc.as_str()) {
        (Some(be), Some(text)) => crate::prop::c10::to_utf16(text, be).0,
        _ => c.doc.0.clone(),
    }
}

/// the text that the first `pos` delivered bytes hold
fn delivered_text(c: &RenderCase, pos: usize) -> Vec<u8> {
    let raw = reader_bytes(c);
    let raw = &raw[..pos.min(raw.len())];
    match c.utf16 {
        Some(be) if c.doc.as_str().is_some() => {
            let units: Vec<u16> = raw
                .get(2..)
                .unwrap_or(&[])
                .chunks_exact(2)
                .map(|p| if be { u16::from_be_bytes([p[0], p[1]]) } else { u16::from_le_bytes([p[0], p[1]]) })
                .collect();
            String::from_utf16_lossy(&units).into_bytes()
        }
        _ => raw.to_vec(),
    }
}

#[derive(Debug, Deserialize)]
#[serde(deny_unknown_fields)]
#[allow(dead_code)]
struct Strict {
    #[serde(default)]
    k1: i32,
    #[serde(default)]
    k2: i32,
    #[serde(default)]
    k3: i32,
    #[serde(default)]
    k4: i32,
    #[serde(default)]
    k5: i32,
    #[serde(default)]
    k6: i32,
    #[serde(default)]
    k7: i32,
}

#[derive(Debug, Deserialize, garde::Validate, validator::Validate)]
#[allow(dead_code)]
struct VItem {
    #[garde(range(max = 10))]
    #[validate(range(max = 10))]
    n: i32,
    #[garde(length(max = 6))]
    #[validate(length(max = 6))]
    #[serde(default)]
    s: String,
}

#[derive(Debug, Deserialize, garde::Validate)]
#[allow(dead_code)]
struct GardeMapDoc {
    #[garde(dive)]
    m: BTreeMap<String, VItem>,
}

#[derive(Debug, Deserialize, validator::Validate)]
#[allow(dead_code)]
struct ValidatorListDoc {
    #[validate(nested)]
    items: Vec<VItem>,
}

#[derive(Debug, Deserialize)]
#[allow(dead_code)]
struct TwoLoc {
    #[serde(default)]
    k1: i32,
    #[serde(default)]
    k2: i32,
    #[serde(default)]
    k3: bool,
    #[serde(default)]
    k4: i32,
    #[serde(default)]
    k5: bool,
    #[serde(default)]
    k6: i32,
    #[serde(default)]
    k7: i32,
    #[serde(default)]
    k8: i32,
    #[serde(default)]
    k9: i32,
    #[serde(default)]
    k10: i32,
    #[serde(default)]
    k11: i32,
    #[serde(default)]
    k12: bool,
    #[serde(default)]
    k13: i32,
    #[serde(default)]
    k14: i32,
    #[serde(default)]
    k15: bool,
    #[serde(default)]
    k16: i32,
}

#[derive(Debug, Deserialize)]
#[allow(dead_code)]
enum E {
    Alpha,
    Beta,
}

thread_local! {
    static LAST_READER: std::cell::RefCell<Option<SimReader>> = const { std::cell::RefCell::new(None) };
}

#[derive(Serialize, Deserialize)]
struct NestOuter {
    k1: i32,
    k2_a_line_much_longer_than_the_lines_of_the_embedded_text_so_that_columns_of_it_exist_here: i32,
    k3: Vec<i32>,
    embedded: String,
    k5: i32,
}

fn parse(c: &RenderCase) -> Option<Result<(), serde_saphyr::Error>> {
    LAST_READER.with(|l| *l.borrow_mut() = None);
    #[allow(deprecated)]
    let opts = serde_saphyr::options! { crop_radius: c.radius, with_snippet: c.with_snippet };
    macro_rules! go {
        ($t:ty) => {
            match &c.entry {
                REntry::Str => match c.doc.as_str() {
                    Some(s) => guard(|| serde_saphyr::from_str_with_options::<$t>(s, opts).map(|_| ())).ok(),
                    None => guard(|| serde_saphyr::from_slice_with_options::<$t>(&c.doc.0, opts).map(|_| ())).ok(),
                },
                REntry::StrMulti => match c.doc.as_str() {
                    Some(s) => guard(|| serde_saphyr::from_multiple_with_options::<$t>(s, opts).map(|_| ())).ok(),
                    None => guard(|| serde_saphyr::from_slice_multiple_with_options::<$t>(&c.doc.0, opts).map(|_| ())).ok(),
                },
                REntry::WdStr => match c.doc.as_str() {
                    Some(s) => guard(|| {
                        serde_saphyr::with_deserializer_from_str_with_options(s, opts, |de| <$t as Deserialize>::deserialize(de).map(|_| ()))
                    })
                    .ok(),
                    None => guard(|| {
                        serde_saphyr::with_deserializer_from_slice_with_options(&c.doc.0, opts, |de| <$t as Deserialize>::deserialize(de).map(|_| ()))
                    })
                    .ok(),
                },
                REntry::WdNested => {
                    let inner = c.doc.as_str()?;
                    let outer = serde_saphyr::to_string(&NestOuter {
                        k1: 1,
                        k2_a_line_much_longer_than_the_lines_of_the_embedded_text_so_that_columns_of_it_exist_here: 12345,
                        k3: vec![1, 2, 3],
                        embedded: inner.to_string(),
                        k5: 5,
                    })
                    .ok()?;
                    #[allow(deprecated)]
                    let opts2 = serde_saphyr::options! { crop_radius: c.radius, with_snippet: c.with_snippet };
                    let mut from_inner = false;
                    let r = guard(|| {
                        serde_saphyr::with_deserializer_from_str_with_options(&outer, opts, |de| {
                            let o = <NestOuter as Deserialize>::deserialize(de)?;
                            if o.embedded != inner {
                                return Ok(());
                            }
                            let r = serde_saphyr::from_str_with_options::<$t>(&o.embedded, opts2).map(|_| ());
                            from_inner = r.is_err();
                            r
                        })
                    })
                    .ok();
                    // (only the error of the embedded text is looked at: a text that does not survive being
                    // written and read back as a string field fails the outer document, or not at all)
                    if !from_inner {
                        return None;
                    }
                    r
                }
                REntry::Reader { chunking, faults } => {
                    let rd = SimReader::new(
                        &reader_bytes(c),
                        ReaderScript {
                            chunking: Some(chunking.clone()),
                            faults: faults.clone(),
                            ..Default::default()
                        },
                    );
                    LAST_READER.with(|l| *l.borrow_mut() = Some(rd.clone()));
                    guard(|| serde_saphyr::from_reader_with_options::<_, $t>(rd, opts).map(|_| ())).ok()
                }
            }
        };
    }
    if matches!(c.target, RTarget::GardeMap | RTarget::ValidatorList) {
        // validating entry points exist for string and reader input
        return match (&c.entry, c.target) {
            (REntry::StrMulti, RTarget::GardeMap) => {
                let s = c.doc.as_str()?;
                guard(|| serde_saphyr::from_multiple_with_options_valid::<GardeMapDoc>(s, opts).map(|_| ())).ok()
            }
            (REntry::StrMulti, _) => {
                let s = c.doc.as_str()?;
                guard(|| serde_saphyr::from_multiple_with_options_validate::<ValidatorListDoc>(s, opts).map(|_| ())).ok()
            }
            (REntry::Str | REntry::WdStr | REntry::WdNested, RTarget::GardeMap) => {
                let s = c.doc.as_str()?;
                guard(|| serde_saphyr::from_str_with_options_valid::<GardeMapDoc>(s, opts).map(|_| ())).ok()
            }
            (REntry::Str | REntry::WdStr | REntry::WdNested, _) => {
                let s = c.doc.as_str()?;
                guard(|| serde_saphyr::from_str_with_options_validate::<ValidatorListDoc>(s, opts).map(|_| ())).ok()
            }
            (REntry::Reader { chunking, faults }, t) => {
                let rd = SimReader::new(
                    &reader_bytes(c),
                    ReaderScript {
                        chunking: Some(chunking.clone()),
                        faults: faults.clone(),
                        ..Default::default()
                    },
                );
                LAST_READER.with(|l| *l.borrow_mut() = Some(rd.clone()));
                if t == RTarget::GardeMap {
                    guard(|| serde_saphyr::from_reader_with_options_valid::<_, GardeMapDoc>(rd, opts).map(|_| ())).ok()
                } else {
                    guard(|| serde_saphyr::from_reader_with_options_validate::<_, ValidatorListDoc>(rd, opts).map(|_| ())).ok()
                }
            }
        };
    }
    match c.target {
        RTarget::GardeMap | RTarget::ValidatorList => unreachable!(),
        RTarget::TwoLoc => go!(TwoLoc),
        RTarget::MapVec => go!(BTreeMap<String, Vec<i32>>),
        RTarget::MapInt => go!(BTreeMap<String, i32>),
        RTarget::Strict => go!(Strict),
        RTarget::MapEnum => go!(BTreeMap<String, E>),
        RTarget::Json => go!(serde_json::Value),
    }
}

fn is_bad_char(c: char) -> bool {
    let v = c as u32;
    (v < 0x20 && c != '\n' && c != '\t') || v == 0x7f || (0x80..=0x9f).contains(&v)
}

fn dwidth(c: char) -> usize {
    UnicodeWidthChar::width(c).unwrap_or(0)
}

#[derive(Debug)]
struct Block {
    /// true for the window of a second location, introduced by a sentence that names its line and column
    /// in input coordinates (the `-->` line of a first window gives the column within the cropped text)
    second: bool,
    header: Option<(u64, u64)>,
    /// (gutter number, text after "N | ")
    lines: Vec<(u64, String)>,
    /// (gutter number of the source line above, display offset of the first caret)
    carets: Vec<(u64, usize)>,
    /// (gutter number, column of the `|` bar of that source line, column of the bar of its marker line)
    bars: Vec<(u64, usize, usize)>,
}

/// Parse the annotate-snippets style output into blocks.
fn parse_blocks(text: &str) -> Vec<Block> {
    let mut blocks: Vec<Block> = Vec::new();
    let mut last_num: Option<u64> = None;
    let mut last_bar = 0usize;
    for line in text.split('\n') {
        let t = line.trim_start();
        if let Some(rest) = t.strip_prefix("--> ") {
            // <input>:L:C
            let mut it = rest.rsplitn(3, ':');
            let c = it.next().and_then(|x| x.trim().parse::<u64>().ok());
            let l = it.next().and_then(|x| x.trim().parse::<u64>().ok());
            blocks.push(Block {
                second: false,
                header: l.zip(c),
                lines: vec![],
                carets: vec![],
                bars: vec![],
            });
            last_num = None;
            continue;
        }
        let Some(b) = blocks.last_mut() else { continue };
        let Some((left, right)) = line.split_once('|') else { continue };
        let lt = left.trim();
        let right = right.strip_prefix(' ').unwrap_or(right);
        if !lt.is_empty() && lt.chars().all(|c| c.is_ascii_digit()) {
            if let Ok(n) = lt.parse::<u64>() {
                b.lines.push((n, right.to_string()));
                last_num = Some(n);
                last_bar = left.chars().count();
            }
        } else if lt.is_empty() {
            if let Some(pos) = right.find('^')
                && right[..pos].chars().all(|c| c == ' ')
                && let Some(n) = last_num
            {
                b.bars.push((n, last_bar, left.chars().count()));
                b.carets.push((n, right[..pos].chars().count()));
            } else if right.trim_start().chars().next().map(|c| c.is_alphabetic()).unwrap_or(false) {
                // a text line inside the gutter ("This value comes indirectly from the anchor at line L
                // column C:") introduces the second window of a two-location error
                let nums: Vec<u64> = right
                    .split(|c: char| !c.is_ascii_digit())
                    .filter(|x| !x.is_empty())
                    .filter_map(|x| x.parse().ok())
                    .collect();
                let header = if nums.len() >= 2 { Some((nums[0], nums[1])) } else { None };
                blocks.push(Block {
                    second: true,
                    header,
                    lines: vec![],
                    carets: vec![],
                    bars: vec![],
                });
                last_num = None;
            }
        }
    }
    blocks
}

fn sanitized_eq(orig: char, shown: char) -> bool {
    if orig == '\t' {
        return shown == ' ';
    }
    if is_bad_char(orig) || orig == '\u{feff}' {
        return !is_bad_char(shown);
    }
    orig == shown
}

/// Print every rendering of the case's error (debugging aid: `simsaphyr show <replay file>`).
pub fn show(c: &RenderCase) {
    match parse(c) {
        Some(Err(e)) => {
            let i = lab::err_info_raw(&e);
            println!("error {}@{}:{} snippet={}", i.kind, i.line, i.col, i.snippet);
            for (n, t) in lab::render_all(&e).texts {
                if n != "debug" {
                    println!("--- {n}\n{}", t.escape_debug().to_string().replace("\\n", "\n"));
                }
            }
            if let Some(s) = c.doc.as_str() {
                println!("--- miette\n{:?}", lab::render_miette(&e, s));
            }
        }
        other => println!("{:?}", other.map(|r| r.map_err(|e| e.to_string()))),
    }
}

pub fn exec(c: &RenderCase, st: &mut Stats) -> Vec<Viol> {
    let mut out = Vec::new();
    let mk = |clause: &str, detail: String| Viol {
        property: "C17".into(),
        clause: clause.into(),
        detail,
        case: Case::C17(c.clone()),
    };
    st.evals += 1;
    let Some(r) = parse(c) else {
        st.bump("skipped.abnormal(C01)");
        return out;
    };
    let Err(e) = r else {
        st.bump("outcome.ok(no error to render)");
        return out;
    };
    let info = lab::err_info_raw(&e);
    st.bump(&format!("outcome.err:{}", info.kind));
    st.note(&format!("{}@{}:{}", info.kind, info.line, info.col));
    let has_snippet = matches!(e, serde_saphyr::Error::WithSnippet { .. });
    st.bump(if has_snippet { "snippet.present" } else { "snippet.absent" });
    if has_snippet && (!c.with_snippet || c.radius == 0) {
        out.push(mk(
            "snippet-despite-switched-off",
            format!(
                "Options {{ with_snippet: {}, crop_radius: {} }}: the returned error still carries the source text and renders a window",
                c.with_snippet, c.radius
            ),
        ));
    }
    if let REntry::Reader { .. } = &c.entry {
        st.bump(if has_snippet { "reader.snippet_present" } else { "reader.snippet_absent" });
    }
    let rendered = lab::render_all(&e);
    for (name, p) in &rendered.panics {
        out.push(mk("render-panics", format!("{name}: {p}")));
    }
    // What the library was given: for a reader that failed for good, only the bytes before the fault.
    let delivered: Vec<u8> = LAST_READER.with(|l| {
        let l = l.borrow();
        match l.as_ref() {
            Some(rd) => {
                let st = rd.st.borrow();
                if st.sticky.is_some() || st.forced_eof { delivered_text(c, st.pos) } else { c.doc.0.clone() }
            }
            None => c.doc.0.clone(),
        }
    });
    let text_owned = String::from_utf8_lossy(&delivered).into_owned();
    // the renderer ignores one leading BOM
    let text = text_owned.strip_prefix('\u{feff}').unwrap_or(&text_owned);
    let orig_lines: Vec<&str> = text.split('\n').map(|l| l.strip_suffix('\r').unwrap_or(l)).collect();
    let mut texts: Vec<(&str, String)> = rendered.texts.iter().map(|(n, t)| (*n, t.clone())).collect();
    let fault_free_reader = matches!(&c.entry, REntry::Reader { faults, .. } if faults.is_empty()) && c.utf16.is_none();
    if c.doc.as_str().is_some() && (c.entry.is_string() || fault_free_reader) {
        // the caller hands the adapter the text it parsed, byte-order mark included (for a reader entry: the
        // text the reader delivered; its errors carry no byte offsets, the label is placed by other means)
        match lab::render_miette(&e, &text_owned) {
            Ok(t) => texts.push(("miette", t)),
            Err(p) => out.push(mk("render-panics", format!("miette: {p}"))),
        }
    }
    {
        let mut d = 0xcbf2_9ce4_8422_2325u64;
        for (n, t) in &texts {
            if *n != "debug" {
                d = crate::rng::fnv_mix(d, crate::rng::fnv(t.as_bytes()));
            }
        }
        st.behaviours.insert(d);
        st.nontrivial.insert(d);
        if let REntry::Reader { chunking, faults } = &c.entry {
            st.schedules.insert(crate::rng::fnv(format!("{chunking:?}{faults:?}").as_bytes()));
            if !faults.is_empty() {
                st.bump("fired.read_fault_configured_in_second_half");
            }
        }
    }
    for (name, t) in &texts {
        if *name == "debug" {
            continue; // {:?} is not a report (and prints hash maps in their random order)
        }
        st.note(t);
        // 1. terminal safety
        if let Some(bad) = t.chars().find(|c| is_bad_char(*c)) {
            out.push(mk(
                "control-character-in-output",
                format!("{name}: U+{:04X} in rendered text {:?}", bad as u32, trunc(t)),
            ));
            continue;
        }
        if *name == "custom_tail" {
            // a formatter that words every message itself: its words must arrive in full
            // (validation reports word their issues themselves and do not go through the formatter)
            if !t.contains(lab::CUSTOM_TAIL) && !info.kind.starts_with("Validat") {
                out.push(mk(
                    "formatter-message-cut",
                    format!("the custom formatter's message ends with {:?}; rendered: {:?}", lab::CUSTOM_TAIL, trunc(t)),
                ));
            }
            continue;
        }
        if *name == "miette" {
            // an error with a known location gets a label: without one the miette report has neither a
            // source line nor a line / column number
            if info.line > 0 && !t.contains("[input.yaml:") {
                out.push(mk(
                    "miette-no-label",
                    format!("the error reports {}:{}, the miette report carries no label: {:?}", info.line, info.col, trunc(t)),
                ));
            }
            // header `[input.yaml:L:C]` names the reported position
            if let Some(i) = t.find("[input.yaml:")
                && info.line > 0
                && !info.kind.starts_with("Validat")
                && info.kind != "AliasError"
            {
                let rest = &t[i + "[input.yaml:".len()..];
                let hdr: String = rest.chars().take_while(|c| *c != ']').collect();
                let mut it = hdr.split(':');
                let l = it.next().and_then(|x| x.parse::<u64>().ok());
                let col = it.next().and_then(|x| x.parse::<u64>().ok());
                let line_exists = (info.line as usize) <= orig_lines.len() && !(info.line as usize == orig_lines.len() && orig_lines.last().map(|l| l.is_empty()).unwrap_or(true));
                // (miette's own column convention is byte based, so only the line is compared)
                let _ = col;
                if line_exists && l != Some(info.line) {
                    out.push(mk(
                        "miette-wrong-position",
                        format!("miette header says {hdr}, the error reports {}:{}", info.line, info.col),
                    ));
                }
            }
            // line bookkeeping of the miette adapter: any `k<n>` key shown on a gutter line n' must have n = n'
            let mut widest = 0usize;
            for line in t.split('\n') {
                if let Some((left, right)) = line.split_once('│').or_else(|| line.split_once('|')) {
                    let lt = left.trim();
                    if let Ok(n) = lt.parse::<u64>() {
                        widest = widest.max(right.chars().count());
                        let rt = right.trim_start();
                        if let Some(k) = key_number(rt)
                            && k != n
                        {
                            out.push(mk("miette-wrong-line", format!("gutter {n} shows the line of key k{k}: {line:?}")));
                        }
                    }
                }
            }
            // "each line cropped to the configured radius around the error column ... and for the miette adapter"
            if c.with_snippet && c.radius > 0 && c.radius < 100_000 && widest > 2 * c.radius + 8 {
                out.push(mk(
                    "miette-not-cropped",
                    format!("crop radius {}: the miette report shows a source line of {widest} characters", c.radius),
                ));
            }
            continue;
        }
        // every issue of a validation report over string input is shown with its source line
        if info.kind.starts_with("Validat") && has_snippet && c.entry.is_string() && c.radius > 0 && *name != "snippet_off" {
            for l in t.split('\n') {
                if l.starts_with("validation error") && l.contains(" at line ") {
                    out.push(mk(
                        "validation-issue-without-snippet",
                        format!("{name}: an issue is reported as a bare line although the report holds source windows: {:?}", trunc(l)),
                    ));
                    break;
                }
            }
        }
        let blocks = parse_blocks(t);
        // (string input only: the reader's recent-bytes window may legitimately have moved past the line)
        if blocks.is_empty() && has_snippet && *name != "snippet_off" && *name != "debug" && c.entry.is_string() && c.radius > 0 {
            // the error carries a source window, yet this renderer shows no source line at all
            let line_exists = info.line > 0
                && ((info.line as usize) < orig_lines.len()
                    || ((info.line as usize) == orig_lines.len() && !orig_lines.last().map(|l| l.is_empty()).unwrap_or(true)));
            st.bump("snippet.stored_but_not_rendered");
            if line_exists && !info.kind.starts_with("Validat") {
                out.push(mk(
                    "snippet-dropped-at-render",
                    format!("{name}: the error holds a source window for {}:{}, the report shows none: {:?}", info.line, info.col, trunc(t)),
                ));
            }
        }
        if blocks.is_empty() {
            // no snippet: the text must still name the reported line and column
            if info.line > 0 && *name != "debug" {
                let ok = if *name == "custom" {
                    t.contains(&format!("[L{} C{}]", info.line, info.col))
                } else {
                    t.contains(&format!("line {}", info.line)) && t.contains(&format!("column {}", info.col))
                };
                if !ok && !info.kind.starts_with("Validat") {
                    out.push(mk(
                        "location-missing-from-text",
                        format!("{name}: reported {}:{} not named in {:?}", info.line, info.col, trunc(t)),
                    ));
                }
            }
            continue;
        }
        st.bump("snippet.rendered_blocks");
        let mut marked_any = false;
        for b in &blocks {
            // 2. vertical window: at most five lines, all within two lines of the marked one
            if b.lines.len() > 5 {
                out.push(mk("window-too-tall", format!("{name}: {} source lines in one snippet", b.lines.len())));
            }
            if let Some((marked, _)) = b.carets.first() {
                for (n, _) in &b.lines {
                    if n.abs_diff(*marked) > 2 {
                        out.push(mk(
                            "context-beyond-two-lines",
                            format!("{name}: line {n} is shown in the window of marked line {marked}"),
                        ));
                        break;
                    }
                }
            }
            for (n, shown) in &b.lines {
                // 3. horizontal crop. The radius is documented in *character* columns: 2r+1 characters plus
                // one ellipsis on either side; a tab of the input is rendered as 4 spaces (3 extra each).
                let orig = orig_lines.get((*n as usize).wrapping_sub(1)).copied().unwrap_or("");
                let tabs = orig.chars().filter(|c| *c == '\t').count();
                let w = shown.chars().count();
                if w > c.radius.saturating_mul(2).saturating_add(1 + 2 + 3 * tabs) {
                    // Deliberate deviation in crop_line_by_cols: a context line that ends before the crop
                    // window starts is kept intact ("avoids turning short context lines into just …").
                    // (For reader input the retained window may hold only the beginning of that line.)
                    let left = (info.col as usize).saturating_sub(c.radius);
                    let head: String = shown.chars().take(8).collect();
                    let intact_short = *n != info.line && left > 1 && orig.starts_with(&head) && !shown.starts_with('…');
                    out.push(mk(
                        if intact_short { "context-line-left-of-window-kept-intact" } else { "line-wider-than-crop" },
                        format!("{name}: line {n} has {w} characters with radius {} (error column {}): {:?}", c.radius, info.col, trunc(shown)),
                    ));
                }
                // 5. the right line under the right number
                if let Some(k) = key_number(shown)
                    && k != *n
                {
                    out.push(mk(
                        "wrong-line-number",
                        format!("{name}: gutter {n} shows the line of key k{k}: {:?}", trunc(shown)),
                    ));
                }
            }
            // the marker line's bar stands under the bar of the source line (else every caret is shifted)
            for (n, line_bar, marker_bar) in &b.bars {
                if line_bar != marker_bar {
                    out.push(mk(
                        "marker-gutter-misaligned",
                        format!("{name}: line {n} has its `|` in column {line_bar}, the marker line below it in column {marker_bar}"),
                    ));
                }
            }
            // 4. + 6. marker
            for (n, off) in &b.carets {
                st.bump("caret.checked");
                let Some((_, shown)) = b.lines.iter().find(|(m, _)| m == n) else { continue };
                // which location does this block talk about: the header names it
                let (hl, hc) = b.header.unwrap_or((0, 0));
                if hl != *n {
                    out.push(mk("caret-not-on-header-line", format!("{name}: header says line {hl}, caret is under line {n}")));
                    continue;
                }
                if *n == info.line {
                    marked_any = true;
                }
                // every window names its own location in its header (the reported one, the place of the
                // anchor's definition, one per validation issue): the caret points at that character
                {
                    let col = if b.second {
                        hc
                    } else if *n == info.line && !info.kind.starts_with("Validat") {
                        info.col
                    } else {
                        0
                    };
                    if col == 0 {
                        continue;
                    }
                    let Some(orig) = orig_lines.get((*n as usize).wrapping_sub(1)) else { continue };
                    let ocs: Vec<char> = orig.chars().collect();
                    let want = ocs.get((col as usize).wrapping_sub(1)).copied();
                    // char under the caret
                    let mut acc = 0usize;
                    let mut under: Option<char> = None;
                    for ch in shown.chars() {
                        if acc >= *off {
                            under = Some(ch);
                            break;
                        }
                        acc += dwidth(ch).max(if ch == '\t' { 4 } else { 0 });
                    }
                    match (want, under) {
                        (Some(w), Some(u)) => {
                            if !sanitized_eq(w, u) {
                                out.push(mk(
                                    "caret-under-wrong-character",
                                    format!(
                                        "{name}: location {n}:{col} is {w:?} in the input, the caret points at {u:?} in {:?}",
                                        trunc(shown)
                                    ),
                                ));
                            }
                        }
                        (Some(w), None) => {
                            // caret beyond the shown text although the input has a character there
                            if !w.is_whitespace() {
                                out.push(mk(
                                    "caret-under-wrong-character",
                                    format!("{name}: location {n}:{col} is {w:?}, the caret is past the end of {:?}", trunc(shown)),
                                ));
                            }
                        }
                        (None, _) => {} // column at or past end of line: nothing to compare
                    }
                }
            }
        }
        // a location just past the end of the text (EOF position after the final line break) has no line
        // of its own; the renderer marks the end of the last line instead
        let past_end = (info.line as usize) > orig_lines.len()
            || ((info.line as usize) == orig_lines.len() && orig_lines.last().map(|l| l.is_empty()).unwrap_or(true));
        if !marked_any && info.line > 0 && !past_end && !info.kind.starts_with("Validat") && info.kind != "AliasError" {
            // a snippet is shown but the reported line is not the marked one
            let lines: Vec<u64> = blocks.iter().flat_map(|b| b.carets.iter().map(|c| c.0)).collect();
            if !lines.is_empty() {
                out.push(mk(
                    "marker-not-on-reported-line",
                    format!("{name}: reported line {}, carets under lines {lines:?}", info.line),
                ));
            } else if blocks.iter().any(|b| !b.second && b.lines.iter().any(|(n, _)| *n == info.line)) {
                // the reported line is shown, and no line of the window has a marker in its text area (a
                // marker drawn into the gutter, left of the `|`, is under no column at all)
                out.push(mk(
                    "marker-missing",
                    format!("{name}: the window shows line {} and has no marker under any column of it: {:?}", info.line, trunc(t)),
                ));
            }
        }
    }
    out
}

/// `k<n>` at the start of a shown line (possibly quoted)
fn key_number(s: &str) -> Option<u64> {
    let s = s.strip_prefix('"').unwrap_or(s);
    let rest = s.strip_prefix('k')?;
    let digits: String = rest.chars().take_while(|c| c.is_ascii_digit()).collect();
    if digits.is_empty() {
        return None;
    }
    // only when it really is a key: followed (after an optional suffix without blanks) by ':'
    let after = &rest[digits.len()..];
    let tok: String = after.chars().take_while(|c| !c.is_whitespace()).collect();
    if tok.contains(':') || after.contains("\":") { digits.parse().ok() } else { None }
}

fn trunc(s: &str) -> String {
    if s.chars().count() > 160 {
        format!("{}…", s.chars().take(160).collect::<String>())
    } else {
        s.to_string()
    }
}

// ------------------------------------------------------------------------------------------------
// Generation

const NASTY: &[&str] = &[
    "\u{1b}[31mred\u{1b}[0m",
    "\u{7}bell",
    "\u{9b}31m",
    "\u{1b}]0;title\u{7}",
    "\u{85}nel",
    "del\u{7f}",
    "\u{8}bs",
    "nul\u{0}",
    "\u{1b}c",
    "\u{90}dcs\u{9c}",
];

const NASTY_ESCAPED: &[&str] = &[
    "\\e[31mred\\e[0m",
    "\\abell",
    "\\x9b31m",
    "\\e]0;title\\a",
    "\\Nnel",
    "del\\x7f",
    "\\bbs",
    "nul\\0",
    "\\x1bc",
    "\\u009b1m",
    "\\x90dcs\\x9c",
    // a C1 control behind a character whose UTF-8 form also starts with 0xC2, no C0 / DEL around
    "£5\\x9b31m",
    "°\\u0085next",
    "§ \\x90x",
    // a carriage return as the only control character of the reflected text
    "over\\rwrite",
    "\\r",
];

const SUFFIX: &[&str] = &["", "", "", "é", "日本", "😀", "_long_key_name_here"];

fn gen_validation_doc(rng: &mut Rng, target: RTarget) -> String {
    let n = if rng.chance(1, 3) { rng.range(6, 12) } else { rng.range(1, 6) };
    let no_final_newline = rng.chance(1, 4);
    let bad = rng.below(n);
    let mut s = String::new();
    if target == RTarget::GardeMap {
        s.push_str("m:\n");
        for i in 0..n {
            let key = if rng.chance(1, 2) { format!("\"key{i}{}\"", rng.pick(NASTY_ESCAPED)) } else { format!("key{i}{}", rng.pick(SUFFIX)) };
            let nval = if i == bad || rng.chance(1, 4) { 50 } else { 5 };
            let sval = if rng.chance(1, 3) { format!("\"toolong{}\"", rng.pick(NASTY_ESCAPED)) } else { "ok".to_string() };
            s.push_str(&format!("  {key}: {{n: {nval}, s: {sval}}}\n"));
        }
    } else {
        s.push_str("items:\n");
        for i in 0..n {
            let nval = if i == bad || rng.chance(1, 4) { 50 } else { 5 };
            let sval = if rng.chance(1, 3) { format!("\"toolong{}\"", rng.pick(NASTY_ESCAPED)) } else { "ok".to_string() };
            s.push_str(&format!("  - {{n: {nval}, s: {sval}}}\n"));
        }
    }
    if no_final_newline {
        s.pop();
    }
    s
}

fn gen_two_location_doc(rng: &mut Rng) -> String {
    // definition on an i32 line, use on a bool line below it; 1..4 lines apart; more lines below
    // (also with two-digit line numbers, where the gutter is wider, and with a tab in front of the value)
    let (d, u) = *rng.pick(&[(1usize, 3usize), (2, 3), (1, 5), (2, 5), (4, 5), (9, 12), (10, 12), (11, 12), (8, 12), (13, 15), (14, 15), (6, 15)]);
    let n = rng.range(u, if u > 9 { 16 } else { 9 });
    let tab = rng.chance(1, 4);
    // one line between definition and use padded beyond the 3 KiB window of recent bytes, so that for
    // reader input the definition is no longer retained when the error is rendered
    let long_line = if u > d + 1 && rng.chance(1, 5) { Some(rng.range(d + 1, u - 1)) } else { None };
    let eol = if rng.chance(1, 5) { "\r\n" } else { "\n" };
    let mut s = String::new();
    for i in 1..=n {
        let v = if i == d {
            format!("&val {}", rng.pick(&["42", "\"4\\e[31m2\"", "0x2A", "'fortytwo'"]))
        } else if i == u {
            "*val".to_string()
        } else if i == 3 || i == 5 || i == 12 || i == 15 {
            "true".to_string()
        } else {
            rng.below(100).to_string()
        };
        if tab && (i == d || i == u) {
            s.push_str(&format!("k{i}:\t{v}{eol}"));
        } else if long_line == Some(i) && i != 3 && i != 5 && i != 12 && i != 15 {
            s.push_str(&format!("k{i}: {}{v}{eol}", " ".repeat(rng.range(3100, 5000))));
        } else {
            s.push_str(&format!("k{i}: {v}{eol}"));
        }
    }
    s
}

fn gen_doc(rng: &mut Rng, target: RTarget) -> String {
    if matches!(target, RTarget::GardeMap | RTarget::ValidatorList) {
        return gen_validation_doc(rng, target);
    }
    if target == RTarget::TwoLoc {
        return gen_two_location_doc(rng);
    }
    if target == RTarget::Json && rng.chance(1, 3) {
        // every line of the window is deeply indented (nested mappings, one level per line), and the error
        // sits at or in front of the indentation: a renderer that trims "useless" leading white space must
        // still put the marker under the reported column
        // (from 8 levels on: the renderer the crate uses for most windows has two rules that cut shared
        // indentation, one for more than about 26 columns of it, one for any window with a line wider than its
        // 140-column terminal)
        let depth = rng.range(8, 60);
        let mut s = String::new();
        for i in 1..=depth {
            s.push_str(&format!("{}k{i}:\n", " ".repeat(i - 1)));
        }
        let ind = " ".repeat(depth);
        let n = rng.range(3, 7);
        let bad = rng.range(1, n);
        let mut line = depth; // lines written so far: the next key stands on line `line + 1`
        for j in 1..=n {
            let i = line + 1;
            if j == bad {
                match rng.below(6) {
                    // a quoted scalar continued on a tab-indented line: "tab cannot be used as indentation", column 1
                    0 => {
                        // (as many tabs as it takes to reach the indentation: every line of the window is then
                        // deeply indented)
                        let tabs = "\t".repeat(depth.div_ceil(4) + rng.below(3));
                        s.push_str(&format!("{ind}k{i}: \"first\n{tabs}second\"\n"));
                        line += 2;
                    }
                    // a reserved indicator where a key should start
                    1 => {
                        s.push_str(&format!("{ind}@k{i}: 1\n"));
                        line += 1;
                    }
                    // a line that is indented more than its siblings
                    2 => {
                        s.push_str(&format!("{}k{i}: 1\n", " ".repeat(depth + 2)));
                        line += 1;
                    }
                    // blanks made of control characters (the sanitiser turns them into blanks) in front of text
                    // a line that begins with a control character (a blank once sanitised) and goes on after a
                    // run of blanks
                    3 => {
                        s.push_str(&format!("\x1b{}k{i}: 1\n", " ".repeat(depth.saturating_sub(1))));
                        line += 1;
                    }
                    // an error behind wide and combining characters on its line
                    4 => {
                        let wide = *rng.pick(&["日本語日本語", "e\u{301}e\u{301}e\u{301}e\u{301}e\u{301}e\u{301}", "😀😀😀", "wide日本語 text"]);
                        s.push_str(&format!("{ind}k{i}: \"{wide}\" oops\n"));
                        line += 1;
                    }
                    _ => {
                        s.push_str(&format!("{ind}k{i}: [1, 2\n"));
                        line += 1;
                    }
                }
            } else {
                match rng.below(6) {
                    // a line that is short in characters and wide in columns (tabs inside a quoted scalar)
                    0 => s.push_str(&format!("{ind}k{i}: \"{}\"\n", "\t".repeat(rng.range(30, 50)))),
                    // wide characters in a sibling line
                    1 => s.push_str(&format!("{ind}k{i}: 日本語日本語{}\n", rng.below(100))),
                    _ => s.push_str(&format!("{ind}k{i}: {}\n", rng.below(100))),
                }
                line += 1;
                // now and then a blank (or blanks-only) line between the entries: it is a line of the window
                if rng.chance(1, 4) {
                    s.push_str(if rng.chance(1, 2) { "\n" } else { "   \n" });
                    line += 1;
                }
            }
        }
        return s;
    }
    let crlf = rng.chance(1, 5);
    let eol = if crlf { "\r\n" } else { "\n" };
    let n = match rng.below(10) {
        0 => rng.range(200, 600), // beyond the ring
        1 => rng.range(40, 120),
        _ => rng.range(3, 12),
    };
    let n = if target == RTarget::Strict { rng.range(3, 7) } else { n };
    let bad_line = rng.range(1, n);
    let mid_bom = rng.chance(1, 8);
    let mut s = String::new();
    if rng.chance(1, 12) {
        s.push('\u{feff}');
    }
    for i in 1..=n {
        let key = if target == RTarget::Strict { format!("k{i}") } else { format!("k{i}{}", rng.pick(SUFFIX)) };
        // a byte-order mark in the middle of the stream (what concatenating files gives): there it is a
        // character of the line like any other - of the failing line, or of one of its neighbours
        let key = if target != RTarget::Strict && i > 1 && i.abs_diff(bad_line) <= 2 && mid_bom {
            format!("{}{key}", '\u{feff}')
        } else {
            key
        };
        let is_bad = i == bad_line;
        match target {
            RTarget::MapVec => {
                // (the stored window is cropped horizontally from 4 KiB per line / 16 KiB per window on)
                let len = if rng.chance(1, 14) {
                    rng.range(900, 4500)
                } else if rng.chance(1, 8) {
                    rng.range(40, 400)
                } else {
                    rng.below(8)
                };
                let bad_at = if is_bad && len > 0 { Some(rng.below(len)) } else { None };
                let items: Vec<String> = (0..len)
                    .map(|j| {
                        if Some(j) == bad_at {
                            match rng.below(5) {
                                0 => "x".to_string(),
                                1 => format!("\"{}\"", rng.pick(NASTY_ESCAPED)),
                                2 => "日本".to_string(),
                                3 => "{a: 1}".to_string(),
                                _ => "not-a-number".to_string(),
                            }
                        } else {
                            rng.below(1000).to_string()
                        }
                    })
                    .collect();
                if is_bad && len == 0 {
                    s.push_str(&format!("{key}: oops{eol}"));
                } else {
                    s.push_str(&format!("{key}: [{}]{eol}", items.join(", ")));
                }
            }
            RTarget::MapInt | RTarget::Strict => {
                if is_bad && i == n && target == RTarget::MapInt && rng.chance(1, 2) {
                    // the failing value is a block scalar of very many short lines (the last entry of the
                    // document, so that the line numbering of the keys is not disturbed): its span covers
                    // some 70 KB, none of its lines is long
                    let lines = rng.range(850, 1000);
                    s.push_str(&format!("{key}: |{eol}"));
                    for _ in 0..lines {
                        s.push_str(&format!("  {}{eol}", "QUJDREVGR0hJSktMTU5PUFFSU1RVVldYWVo=".repeat(2)));
                    }
                    continue;
                }
                if is_bad {
                    let v = match rng.below(8) {
                        0 => format!("\"{}\"", rng.pick(NASTY_ESCAPED)),
                        1 => rng.pick(NASTY).to_string(),
                        2 => format!("'{}'", "wide日本語".repeat(rng.range(1, 40))),
                        3 => "[1, 2]".to_string(),
                        4 => "\ttabbed".to_string(),
                        5 => format!("{}x", "9".repeat(rng.range(1, 300))),
                        _ => "nope".to_string(),
                    };
                    s.push_str(&format!("{key}: {v}{eol}"));
                } else {
                    s.push_str(&format!("{key}: {}{eol}", rng.below(100)));
                }
            }
            RTarget::MapEnum => {
                if is_bad {
                    let v = match rng.below(4) {
                        0 => format!("\"{}\"", rng.pick(NASTY_ESCAPED)),
                        1 => "Gamma".to_string(),
                        2 => format!("\"V{}\"", rng.pick(NASTY_ESCAPED)),
                        _ => "{Alpha: 1}".to_string(),
                    };
                    s.push_str(&format!("{key}: {v}{eol}"));
                } else {
                    s.push_str(&format!("{key}: {}{eol}", rng.pick(&["Alpha", "Beta"])));
                }
            }
            RTarget::GardeMap | RTarget::ValidatorList | RTarget::TwoLoc => unreachable!(),
            RTarget::Json => {
                if is_bad {
                    let v = match rng.below(6) {
                        0 => "[1, 2".to_string(),
                        1 => "'unterminated".to_string(),
                        2 => "*nope".to_string(),
                        3 => format!("\"bad \\q escape {}\"", rng.pick(NASTY_ESCAPED)),
                        4 => rng.pick(NASTY).to_string(),
                        _ => "a: b: c".to_string(),
                    };
                    s.push_str(&format!("{key}: {v}{eol}"));
                } else {
                    s.push_str(&format!("{key}: {}{eol}", rng.pick(wl::WORDS)));
                }
            }
        }
        // extra lines that reflect text into messages: unknown field / duplicate key with escapes
        if is_bad && rng.chance(1, 3) && target == RTarget::Strict {
            // replace the bad value line by an unknown field written with YAML escapes
            let last = s.rfind(&format!("k{i}")).unwrap_or(s.len());
            s.truncate(last);
            s.push_str(&format!("\"k{i}{}\": 1{eol}", rng.pick(NASTY_ESCAPED)));
        }
    }
    if rng.chance(1, 10) && target != RTarget::Strict {
        // duplicate key with escapes (its text is reflected into the message)
        let k = format!("\"dup{}\"", rng.pick(NASTY_ESCAPED));
        let v = if target == RTarget::MapVec { "[1]" } else if target == RTarget::MapEnum { "Alpha" } else { "1" };
        // appended lines do not carry the k<n> convention, so they do not disturb the numbering check
        s.push_str(&format!("{k}: {v}{eol}{k}: {v}{eol}"));
    }
    s
}

pub const RADII: [usize; 5] = [0, 1, 5, 64, 10_000];

pub fn total(tier: Tier) -> u64 {
    match tier {
        Tier::Quick => 40_000,
        Tier::Thorough => 800_000,
    }
}

pub fn gen_case(tier: Tier, seed: u64, idx: u64) -> Case {
    // groups of 10 cases share one document: string entry + reader schedules, across radii
    let group = idx / 10;
    let member = idx % 10;
    let _ = tier;
    let mut drng = Rng::for_case(seed, "C17doc", group);
    let target = *drng.pick(&[
        RTarget::MapVec,
        RTarget::MapVec,
        RTarget::MapInt,
        RTarget::Strict,
        RTarget::MapEnum,
        RTarget::Json,
        RTarget::MapVec,
        RTarget::MapInt,
        RTarget::GardeMap,
        RTarget::ValidatorList,
        RTarget::TwoLoc,
    ]);
    let doc = gen_doc(&mut drng, target);
    let mut rng = Rng::for_case(seed, "C17", idx);
    let radius = if member < 5 { RADII[member as usize] } else { *rng.pick(&[0, 1, 5, 64, 10_000, 2, 17, usize::MAX, usize::MAX / 2 + 1]) };
    // members 8 and 9 of a group: the same text as UTF-16 (little / big endian) through the reader
    let utf16 = if member >= 8 && !doc.starts_with('\u{feff}') { Some(member == 9) } else { None };
    let raw: Vec<u8> = match utf16 {
        Some(be) => crate::prop::c10::to_utf16(&doc, be).0,
        None => doc.as_bytes().to_vec(),
    };
    let entry = if member < 3 {
        // the three string entry points attach their snippets in separate places: rotate over the groups
        match (group + member) % 4 {
            0 => REntry::Str,
            1 => REntry::StrMulti,
            2 => REntry::WdNested,
            _ => REntry::WdStr,
        }
    } else {
        let chunking = match member {
            3 => Chunking::Fixed(1),
            4 => Chunking::Whole,
            5 => Chunking::Fixed(100),
            _ => wl::gen_chunking(&raw, &mut rng),
        };
        let faults = if rng.chance(1, 4) && !doc.is_empty() {
            // a fault somewhere in the second half: often inside the diagnostic read-ahead
            vec![ReadFault {
                pos: FaultPos::AtByte(rng.range(raw.len() / 2, raw.len())),
                kind: *rng.pick(&HARD_KINDS),
                after: *rng.pick(&[After::Sticky, After::ThenEof, After::ThenResume]),
            }]
        } else {
            vec![]
        };
        REntry::Reader { chunking, faults }
    };
    // from_multiple: half of the documents become streams - a few healthy lines are replaced by `---`
    // (line numbering, and with it the k<n> convention, is untouched)
    let mut doc = doc;
    if matches!(entry, REntry::StrMulti) && matches!(target, RTarget::MapVec | RTarget::MapInt | RTarget::MapEnum) && rng.chance(1, 2) {
        let healthy = |l: &str| -> bool {
            let body = l.trim_end_matches(['\r', '\n']);
            match body.split_once(": ") {
                Some((k, v)) => {
                    k.starts_with('k')
                        && !k.starts_with('"')
                        && (v == "Alpha" || v == "Beta" || (!v.is_empty() && v.chars().all(|c| c.is_ascii_digit() || " ,[]".contains(c))))
                }
                None => false,
            }
        };
        let mut lines: Vec<String> = doc.split_inclusive('\n').map(|x| x.to_string()).collect();
        let cands: Vec<usize> = lines.iter().enumerate().filter(|(_, l)| healthy(l)).map(|(i, _)| i).collect();
        if !cands.is_empty() {
            for _ in 0..rng.range(1, 3) {
                let i = cands[rng.below(cands.len())];
                let eol = if lines[i].ends_with("\r\n") { "\r\n" } else if lines[i].ends_with('\n') { "\n" } else { "" };
                lines[i] = format!("---{eol}");
            }
            doc = lines.concat();
        }
    }
    // a reserved directive with multi-byte parameters in front of the document (the parser's character index
    // counts such text in bytes; positions derived from it drift away from line and column): the first two
    // lines, when they are healthy ones, become the directive and the `---` that must follow it
    if matches!(target, RTarget::MapVec | RTarget::MapInt | RTarget::MapEnum) && drng.chance(1, 5) {
        let healthy = |l: &str| -> bool {
            let body = l.trim_end_matches(['\r', '\n']);
            match body.split_once(": ") {
                Some((k, v)) => {
                    k.starts_with('k')
                        && !k.starts_with('"')
                        && (v == "Alpha" || v == "Beta" || (!v.is_empty() && v.chars().all(|c| c.is_ascii_digit() || " ,[]".contains(c))))
                }
                None => false,
            }
        };
        let mut lines: Vec<String> = doc.split_inclusive('\n').map(|x| x.to_string()).collect();
        if lines.len() > 3 && healthy(&lines[0]) && healthy(&lines[1]) && !lines.iter().any(|l| l.starts_with("---")) {
            let eol = |l: &str| if l.ends_with("\r\n") { "\r\n" } else { "\n" };
            let param = drng.pick(&["日本語日本語日本語", "é", "😀😀😀😀 ü", "ab"]).repeat(drng.range(1, 4));
            lines[0] = format!("%FOO {param}{}", eol(&lines[0]));
            lines[1] = format!("---{}", eol(&lines[1]));
            doc = lines.concat();
        }
    }
    Case::C17(RenderCase {
        doc: Doc::from_str(&doc),
        target,
        radius,
        with_snippet: !rng.chance(1, 10),
        entry,
        utf16,
    })
}

pub fn shrink(c: &RenderCase) -> Vec<Case> {
    let mut out = Vec::new();
    if let REntry::Reader { chunking, faults } = &c.entry {
        let mut n = c.clone();
        n.entry = REntry::Str;
        out.push(Case::C17(n));
        if !faults.is_empty() {
            let mut n = c.clone();
            n.entry = REntry::Reader {
                chunking: chunking.clone(),
                faults: vec![],
            };
            out.push(Case::C17(n));
        }
        if *chunking != Chunking::Whole {
            let mut n = c.clone();
            n.entry = REntry::Reader {
                chunking: Chunking::Whole,
                faults: faults.clone(),
            };
            out.push(Case::C17(n));
        }
    }
    if c.radius != 64 {
        let mut n = c.clone();
        n.radius = 64;
        out.push(Case::C17(n));
    }
    if !c.with_snippet {
        let mut n = c.clone();
        n.with_snippet = true;
        out.push(Case::C17(n));
    }
    // drop lines from the end first (keeps the k<n> numbering intact), then shrink characters of lines
    if let Some(s) = c.doc.as_str() {
        let lines: Vec<&str> = s.split_inclusive('\n').collect();
        if lines.len() > 1 {
            for keep in [lines.len() / 2, lines.len() - 1] {
                if keep >= 1 {
                    let mut n = c.clone();
                    n.doc = Doc::from_str(&lines[..keep].concat());
                    out.push(Case::C17(n));
                }
            }
            // replace a line by a short one with the same key number
            for (i, l) in lines.iter().enumerate() {
                if l.len() > 12 {
                    let mut v: Vec<String> = lines.iter().map(|x| x.to_string()).collect();
                    v[i] = format!("k{}: 1\n", i + 1);
                    let mut n = c.clone();
                    n.doc = Doc::from_str(&v.concat());
                    out.push(Case::C17(n));
                }
            }
        }
        // shrink the longest line by halves
        if let Some((i, l)) = lines.iter().enumerate().max_by_key(|(_, l)| l.len())
            && l.chars().count() > 24
        {
            let cs: Vec<char> = l.chars().collect();
            for (a, b) in [(0, cs.len() / 2), (cs.len() / 4, cs.len())] {
                let mut v: Vec<String> = lines.iter().map(|x| x.to_string()).collect();
                let mut piece: String = cs[a..b].iter().collect();
                if !piece.ends_with('\n') {
                    piece.push('\n');
                }
                v[i] = piece;
                let mut n = c.clone();
                n.doc = Doc::from_str(&v.concat());
                out.push(Case::C17(n));
            }
        }
    }
    if c.target != RTarget::Json {
        let mut n = c.clone();
        n.target = RTarget::Json;
        out.push(Case::C17(n));
    }
    out
}
