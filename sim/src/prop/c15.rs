//! C15 — a call's result depends only on its arguments: call histories (sequential, nested inside a
//! user Deserialize, panicking visitors, abandoned iterators, I/O faults) on 1..3 caller threads
//! under the baton scheduler; oracle = the same call on a fresh thread (isolation table).

use crate::case::{Case, Stats, Tier, Viol};
use crate::io::*;
use crate::lab::{self, Abnormal, guard};
use crate::rng::Rng;
use crate::sched::{self, Baton};
use crate::types::*;
use serde::{Deserialize, Serialize};
use serde_saphyr::{ArcAnchor, RcAnchor, RcRecursion, RcRecursive};
use std::cell::RefCell;
use std::collections::BTreeMap;
use std::sync::{Mutex, OnceLock};

#[derive(Clone, Debug, Serialize, Deserialize, PartialEq, Eq, PartialOrd, Ord)]
pub enum Call {
    OkCfg,
    OkJsonAnchors,
    FailMidAnchor,
    RcShare,
    RcFailInside,
    ArcShare,
    Recursive,
    BudgetBreach,
    AliasLimit,
    MissingNull,
    MissingNested,
    UnknownFieldStatic,
    RestrictiveVisitor,
    ReaderFault,
    ReaderOk,
    IterHalf,
    IterAlternate,
    SerShared,
    SerPlain,
    ValidEntry,
    ValidatorTwoErrors,
    GardeTwoErrors,
    ProbePanic,
    ProbeError,
    /// fails (syntax error) after several aliases of one anchor have been expanded
    FailAfterAliases,
    /// fails (type error) deep inside nested containers after replaying a nested alias chain
    FailDeepInReplay,
    /// every resource limit set exactly at this document's usage: must succeed
    LimitsExactlyAtUsage,
    /// same document, per-anchor expansion limit one below the usage: must fail the same way every time
    PerAnchorLimitBelowUsage,
    /// un-anchored Rc wrappers: three separate allocations
    RcPlain,
    /// un-anchored weak anchor field: must be an error the same way every time
    RcWeakPlain,
    /// iterator whose first document fails to deserialize and whose reader breaks during recovery;
    /// abandoned after the first item
    IterFailThenReaderBreaks,
    /// serialise a freshly allocated 5-byte string that looks numeric / that does not
    SerNumericLooking,
    SerWordSameLength,
    /// serialisation that fails midway through a shared graph
    SerFailsMidway,
    /// reader parses (a yield point at every 3-byte read) into Rc / Arc anchored structs over two different
    /// documents: interleaved on two threads, or one after the other, each must see its own document
    ReaderRc { second: bool },
    ReaderArc { second: bool },
    /// serialisation options differ between calls: YAML 1.2 mode on / off over keys and values spelled like
    /// YAML 1.1 booleans
    SerYaml12 { on: bool },
    /// a shared graph with a custom anchor-name generator; a field's `Serialize` impl serialises another
    /// graph to a string in between
    SerNamedAnchorsNested,
    /// reader input as UTF-16 under an input cap just above its size, and a one-byte reader input under a
    /// cap of 2
    ReaderUtf16Capped,
    ReaderTinyCapped,
    /// the user's reader panics in the middle of an anchored document (caught by the caller)
    ReaderPanics,
    /// the user's writer panics in the middle of a shared graph with a `!!binary` scalar (caught by the caller)
    SerWriterPanics,
    /// a `Serialize` impl that serialises another shared graph to a string while the outer one is being written
    SerNested,
    /// the budget-report callback panics (the panic is caught by the caller, the thread lives on)
    ReportCallbackPanics,
    /// a call with a report callback: the result carries how often it was invoked and with how many events
    ReportCallbackCounts,
    /// a report callback that itself makes a call with a report callback of its own
    ReportCallbackNested,
    /// a value with a `!!binary` scalar, to a string
    SerBinary,
    /// the same value to a writer that refuses everything from byte `at` on (`blob: !!binary ` is 15 bytes)
    SerBinaryWriterFails { at: u8 },
    /// validation failure of a renamed field whose YAML key has several near-miss spellings next to it:
    /// the located key must be the same on every call (garde / validator)
    ValidFuzzyGarde,
    ValidFuzzyValidator,
    /// a user value whose `Drop` makes a deserialization call of its own; the value's last reference is
    /// held by the anchor table of a failing (`ok: false`) or succeeding (`ok: true`, last-wins duplicate key)
    /// document, so the inner call runs while that table is being torn down
    DropReenters { ok: bool, arc: bool },
    /// an un-anchored wrapper inside an anchored one takes the outer anchor's slot; the outer value replaces it
    /// there, and the replaced entry holds the last reference to a value whose `Drop` makes a call
    DropReentersReplaced,
    /// a sequence of wrappers of which only the first and the third share an anchor
    RcMixedSeq,
    /// a visitor panics; while the panic unwinds, the `Drop` impl of a value that was already built makes a call
    DropDuringUnwind,
    /// ten anchored user values whose last references are held by the anchor table of a failing document:
    /// the result is the order in which their `Drop` impls run
    DropOrder { arc: bool },
    /// the `Debug` form of the error of a validating entry point (the only structural view of an `Error`
    /// there is: it has no `PartialEq`) for a document with eight recorded paths
    ValidDebug { validator: bool },
    /// outer document with three nest points; the inner call runs at nest point k (3 = never)
    NestRc { k: u8, inner: Box<Call> },
    /// the nest point sits inside an anchored node deserialized into an RcAnchor (anchor context stack not empty)
    NestInsideAnchor { k: u8, inner: Box<Call> },
    NestRecursive { k: u8, inner: Box<Call> },
}

/// marker with which a call reports that its result with a nested call differs from the flat equivalent
const NESTED_MISMATCH: &str = "NESTED-VS-FLAT-MISMATCH";

pub const BASIC: [Call; 67] = [
    Call::DropReentersReplaced,
    Call::RcMixedSeq,
    Call::DropDuringUnwind,
    Call::DropOrder { arc: false },
    Call::DropOrder { arc: true },
    Call::ValidDebug { validator: false },
    Call::ValidDebug { validator: true },
    Call::DropReenters { ok: false, arc: false },
    Call::DropReenters { ok: true, arc: false },
    Call::DropReenters { ok: false, arc: true },
    Call::DropReenters { ok: true, arc: true },
    Call::SerYaml12 { on: true },
    Call::SerYaml12 { on: false },
    Call::SerNamedAnchorsNested,
    Call::ReaderUtf16Capped,
    Call::ReaderTinyCapped,
    Call::SerWriterPanics,
    Call::ReaderPanics,
    Call::SerNested,
    Call::ReaderRc { second: false },
    Call::ReaderRc { second: true },
    Call::ReaderArc { second: false },
    Call::ReaderArc { second: true },
    Call::ReportCallbackPanics,
    Call::ReportCallbackCounts,
    Call::ReportCallbackNested,
    Call::SerBinary,
    Call::SerBinaryWriterFails { at: 0 },
    Call::SerBinaryWriterFails { at: 15 },
    Call::SerBinaryWriterFails { at: 20 },
    Call::SerBinaryWriterFails { at: 40 },
    Call::ValidFuzzyGarde,
    Call::ValidFuzzyValidator,
    Call::OkCfg,
    Call::OkJsonAnchors,
    Call::FailMidAnchor,
    Call::RcShare,
    Call::RcFailInside,
    Call::ArcShare,
    Call::Recursive,
    Call::BudgetBreach,
    Call::AliasLimit,
    Call::MissingNull,
    Call::MissingNested,
    Call::UnknownFieldStatic,
    Call::RestrictiveVisitor,
    Call::ReaderFault,
    Call::ReaderOk,
    Call::IterHalf,
    Call::IterAlternate,
    Call::SerShared,
    Call::SerPlain,
    Call::ValidEntry,
    Call::ValidatorTwoErrors,
    Call::GardeTwoErrors,
    Call::ProbePanic,
    Call::ProbeError,
    Call::FailAfterAliases,
    Call::FailDeepInReplay,
    Call::LimitsExactlyAtUsage,
    Call::PerAnchorLimitBelowUsage,
    Call::RcPlain,
    Call::RcWeakPlain,
    Call::IterFailThenReaderBreaks,
    Call::SerNumericLooking,
    Call::SerWordSameLength,
    Call::SerFailsMidway,
];

// ------------------------------------------------------------------------------------------------
// Probe user types

thread_local! {
    /// stack of (target nest point, points seen so far, inner call) for the nest fields being deserialized
    static NEST: RefCell<Vec<(u8, u8, Call)>> = const { RefCell::new(Vec::new()) };
    /// results of inner calls, in order
    static NEST_LOG: RefCell<Vec<(Call, String)>> = const { RefCell::new(Vec::new()) };
    static CALLBACKS: RefCell<u64> = const { RefCell::new(0) };
}

#[derive(Debug)]
struct NestField;
impl<'de> Deserialize<'de> for NestField {
    fn deserialize<D: serde::Deserializer<'de>>(d: D) -> Result<Self, D::Error> {
        CALLBACKS.with(|c| *c.borrow_mut() += 1);
        sched::yield_point();
        let fire = NEST.with(|n| {
            let mut n = n.borrow_mut();
            if let Some(top) = n.last_mut() {
                let hit = top.1 == top.0;
                top.1 += 1;
                if hit { Some(top.2.clone()) } else { None }
            } else {
                None
            }
        });
        if let Some(inner) = fire {
            let r = run_call(&inner);
            NEST_LOG.with(|l| l.borrow_mut().push((inner, r)));
        }
        let _ = String::deserialize(d)?;
        Ok(NestField)
    }
}

/// A value that makes a call of its own when it is dropped; the inner result goes to NEST_LOG and is
/// compared with the isolation entry of that inner call.
#[derive(Debug)]
struct DropCalls(#[allow(dead_code)] i32);
impl<'de> Deserialize<'de> for DropCalls {
    fn deserialize<D: serde::Deserializer<'de>>(d: D) -> Result<Self, D::Error> {
        Ok(DropCalls(i32::deserialize(d)?))
    }
}
impl Drop for DropCalls {
    fn drop(&mut self) {
        let inner = Call::OkJsonAnchors;
        let r = run_call(&inner);
        let _ = NEST_LOG.try_with(|l| l.borrow_mut().push((inner, r)));
    }
}

/// Like `DropCalls`, with an inner call that is sensitive to a stale anchor context.
#[derive(Debug)]
struct DropCallsMixed(#[allow(dead_code)] i32);
impl<'de> Deserialize<'de> for DropCallsMixed {
    fn deserialize<D: serde::Deserializer<'de>>(d: D) -> Result<Self, D::Error> {
        Ok(DropCallsMixed(i32::deserialize(d)?))
    }
}
impl Drop for DropCallsMixed {
    fn drop(&mut self) {
        let inner = Call::RcMixedSeq;
        let r = run_call(&inner);
        let _ = NEST_LOG.try_with(|l| l.borrow_mut().push((inner, r)));
    }
}

#[derive(Debug, Deserialize)]
#[allow(dead_code)]
struct UnwindDoc {
    a: DropCallsMixed,
    p: RcAnchor<PanicField>,
}

/// A mapping type that reads its `item` through an anchor wrapper and does not keep it.
#[derive(Debug)]
struct OuterDiscards;
impl<'de> Deserialize<'de> for OuterDiscards {
    fn deserialize<D: serde::Deserializer<'de>>(d: D) -> Result<Self, D::Error> {
        #[derive(Deserialize)]
        struct Raw {
            #[allow(dead_code)]
            item: RcAnchor<DropCalls>,
        }
        let raw = Raw::deserialize(d)?;
        drop(raw);
        Ok(OuterDiscards)
    }
}

thread_local! {
    static DROP_ORDER: RefCell<Vec<String>> = const { RefCell::new(Vec::new()) };
}

/// A value that records when it is dropped.
#[derive(Debug)]
struct Noted(String);
impl<'de> Deserialize<'de> for Noted {
    fn deserialize<D: serde::Deserializer<'de>>(d: D) -> Result<Self, D::Error> {
        Ok(Noted(String::deserialize(d)?))
    }
}
impl Drop for Noted {
    fn drop(&mut self) {
        let _ = DROP_ORDER.try_with(|l| l.borrow_mut().push(self.0.clone()));
    }
}

#[derive(Debug)]
struct PanicField;
impl<'de> Deserialize<'de> for PanicField {
    fn deserialize<D: serde::Deserializer<'de>>(_d: D) -> Result<Self, D::Error> {
        CALLBACKS.with(|c| *c.borrow_mut() += 1);
        sched::yield_point();
        std::panic::panic_any(SimMarker::ProbePanic)
    }
}

#[derive(Debug)]
struct ErrField;
impl<'de> Deserialize<'de> for ErrField {
    fn deserialize<D: serde::Deserializer<'de>>(_d: D) -> Result<Self, D::Error> {
        CALLBACKS.with(|c| *c.borrow_mut() += 1);
        sched::yield_point();
        Err(serde::de::Error::custom("probe-error"))
    }
}

#[derive(Debug)]
struct OnlyU8(u8);
impl<'de> Deserialize<'de> for OnlyU8 {
    fn deserialize<D: serde::Deserializer<'de>>(d: D) -> Result<Self, D::Error> {
        struct V;
        impl serde::de::Visitor<'_> for V {
            type Value = OnlyU8;
            fn expecting(&self, f: &mut std::fmt::Formatter) -> std::fmt::Result {
                f.write_str("a u8")
            }
            fn visit_u8<E>(self, v: u8) -> Result<OnlyU8, E> {
                Ok(OnlyU8(v))
            }
        }
        d.deserialize_any(V)
    }
}

#[derive(Debug, Deserialize)]
struct RcDoc {
    a: RcAnchor<String>,
    b: RcAnchor<String>,
    c: RcAnchor<String>,
}

#[derive(Debug, Deserialize)]
struct ArcDoc {
    a: ArcAnchor<String>,
    b: ArcAnchor<String>,
}

#[derive(Deserialize)]
struct King {
    name: String,
    #[serde(default)]
    #[allow(dead_code)]
    nest: Option<NestField>,
    coronator: RcRecursion<King>,
}

#[derive(Deserialize)]
struct Kingdom {
    king: RcRecursive<King>,
}

#[derive(Debug, Deserialize)]
#[allow(dead_code)]
struct PanicDoc {
    a: RcAnchor<String>,
    p: RcAnchor<PanicField>,
}

#[derive(Debug, Deserialize)]
#[allow(dead_code)]
struct ErrDoc {
    a: RcAnchor<String>,
    p: RcAnchor<ErrField>,
    b: RcAnchor<String>,
}

#[derive(Debug, Deserialize)]
#[allow(dead_code)]
struct NestDoc {
    f0: NestField,
    a: RcAnchor<String>,
    f1: NestField,
    b: RcAnchor<String>,
    f2: NestField,
}

#[derive(Debug, Deserialize)]
#[allow(dead_code)]
struct InnerNest {
    f: NestField,
    v: i32,
}

#[derive(Debug, Deserialize)]
#[allow(dead_code)]
struct AnchoredNestDoc {
    w: RcAnchor<InnerNest>,
    z: RcAnchor<InnerNest>,
}

#[derive(Debug, Deserialize)]
#[allow(dead_code)]
struct WeakDoc {
    a: RcAnchor<String>,
    w: serde_saphyr::RcWeakAnchor<String>,
}

struct FailingSer;
impl Serialize for FailingSer {
    fn serialize<S: serde::Serializer>(&self, _s: S) -> Result<S::Ok, S::Error> {
        Err(serde::ser::Error::custom("probe-ser-error"))
    }
}

struct Blob(Vec<u8>);
impl Serialize for Blob {
    fn serialize<S: serde::Serializer>(&self, s: S) -> Result<S::Ok, S::Error> {
        s.serialize_bytes(&self.0)
    }
}

#[derive(Serialize)]
struct BlobDoc {
    blob: Blob,
    tail: String,
    more: Vec<Blob>,
}

fn blob_doc() -> BlobDoc {
    BlobDoc {
        blob: Blob(b"hello world".to_vec()),
        tail: "t".into(),
        more: vec![Blob(vec![0, 255, 7]), Blob(vec![])],
    }
}

#[derive(Debug, Deserialize, garde::Validate, validator::Validate)]
#[allow(dead_code)]
struct Account {
    #[serde(rename = "User_Name")]
    #[garde(length(min = 3))]
    #[validate(length(min = 3))]
    user_name: String,
    #[serde(rename = "displayTitle", default)]
    #[garde(length(max = 4))]
    #[validate(length(max = 4))]
    display_title: String,
}

/// near-miss spellings (ignored by serde) around the real keys, in both orders
const FUZZY_DOC: &str = "userName: legacy one\nuser-name: legacy two\nUser_Name: ab\ndisplayTitle: much too long\ndisplay_title: q\nDisplay-Title: r\nDISPLAYTITLE: s\n";

#[derive(Serialize)]
struct SerFailDoc {
    a: RcAnchor<String>,
    bad: FailingSer,
    b: RcAnchor<String>,
}

#[derive(Debug, Deserialize)]
#[serde(deny_unknown_fields)]
#[allow(dead_code)]
struct Strict {
    a: i32,
}

#[derive(Serialize)]
struct SerDoc {
    a: RcAnchor<String>,
    b: RcAnchor<String>,
    c: ArcAnchor<String>,
}

fn err_str(e: &serde_saphyr::Error) -> String {
    let i = lab::err_info_raw(e);
    format!("Err({}@{}:{})", i.kind, i.line, i.col)
}

fn res<T>(r: Result<Result<T, serde_saphyr::Error>, Abnormal>, f: impl FnOnce(T) -> String) -> String {
    match r {
        Ok(Ok(v)) => f(v),
        Ok(Err(e)) => err_str(&e),
        Err(Abnormal::ProbePanic) => "probe-panic".into(),
        Err(Abnormal::Panic(s)) => format!("PANIC({s})"),
        Err(Abnormal::Liveness(s)) => format!("LIVENESS({s})"),
    }
}

const NEST_RC_DOC: &str = "f0: x\na: &s shared\nf1: x\nb: *s\nf2: x\n";

/// Execute one call; returns its canonical result. Inner calls (nesting) are logged in NEST_LOG.
pub fn run_call(c: &Call) -> String {
    match c {
        Call::OkCfg => res(guard(|| serde_saphyr::from_str::<Cfg>("name: a\nn: 1\nlist: [1, 2]\n")), |v| format!("{v:?}")),
        Call::OkJsonAnchors => res(
            guard(|| serde_saphyr::from_str::<serde_json::Value>("p: &x [1, 2]\nq: *x\nr: {<<: &m {a: 1}, b: *x}\n")),
            |v| v.to_string(),
        ),
        Call::FailMidAnchor => res(
            guard(|| serde_saphyr::from_str::<serde_json::Value>("a: &x {k: [1, 2], k: 3}\nb: *x\n")),
            |v| v.to_string(),
        ),
        Call::RcShare => res(guard(|| serde_saphyr::from_str::<RcDoc>("a: &s shared\nb: *s\nc: other\n")), |d| {
            format!(
                "a={} b={} c={} ab={} ac={}",
                d.a.0,
                d.b.0,
                d.c.0,
                std::rc::Rc::ptr_eq(&d.a.0, &d.b.0),
                std::rc::Rc::ptr_eq(&d.a.0, &d.c.0)
            )
        }),
        Call::RcFailInside => res(guard(|| serde_saphyr::from_str::<RcDoc>("a: &s [1, 2]\nb: *s\nc: x\n")), |d| format!("{d:?}")),
        Call::ArcShare => res(guard(|| serde_saphyr::from_str::<ArcDoc>("a: &s shared\nb: *s\n")), |d| {
            format!("a={} b={} ab={}", d.a.0, d.b.0, std::sync::Arc::ptr_eq(&d.a.0, &d.b.0))
        }),
        Call::Recursive => res(
            guard(|| serde_saphyr::from_str::<Kingdom>("king: &root\n  name: Aurelian\n  coronator: *root\n")),
            |k| {
                let king = k.king.borrow();
                let cor = king.coronator.upgrade();
                match cor {
                    Some(c) => format!("king={} coronator={} same={}", king.name, c.borrow().name, std::rc::Rc::ptr_eq(&c.0, &k.king.0)),
                    None => format!("king={} coronator=dangling", king.name),
                }
            },
        ),
        Call::BudgetBreach => {
            #[allow(deprecated)]
            let opts = serde_saphyr::options! { budget: serde_saphyr::budget! { max_nodes: 3 } };
            res(
                guard(|| serde_saphyr::from_str_with_options::<serde_json::Value>("a: [1, 2, 3, 4, 5]\n", opts)),
                |v| v.to_string(),
            )
        }
        Call::AliasLimit => {
            #[allow(deprecated)]
            let opts = {
                let mut o = serde_saphyr::Options::default();
                o.alias_limits.max_total_replayed_events = 2;
                o
            };
            res(
                guard(|| serde_saphyr::from_str_with_options::<serde_json::Value>("a: &x [1, 2, 3]\nb: *x\n", opts)),
                |v| v.to_string(),
            )
        }
        Call::MissingNull => res(guard(|| serde_saphyr::from_str::<Inner>("~")), |v| format!("{v:?}")),
        Call::MissingNested => res(guard(|| serde_saphyr::from_str::<Nested>("id: 1\ninner:\n  k: x\n")), |v| format!("{v:?}")),
        Call::UnknownFieldStatic => res(guard(|| serde_saphyr::from_str::<Strict>("a: 1\nzzz: 2\n")), |v| format!("{v:?}")),
        Call::RestrictiveVisitor => res(guard(|| serde_saphyr::from_str::<OnlyU8>("abc")), |v| format!("{v:?}")),
        Call::ReaderFault => {
            let rd = SimReader::new(
                b"name: abcdefgh\nn: 12\nlist: [1, 2, 3]\n",
                ReaderScript {
                    chunking: Some(Chunking::Fixed(4)),
                    faults: vec![ReadFault {
                        pos: FaultPos::AtByte(22),
                        kind: ErrKind::ConnectionReset,
                        after: After::Sticky,
                    }],
                    ..Default::default()
                },
            );
            res(guard(|| serde_saphyr::from_reader::<_, Cfg>(rd)), |v| format!("{v:?}"))
        }
        Call::ReaderRc { second } => {
            // (filler entries between the anchor and its alias: the scanner reads ahead, and only reads are
            // hand-over points; with the filler the other thread is certain to run between the two)
            let filler: String = (0..24).map(|i| format!("z{i}: {i}\n")).collect();
            let text = if *second { format!("a: &s beta\n{filler}b: *s\nc: &t z2\n") } else { format!("a: &s alpha\n{filler}b: *s\nc: z\n") };
            let rd = SimReader::new(text.as_bytes(), ReaderScript::fixed(3));
            res(guard(|| serde_saphyr::from_reader::<_, RcDoc>(rd)), |d| {
                format!("a={} b={} c={} ab={}", d.a.0, d.b.0, d.c.0, std::rc::Rc::ptr_eq(&d.a.0, &d.b.0))
            })
        }
        Call::DropReenters { ok, arc } => {
            #[allow(deprecated)]
            let opts = serde_saphyr::options! { duplicate_keys: serde_saphyr::DuplicateKeyPolicy::LastWins };
            match (*ok, *arc) {
                (false, false) => res(
                    guard(|| serde_saphyr::from_str::<Vec<serde_saphyr::RcAnchor<DropCalls>>>("- &a 1\n- oops\n")),
                    |v| format!("{}", v.len()),
                ),
                (false, true) => res(
                    guard(|| serde_saphyr::from_str::<Vec<serde_saphyr::ArcAnchor<DropCalls>>>("- &a 1\n- oops\n")),
                    |v| format!("{}", v.len()),
                ),
                (true, false) => res(
                    guard(|| {
                        serde_saphyr::from_str_with_options::<BTreeMap<String, serde_saphyr::RcAnchor<DropCalls>>>(
                            "k: &a 1\nk: &b 2\n",
                            opts,
                        )
                    }),
                    |v| format!("{:?}", v.keys().collect::<Vec<_>>()),
                ),
                (true, true) => res(
                    guard(|| {
                        serde_saphyr::from_str_with_options::<BTreeMap<String, serde_saphyr::ArcAnchor<DropCalls>>>(
                            "k: &a 1\nk: &b 2\n",
                            opts,
                        )
                    }),
                    |v| format!("{:?}", v.keys().collect::<Vec<_>>()),
                ),
            }
        }
        Call::DropReentersReplaced => res(guard(|| serde_saphyr::from_str::<RcAnchor<OuterDiscards>>("&a { item: 5 }\n")), |_| "ok".to_string()),
        Call::RcMixedSeq => res(guard(|| serde_saphyr::from_str::<Vec<RcAnchor<i32>>>("- &a 1\n- 7\n- *a\n- 9\n")), |v| {
            format!(
                "{:?} first=third: {} first=second: {}",
                v.iter().map(|x| *x.0).collect::<Vec<_>>(),
                v.len() == 4 && std::rc::Rc::ptr_eq(&v[0].0, &v[2].0),
                v.len() == 4 && std::rc::Rc::ptr_eq(&v[0].0, &v[1].0)
            )
        }),
        Call::DropDuringUnwind => res(guard(|| serde_saphyr::from_str::<UnwindDoc>("a: 1\np: &t x\n")), |v| format!("{v:?}")),
        Call::DropOrder { arc } => {
            let doc: String = (1..=10).map(|i| format!("- &a{i} r{i:02}\n")).collect::<String>() + "- [bad]\n";
            DROP_ORDER.with(|l| l.borrow_mut().clear());
            let r = if *arc {
                res(guard(|| serde_saphyr::from_str::<Vec<serde_saphyr::ArcAnchor<Noted>>>(&doc)), |v| format!("{}", v.len()))
            } else {
                res(guard(|| serde_saphyr::from_str::<Vec<serde_saphyr::RcAnchor<Noted>>>(&doc)), |v| format!("{}", v.len()))
            };
            let order = DROP_ORDER.with(|l| l.borrow_mut().drain(..).collect::<Vec<_>>());
            format!("{r} dropped in the order {}", order.join(","))
        }
        Call::ValidDebug { validator } => {
            let doc = "name: ''\nn: 5000\nlist: [1, 2, 3, 4]\nzzz: toolong\n";
            let r = if *validator {
                guard(|| serde_saphyr::from_str_validate::<VCfg>(doc))
            } else {
                guard(|| serde_saphyr::from_str_valid::<VCfg>(doc))
            };
            match r {
                Ok(Ok(v)) => format!("{v:?}"),
                Ok(Err(e)) => match e.without_snippet() {
                    // (the validator crate's own error type prints its hash maps in their order: only the
                    // part that is this crate's is looked at)
                    serde_saphyr::Error::ValidatorError { locations, .. } => format!("{} | {:?}", err_str(&e), locations),
                    other => format!("{} | {:?}", err_str(&e), other),
                },
                Err(a) => format!("{a:?}"),
            }
        }
        Call::ReaderArc { second } => {
            let filler: String = (0..24).map(|i| format!("z{i}: {i}\n")).collect();
            let text = if *second { format!("a: &s beta\n{filler}b: *s\n") } else { format!("a: &s alpha\n{filler}b: *s\n") };
            let rd = SimReader::new(text.as_bytes(), ReaderScript::fixed(3));
            res(guard(|| serde_saphyr::from_reader::<_, ArcDoc>(rd)), |d| {
                format!("a={} b={} ab={}", d.a.0, d.b.0, std::sync::Arc::ptr_eq(&d.a.0, &d.b.0))
            })
        }
        Call::ReaderPanics => {
            struct PanicAt(std::io::Cursor<&'static [u8]>, usize);
            impl std::io::Read for PanicAt {
                fn read(&mut self, buf: &mut [u8]) -> std::io::Result<usize> {
                    sched::yield_point();
                    if self.0.position() as usize >= self.1 {
                        std::panic::panic_any(SimMarker::ProbePanic);
                    }
                    let n = buf.len().min(4);
                    self.0.read(&mut buf[..n])
                }
            }
            let rd = PanicAt(std::io::Cursor::new(b"a: &s shared\nb: *s\nc: &t more\nd: *t\n"), 16);
            res(guard(|| serde_saphyr::from_reader::<_, RcDoc>(rd)), |d| format!("a={}", d.a.0))
        }
        Call::SerYaml12 { on } => {
            let mut m: BTreeMap<String, String> = BTreeMap::new();
            for (k, v) in [("y", "n"), ("no", "yes"), ("On", "off"), ("plain", "word"), ("true", "null"), ("N", "~")] {
                m.insert(k.to_string(), v.to_string());
            }
            let on = *on;
            let opts = serde_saphyr::ser_options! { yaml_12: on };
            match guard(|| serde_saphyr::to_string_with_options(&m, opts)) {
                Ok(Ok(t)) => t,
                Ok(Err(e)) => format!("SerErr({e})"),
                Err(a) => format!("{a:?}"),
            }
        }
        Call::SerNamedAnchorsNested => {
            struct Inner;
            impl Serialize for Inner {
                fn serialize<S: serde::Serializer>(&self, s: S) -> Result<S::Ok, S::Error> {
                    let shared = std::rc::Rc::new("inner".to_string());
                    let v = vec![RcAnchor(shared.clone()), RcAnchor(shared)];
                    let text = serde_saphyr::to_string(&v).map_err(|e| <S::Error as serde::ser::Error>::custom(e.to_string()))?;
                    s.serialize_str(&text)
                }
            }
            #[derive(Serialize)]
            struct Outer {
                a: RcAnchor<String>,
                n: Inner,
                b: RcAnchor<String>,
                c: RcAnchor<String>,
                d: RcAnchor<String>,
            }
            let s1 = std::rc::Rc::new("outer".to_string());
            let s2 = std::rc::Rc::new("second".to_string());
            let o = Outer {
                a: RcAnchor(s1.clone()),
                n: Inner,
                b: RcAnchor(s1),
                c: RcAnchor(s2.clone()),
                d: RcAnchor(s2),
            };
            let opts = serde_saphyr::ser_options! { anchor_generator: Some(|id| format!("node{id}")) };
            let nested = match guard(|| serde_saphyr::to_string_with_options(&o, opts)) {
                Ok(Ok(t)) => t,
                Ok(Err(e)) => format!("SerErr({e})"),
                Err(a) => format!("{a:?}"),
            };
            // the same document with the inner text computed beforehand: no call nested in the outer one
            #[derive(Serialize)]
            struct Flat {
                a: RcAnchor<String>,
                n: String,
                b: RcAnchor<String>,
                c: RcAnchor<String>,
                d: RcAnchor<String>,
            }
            let inner_text = {
                let shared = std::rc::Rc::new("inner".to_string());
                serde_saphyr::to_string(&vec![RcAnchor(shared.clone()), RcAnchor(shared)]).unwrap_or_default()
            };
            let f1 = std::rc::Rc::new("outer".to_string());
            let f2 = std::rc::Rc::new("second".to_string());
            let flat_doc = Flat {
                a: RcAnchor(f1.clone()),
                n: inner_text,
                b: RcAnchor(f1),
                c: RcAnchor(f2.clone()),
                d: RcAnchor(f2),
            };
            let opts = serde_saphyr::ser_options! { anchor_generator: Some(|id| format!("node{id}")) };
            let flat = match guard(|| serde_saphyr::to_string_with_options(&flat_doc, opts)) {
                Ok(Ok(t)) => t,
                Ok(Err(e)) => format!("SerErr({e})"),
                Err(a) => format!("{a:?}"),
            };
            if nested == flat { nested } else { format!("{NESTED_MISMATCH} nested={nested:?} flat={flat:?}") }
        }
        Call::ReaderUtf16Capped | Call::ReaderTinyCapped => {
            let (bytes, cap): (Vec<u8>, usize) = if matches!(c, Call::ReaderUtf16Capped) {
                let b = crate::prop::c10::to_utf16("a: [1, 2, 3]\nb: é\n", false).0;
                let l = b.len();
                (b, l + 1)
            } else {
                (b"7".to_vec(), 2)
            };
            #[allow(deprecated)]
            let opts = {
                let mut o = serde_saphyr::Options::default();
                let mut b = serde_saphyr::Budget::default();
                b.max_reader_input_bytes = Some(cap);
                o.budget = Some(b);
                o
            };
            let rd = SimReader::new(&bytes, ReaderScript::fixed(3));
            res(guard(|| serde_saphyr::from_reader_with_options::<_, serde_json::Value>(rd, opts)), |v| v.to_string())
        }
        Call::SerWriterPanics => {
            struct PanicAfter(usize);
            impl std::io::Write for PanicAfter {
                fn write(&mut self, buf: &[u8]) -> std::io::Result<usize> {
                    if self.0 < buf.len() {
                        std::panic::panic_any(SimMarker::ProbePanic);
                    }
                    self.0 -= buf.len();
                    Ok(buf.len())
                }
                fn flush(&mut self) -> std::io::Result<()> {
                    Ok(())
                }
            }
            #[derive(Serialize)]
            struct G {
                a: RcAnchor<String>,
                blob: Blob,
                b: RcAnchor<String>,
            }
            let s = std::rc::Rc::new("shared".to_string());
            let g = G {
                a: RcAnchor(s.clone()),
                blob: Blob(b"hello world".to_vec()),
                b: RcAnchor(s),
            };
            let mut w = PanicAfter(30);
            match guard(|| serde_saphyr::to_io_writer(&mut w, &g)) {
                Ok(Ok(())) => "Ok".into(),
                Ok(Err(e)) => format!("SerErr({e})"),
                Err(Abnormal::ProbePanic) => "writer-panic".into(),
                Err(a) => format!("{a:?}"),
            }
        }
        Call::SerNested => {
            struct Inner;
            impl Serialize for Inner {
                fn serialize<S: serde::Serializer>(&self, s: S) -> Result<S::Ok, S::Error> {
                    let shared = std::rc::Rc::new("inner".to_string());
                    let v = vec![RcAnchor(shared.clone()), RcAnchor(shared)];
                    let text = serde_saphyr::to_string(&v).map_err(|e| <S::Error as serde::ser::Error>::custom(e.to_string()))?;
                    s.serialize_str(&text)
                }
            }
            #[derive(Serialize)]
            struct Outer {
                a: RcAnchor<String>,
                n: Inner,
                b: RcAnchor<String>,
                c: RcAnchor<String>,
            }
            let s = std::rc::Rc::new("outer".to_string());
            let o = Outer {
                a: RcAnchor(s.clone()),
                n: Inner,
                b: RcAnchor(s),
                c: RcAnchor(std::rc::Rc::new("solo".to_string())),
            };
            let nested = match guard(|| serde_saphyr::to_string(&o)) {
                Ok(Ok(t)) => t,
                Ok(Err(e)) => format!("SerErr({e})"),
                Err(a) => format!("{a:?}"),
            };
            // the flat equivalent: inner text computed beforehand
            #[derive(Serialize)]
            struct Flat {
                a: RcAnchor<String>,
                n: String,
                b: RcAnchor<String>,
                c: RcAnchor<String>,
            }
            let inner_text = {
                let shared = std::rc::Rc::new("inner".to_string());
                serde_saphyr::to_string(&vec![RcAnchor(shared.clone()), RcAnchor(shared)]).unwrap_or_default()
            };
            let f = std::rc::Rc::new("outer".to_string());
            let flat_doc = Flat {
                a: RcAnchor(f.clone()),
                n: inner_text,
                b: RcAnchor(f),
                c: RcAnchor(std::rc::Rc::new("solo".to_string())),
            };
            let flat = match guard(|| serde_saphyr::to_string(&flat_doc)) {
                Ok(Ok(t)) => t,
                Ok(Err(e)) => format!("SerErr({e})"),
                Err(a) => format!("{a:?}"),
            };
            if nested == flat { nested } else { format!("{NESTED_MISMATCH} nested={nested:?} flat={flat:?}") }
        }
        Call::ReportCallbackPanics => {
            let opts = serde_saphyr::Options::default().with_budget_report(|_r| panic!("report callback panics"));
            match guard(|| serde_saphyr::from_str_with_options::<serde_json::Value>("a: [1, 2]\n", opts)) {
                Ok(Ok(v)) => v.to_string(),
                Ok(Err(e)) => err_str(&e),
                Err(_) => "callback-panic".into(),
            }
        }
        Call::ReportCallbackCounts | Call::ReportCallbackNested => {
            let nested = matches!(c, Call::ReportCallbackNested);
            let log: std::rc::Rc<RefCell<Vec<String>>> = std::rc::Rc::new(RefCell::new(Vec::new()));
            let l2 = log.clone();
            let opts = serde_saphyr::Options::default().with_budget_report(move |r| {
                l2.borrow_mut().push(format!("outer:{}", r.events));
                if nested {
                    let l3 = l2.clone();
                    let inner = serde_saphyr::Options::default().with_budget_report(move |r| l3.borrow_mut().push(format!("inner:{}", r.events)));
                    let v = serde_saphyr::from_str_with_options::<serde_json::Value>("[1, 2, 3]\n", inner);
                    l2.borrow_mut().push(format!("inner-result:{}", v.is_ok()));
                }
            });
            let r = guard(|| serde_saphyr::from_str_with_options::<serde_json::Value>("a: [1, 2]\nb: c\n", opts));
            let calls = log.borrow().join(",");
            match r {
                Ok(Ok(v)) => format!("{v} reports=[{calls}]"),
                Ok(Err(e)) => format!("{} reports=[{calls}]", err_str(&e)),
                Err(a) => format!("{a:?} reports=[{calls}]"),
            }
        }
        Call::ReaderOk => {
            let rd = SimReader::new(b"a: &s shared\nb: *s\nc: z\n", ReaderScript::fixed(3));
            res(guard(|| serde_saphyr::from_reader::<_, RcDoc>(rd)), |d| {
                format!("a={} ab={}", d.a.0, std::rc::Rc::ptr_eq(&d.a.0, &d.b.0))
            })
        }
        Call::IterHalf => {
            let mut rd = SimReader::new(b"a: &s one\nb: *s\nc: x\n---\na: &s two\nb: *s\nc: y\n---\na: 3\nb: 3\nc: 3\n", ReaderScript::fixed(5));
            let r = guard(|| {
                let mut it = serde_saphyr::read::<_, RcDoc>(&mut rd);
                let mut out = Vec::new();
                for _ in 0..2 {
                    sched::yield_point();
                    match it.next() {
                        Some(Ok(d)) => out.push(format!("a={} ab={}", d.a.0, std::rc::Rc::ptr_eq(&d.a.0, &d.b.0))),
                        Some(Err(e)) => out.push(err_str(&e)),
                        None => out.push("None".into()),
                    }
                }
                // the iterator is abandoned here, half-way
                Ok::<_, serde_saphyr::Error>(out.join(";"))
            });
            res(r, |s| s)
        }
        Call::IterAlternate => {
            let mut r1 = SimReader::new(b"a: &s one\nb: *s\nc: x\n---\na: &t two\nb: *t\nc: y\n", ReaderScript::fixed(7));
            let mut r2 = SimReader::new(b"a: p\nb: &s q\nc: *s\n---\nnot: a doc for this type\n---\na: &u r\nb: *u\nc: *u\n", ReaderScript::fixed(2));
            let r = guard(|| {
                let mut i1 = serde_saphyr::read::<_, RcDoc>(&mut r1);
                let mut i2 = serde_saphyr::read::<_, RcDoc>(&mut r2);
                let mut out = Vec::new();
                let show = |x: Option<Result<RcDoc, serde_saphyr::Error>>| match x {
                    Some(Ok(d)) => format!(
                        "a={} ab={} bc={}",
                        d.a.0,
                        std::rc::Rc::ptr_eq(&d.a.0, &d.b.0),
                        std::rc::Rc::ptr_eq(&d.b.0, &d.c.0)
                    ),
                    Some(Err(e)) => err_str(&e),
                    None => "None".into(),
                };
                for _ in 0..3 {
                    sched::yield_point();
                    out.push(show(i1.next()));
                    out.push(show(i2.next()));
                }
                Ok::<_, serde_saphyr::Error>(out.join(";"))
            });
            res(r, |s| s)
        }
        Call::SerShared => {
            let s = std::rc::Rc::new("shared".to_string());
            let d = SerDoc {
                a: RcAnchor(s.clone()),
                b: RcAnchor(s),
                c: ArcAnchor(std::sync::Arc::new("solo".to_string())),
            };
            match guard(|| serde_saphyr::to_string(&d)) {
                Ok(Ok(t)) => t,
                Ok(Err(e)) => format!("SerErr({e})"),
                Err(a) => format!("{a:?}"),
            }
        }
        Call::SerPlain => match guard(|| {
            serde_saphyr::to_string(&Cfg {
                name: "x y".into(),
                n: 3,
                flag: Some(true),
                list: vec![1, 2],
            })
        }) {
            Ok(Ok(t)) => t,
            Ok(Err(e)) => format!("SerErr({e})"),
            Err(a) => format!("{a:?}"),
        },
        Call::ValidEntry => res(guard(|| serde_saphyr::from_str_valid::<VCfg>("name: x\nn: 5000\n")), |v| format!("{v:?}")),
        Call::ValidatorTwoErrors => {
            // two failing fields: location and rendering must not depend on a hash seed
            match guard(|| serde_saphyr::from_str_validate::<VCfg>("name: ''\nn: 5000\n")) {
                Ok(Ok(v)) => format!("{v:?}"),
                Ok(Err(e)) => format!("{} | {}", err_str(&e), e),
                Err(a) => format!("{a:?}"),
            }
        }
        Call::GardeTwoErrors => match guard(|| serde_saphyr::from_str_valid::<VCfg>("name: ''\nn: 5000\n")) {
            Ok(Ok(v)) => format!("{v:?}"),
            Ok(Err(e)) => format!("{} | {}", err_str(&e), e),
            Err(a) => format!("{a:?}"),
        },
        Call::ProbePanic => res(guard(|| serde_saphyr::from_str::<PanicDoc>("a: &s v\np: &t x\n")), |v| format!("{v:?}")),
        Call::ProbeError => res(guard(|| serde_saphyr::from_str::<ErrDoc>("a: &s v\np: &t x\nb: *s\n")), |v| format!("{v:?}")),
        Call::FailAfterAliases => res(
            guard(|| serde_saphyr::from_str::<serde_json::Value>("a: &x [1, 2]\nb: *x\nc: *x\nd: *x\ne: [*x, *x\n")),
            |v| v.to_string(),
        ),
        Call::FailDeepInReplay => res(
            guard(|| {
                serde_saphyr::from_str::<std::collections::BTreeMap<String, Vec<Vec<i32>>>>(
                    "p: &i [[1, 2]]\nq: *i\nr: *i\ns: [[4, 5], [6, oops]]\nt: *i\n",
                )
            }),
            |v| format!("{v:?}"),
        ),
        Call::LimitsExactlyAtUsage | Call::PerAnchorLimitBelowUsage => {
            // usage of this document: anchor x expanded 3 times (3 replayed scalar events), nesting 2
            let doc = "a: &x v\nb: *x\nc: [*x, *x]\nd: &y [1]\ne: *y\n";
            #[allow(deprecated)]
            let opts = {
                let mut o = serde_saphyr::Options::default();
                o.alias_limits.max_alias_expansions_per_anchor = if matches!(c, Call::LimitsExactlyAtUsage) { 3 } else { 2 };
                o.alias_limits.max_total_replayed_events = 6; // 3 scalars + [ 1 ]
                o.alias_limits.max_replay_stack_depth = 1;
                let mut b = serde_saphyr::Budget::default();
                b.max_aliases = 4;
                b.max_anchors = 2;
                b.max_depth = 2;
                o.budget = Some(b);
                o
            };
            res(guard(|| serde_saphyr::from_str_with_options::<serde_json::Value>(doc, opts)), |v| v.to_string())
        }
        Call::RcPlain => res(guard(|| serde_saphyr::from_str::<RcDoc>("a: x\nb: y\nc: z\n")), |d| {
            format!(
                "a={} b={} c={} ab={} bc={}",
                d.a.0,
                d.b.0,
                d.c.0,
                std::rc::Rc::ptr_eq(&d.a.0, &d.b.0),
                std::rc::Rc::ptr_eq(&d.b.0, &d.c.0)
            )
        }),
        Call::RcWeakPlain => res(guard(|| serde_saphyr::from_str::<WeakDoc>("a: x\nw: y\n")), |d| {
            format!("a={} w={:?}", d.a.0, d.w.upgrade().map(|r| (*r).clone()))
        }),
        Call::IterFailThenReaderBreaks => {
            // document 0 fails at `oops`; the reader dies inside the rest of document 0 while the iterator skips it
            let text = b"- 1\n- oops\n- [3, 4, 5, 6, 7, 8]\n- {a: b, c: d}\n- 9\n---\n- 10\n";
            let mut rd = SimReader::new(
                text,
                ReaderScript {
                    chunking: Some(Chunking::Fixed(6)),
                    faults: vec![ReadFault {
                        pos: FaultPos::AtByte(30),
                        kind: ErrKind::BrokenPipe,
                        after: After::Sticky,
                    }],
                    ..Default::default()
                },
            );
            let r = guard(|| {
                let mut it = serde_saphyr::read::<_, Vec<i64>>(&mut rd);
                let first = match it.next() {
                    Some(Ok(v)) => format!("{v:?}"),
                    Some(Err(e)) => err_str(&e),
                    None => "None".into(),
                };
                // abandoned here
                Ok::<_, serde_saphyr::Error>(first)
            });
            res(r, |s| s)
        }
        Call::SerNumericLooking | Call::SerWordSameLength => {
            // a fresh allocation of the same size class each time
            let v: String = if matches!(c, Call::SerNumericLooking) { "12345" } else { "hello" }.chars().collect();
            let r = guard(|| serde_saphyr::to_string(&v));
            drop(v);
            match r {
                Ok(Ok(t)) => t,
                Ok(Err(e)) => format!("SerErr({e})"),
                Err(a) => format!("{a:?}"),
            }
        }
        Call::SerBinary => match guard(|| serde_saphyr::to_string(&blob_doc())) {
            Ok(Ok(t)) => t,
            Ok(Err(e)) => format!("SerErr({e})"),
            Err(a) => format!("{a:?}"),
        },
        Call::SerBinaryWriterFails { at } => {
            let mut w = SimWriter::new(
                WriterScript {
                    fail_at_byte: Some(*at as usize),
                    sticky: true,
                    ..Default::default()
                },
                100_000,
            );
            let h = w.clone();
            let r = guard(|| serde_saphyr::to_io_writer(&mut w, &blob_doc()));
            let written = String::from_utf8_lossy(&h.st.borrow().accepted).into_owned();
            match r {
                Ok(Ok(())) => format!("Ok wrote {written:?}"),
                Ok(Err(e)) => format!("SerErr({e}) wrote {written:?}"),
                Err(a) => format!("{a:?}"),
            }
        }
        Call::ValidFuzzyGarde => match guard(|| serde_saphyr::from_str_valid::<Account>(FUZZY_DOC)) {
            Ok(Ok(v)) => format!("{v:?}"),
            Ok(Err(e)) => format!("{} | {}", err_str(&e), e),
            Err(a) => format!("{a:?}"),
        },
        Call::ValidFuzzyValidator => match guard(|| serde_saphyr::from_str_validate::<Account>(FUZZY_DOC)) {
            Ok(Ok(v)) => format!("{v:?}"),
            Ok(Err(e)) => format!("{} | {}", err_str(&e), e),
            Err(a) => format!("{a:?}"),
        },
        Call::SerFailsMidway => {
            let s = std::rc::Rc::new("shared".to_string());
            let d = SerFailDoc {
                a: RcAnchor(s.clone()),
                bad: FailingSer,
                b: RcAnchor(s),
            };
            match guard(|| serde_saphyr::to_string(&d)) {
                Ok(Ok(t)) => t,
                Ok(Err(e)) => format!("SerErr({e})"),
                Err(a) => format!("{a:?}"),
            }
        }
        Call::NestInsideAnchor { k, inner } => {
            NEST.with(|n| n.borrow_mut().push((*k, 0, (**inner).clone())));
            let r = guard(|| serde_saphyr::from_str::<AnchoredNestDoc>("w: &outer\n  f: x\n  v: 1\nz: *outer\n"));
            NEST.with(|n| n.borrow_mut().pop());
            res(r, |d| format!("v={} wz={}", d.w.0.v, std::rc::Rc::ptr_eq(&d.w.0, &d.z.0)))
        }
        Call::NestRc { k, inner } => {
            NEST.with(|n| n.borrow_mut().push((*k, 0, (**inner).clone())));
            let r = guard(|| serde_saphyr::from_str::<NestDoc>(NEST_RC_DOC));
            NEST.with(|n| n.borrow_mut().pop());
            res(r, |d| format!("a={} b={} ab={}", d.a.0, d.b.0, std::rc::Rc::ptr_eq(&d.a.0, &d.b.0)))
        }
        Call::NestRecursive { k, inner } => {
            NEST.with(|n| n.borrow_mut().push((*k, 0, (**inner).clone())));
            let r = guard(|| serde_saphyr::from_str::<Kingdom>("king: &root\n  name: Aurelian\n  nest: x\n  coronator: *root\n"));
            NEST.with(|n| n.borrow_mut().pop());
            res(r, |k| {
                let king = k.king.borrow();
                match king.coronator.upgrade() {
                    Some(c) => format!("king={} same={}", king.name, std::rc::Rc::ptr_eq(&c.0, &k.king.0)),
                    None => format!("king={} coronator=dangling", king.name),
                }
            })
        }
    }
}

/// the same call with its nesting removed (nest point 3 never fires)
fn without_nesting(c: &Call) -> Call {
    match c {
        Call::NestRc { .. } => Call::NestRc {
            k: 9,
            inner: Box::new(Call::OkCfg),
        },
        Call::NestRecursive { .. } => Call::NestRecursive {
            k: 9,
            inner: Box::new(Call::OkCfg),
        },
        Call::NestInsideAnchor { .. } => Call::NestInsideAnchor {
            k: 9,
            inner: Box::new(Call::OkCfg),
        },
        other => other.clone(),
    }
}

// ------------------------------------------------------------------------------------------------
// Isolation table: each call once on a fresh thread

static ISO: OnceLock<Mutex<BTreeMap<Call, Result<String, String>>>> = OnceLock::new();

fn fresh<R: Send + 'static>(f: impl FnOnce() -> R + Send + 'static) -> R {
    std::thread::Builder::new()
        .stack_size(crate::run::STACK_BYTES)
        .spawn(f)
        .unwrap()
        .join()
        .unwrap()
}

/// Ok(result) or Err(description) when the call is not even deterministic in isolation
pub fn isolated(c: &Call) -> Result<String, String> {
    let key = without_nesting(c);
    let map = ISO.get_or_init(|| Mutex::new(BTreeMap::new()));
    if let Some(v) = map.lock().unwrap().get(&key) {
        return v.clone();
    }
    let mut seen: Vec<String> = Vec::new();
    for _ in 0..6 {
        let k2 = key.clone();
        let r = fresh(move || run_call(&k2));
        if !seen.contains(&r) {
            seen.push(r);
        }
    }
    let v = if seen.len() == 1 {
        Ok(seen.pop().unwrap())
    } else {
        Err(format!("{} different results on six fresh threads: {:?}", seen.len(), seen))
    };
    map.lock().unwrap().insert(key, v.clone());
    v
}

// ------------------------------------------------------------------------------------------------

#[derive(Clone, Debug, Serialize, Deserialize)]
pub struct HistoryCase {
    /// one history per client thread
    pub threads: Vec<Vec<Call>>,
    /// scheduler decisions (index among live threads) for every hand-over point; empty for one thread
    pub decisions: Vec<usize>,
    /// single-thread histories only: a call made from the destructor of a thread-local that was initialised
    /// before the thread's first call, i.e. while the thread is torn down and after the crate's own
    /// thread-locals (registered later) have been destroyed
    #[serde(default, skip_serializing_if = "Option::is_none")]
    pub teardown: Option<Call>,
}

/// calls that may be made during thread teardown (none of them touches a thread-local of the harness)
pub const TEARDOWN: [Call; 10] = [
    Call::OkCfg,
    Call::OkJsonAnchors,
    Call::FailMidAnchor,
    Call::RcShare,
    Call::RcFailInside,
    Call::ArcShare,
    Call::Recursive,
    Call::MissingNested,
    Call::BudgetBreach,
    Call::SerShared,
];

struct TeardownProbe {
    call: Call,
    out: std::sync::Arc<Mutex<Option<String>>>,
}
impl Drop for TeardownProbe {
    fn drop(&mut self) {
        let r = run_call(&self.call);
        *self.out.lock().unwrap() = Some(r);
    }
}
thread_local! {
    static TEARDOWN_PROBE: RefCell<Option<TeardownProbe>> = const { RefCell::new(None) };
}

/// Run a single-thread history on a fresh thread; the teardown call, if any, is armed before the first call.
fn run_single(h: Vec<Call>, teardown: Option<Call>) -> (ThreadOut, Option<String>) {
    let slot = std::sync::Arc::new(Mutex::new(None));
    let s2 = slot.clone();
    let o = fresh(move || {
        if let Some(call) = teardown {
            TEARDOWN_PROBE.with(|t| *t.borrow_mut() = Some(TeardownProbe { call, out: s2 }));
        }
        run_history(&h)
    });
    let t = slot.lock().unwrap().take();
    (o, t)
}

struct ThreadOut {
    /// (call, own result, inner results)
    results: Vec<(Call, String, Vec<(Call, String)>)>,
    callbacks: u64,
}

fn run_history(h: &[Call]) -> ThreadOut {
    let mut results = Vec::new();
    CALLBACKS.with(|c| *c.borrow_mut() = 0);
    for c in h {
        sched::yield_point();
        NEST_LOG.with(|l| l.borrow_mut().clear());
        let own = run_call(c);
        let inner = NEST_LOG.with(|l| l.borrow_mut().drain(..).collect::<Vec<_>>());
        results.push((c.clone(), own, inner));
    }
    ThreadOut {
        results,
        callbacks: CALLBACKS.with(|c| *c.borrow()),
    }
}

/// Debugging aid: print what each call of a single-thread history returns and its isolation entry.
pub fn show(c: &HistoryCase) {
    for h in &c.threads {
        let h2 = h.clone();
        let (o, t) = run_single(h2, c.teardown.clone());
        if let (Some(tc), Some(tr)) = (&c.teardown, &t) {
            println!("teardown {} => {tr}\n    isolated: {:?}", short_call(tc), isolated(tc));
        }
        for (call, own, inner) in o.results {
            println!("{} => {own}\n    isolated: {:?}", short_call(&call), isolated(&call));
            for (ic, ir) in inner {
                println!("    nested {} => {ir}", short_call(&ic));
            }
        }
    }
}

pub fn exec(c: &HistoryCase, st: &mut Stats) -> Vec<Viol> {
    let mut out = Vec::new();
    let n = c.threads.len();
    let outs: Vec<ThreadOut>;
    let mut handovers = 0u64;
    let mut torn: Option<String> = None;
    if n == 1 {
        let (o, t) = run_single(c.threads[0].clone(), c.teardown.clone());
        outs = vec![o];
        torn = t;
    } else {
        let baton = Baton::new(n, c.decisions.clone());
        let mut handles = Vec::new();
        for (i, h) in c.threads.iter().enumerate() {
            let b = baton.clone();
            let h = h.clone();
            handles.push(
                std::thread::Builder::new()
                    .stack_size(crate::run::STACK_BYTES)
                    .spawn(move || {
                        b.enter(i);
                        let r = std::panic::catch_unwind(std::panic::AssertUnwindSafe(|| run_history(&h)));
                        b.leave(i);
                        r.ok()
                    })
                    .unwrap(),
            );
        }
        let mut v = Vec::new();
        for h in handles {
            match h.join() {
                Ok(Some(o)) => v.push(o),
                _ => v.push(ThreadOut {
                    results: vec![],
                    callbacks: 0,
                }),
            }
        }
        outs = v;
        let bs = baton.st.lock().unwrap();
        handovers = bs.handovers;
        st.add("steps.scheduler_decisions_used", bs.pos as u64);
    }
    st.add("steps.handovers", handovers);
    st.evals += c.threads.iter().map(|h| h.len() as u64).sum::<u64>();
    let sched_digest = crate::rng::fnv(serde_json::to_string(c).unwrap().as_bytes());
    st.schedules.insert(sched_digest);
    st.behaviours.insert(sched_digest);
    if n > 1 || c.threads[0].len() > 1 || c.threads[0].iter().any(|x| matches!(x, Call::NestRc { .. } | Call::NestRecursive { .. } | Call::NestInsideAnchor { .. })) {
        st.nontrivial.insert(sched_digest);
    }
    if let (1, Some(tc)) = (n, &c.teardown) {
        st.bump("fired.call_during_thread_teardown");
        let got = torn.unwrap_or_else(|| "<teardown call never ran>".to_string());
        st.note(&got);
        match isolated(tc) {
            Ok(want) if want != got => out.push(Viol {
                property: "C15".into(),
                clause: "teardown-call-differs-from-isolation".into(),
                detail: format!(
                    "{} made from a thread-local destructor after {} earlier calls: {:?}, on a fresh thread {:?}",
                    short_call(tc),
                    c.threads[0].len(),
                    got,
                    want
                ),
                case: Case::C15(c.clone()),
            }),
            _ => {}
        }
    }
    for (ti, o) in outs.iter().enumerate() {
        st.add("steps.probe_callbacks", o.callbacks);
        if o.results.len() != c.threads[ti].len() {
            out.push(Viol {
                property: "C15".into(),
                clause: "client-thread-died".into(),
                detail: format!("thread {ti} finished {} of {} calls", o.results.len(), c.threads[ti].len()),
                case: Case::C15(c.clone()),
            });
            continue;
        }
        for (ci, (call, own, inner)) in o.results.iter().enumerate() {
            st.note(own);
            if own.contains(NESTED_MISMATCH) {
                out.push(Viol {
                    property: "C15".into(),
                    clause: "nested-call-changes-outer-result".into(),
                    detail: format!("thread {ti} call {ci} {}: {own}", short_call(call)),
                    case: Case::C15(c.clone()),
                });
            }
            st.bump(&format!("call.{}", call_name(call)));
            let mut check = |what: &str, call: &Call, got: &str| {
                match isolated(call) {
                    Ok(want) => {
                        if want != got {
                            out.push(Viol {
                                property: "C15".into(),
                                clause: format!("{what}-differs-from-isolation"),
                                detail: format!(
                                    "thread {ti} call {ci} {}: in this history {:?}, on a fresh thread {:?}",
                                    short_call(call),
                                    got,
                                    want
                                ),
                                case: Case::C15(c.clone()),
                            });
                        }
                    }
                    Err(why) => out.push(Viol {
                        property: "C15".into(),
                        clause: "nondeterministic-in-isolation".into(),
                        detail: format!("{}: {why}", short_call(call)),
                        case: Case::C15(HistoryCase {
                            threads: vec![vec![without_nesting(call)]],
                            decisions: vec![],
                            teardown: None,
                        }),
                    }),
                }
            };
            check("call", call, own);
            for (ic, ir) in inner {
                st.note(ir);
                st.bump("fired.probe_nested_call");
                check("nested-call", ic, ir);
            }
            match call {
                Call::ProbePanic => st.bump("fired.probe_panic"),
                Call::ProbeError => st.bump("fired.probe_error"),
                Call::ReaderFault => st.bump("fired.hard_err.ConnectionReset"),
                Call::IterHalf => st.bump("fired.abandon_iterator"),
                _ => {}
            }
        }
    }
    out
}

fn call_name(c: &Call) -> String {
    match c {
        Call::NestRc { .. } => "NestRc".into(),
        Call::NestRecursive { .. } => "NestRecursive".into(),
        Call::NestInsideAnchor { .. } => "NestInsideAnchor".into(),
        o => format!("{o:?}"),
    }
}

fn short_call(c: &Call) -> String {
    match c {
        Call::NestRc { k, inner } => format!("NestRc(k={k}, inner={})", short_call(inner)),
        Call::NestRecursive { k, inner } => format!("NestRecursive(k={k}, inner={})", short_call(inner)),
        Call::NestInsideAnchor { k, inner } => format!("NestInsideAnchor(k={k}, inner={})", short_call(inner)),
        o => format!("{o:?}"),
    }
}

// ------------------------------------------------------------------------------------------------
// Generation

/// calls used as inner calls of nestings and in exhaustive histories
pub const CORE: [Call; 24] = [
    Call::ReaderRc { second: false },
    Call::ReaderRc { second: true },
    Call::ReaderArc { second: false },
    Call::ReaderArc { second: true },
    Call::ReportCallbackPanics,
    Call::OkCfg,
    Call::FailMidAnchor,
    Call::RcShare,
    Call::RcFailInside,
    Call::Recursive,
    Call::BudgetBreach,
    Call::MissingNull,
    Call::UnknownFieldStatic,
    Call::ReaderFault,
    Call::IterHalf,
    Call::ProbePanic,
    Call::SerShared,
    Call::FailAfterAliases,
    Call::LimitsExactlyAtUsage,
    Call::PerAnchorLimitBelowUsage,
    Call::IterFailThenReaderBreaks,
    Call::ReaderOk,
    Call::SerNumericLooking,
    Call::SerWordSameLength,
];

fn all_nestings() -> Vec<Call> {
    let mut v = Vec::new();
    for inner in BASIC.iter() {
        for k in 0..3u8 {
            v.push(Call::NestRc {
                k,
                inner: Box::new(inner.clone()),
            });
        }
        v.push(Call::NestRecursive {
            k: 0,
            inner: Box::new(inner.clone()),
        });
        v.push(Call::NestInsideAnchor {
            k: 0,
            inner: Box::new(inner.clone()),
        });
    }
    // two levels
    for inner in [Call::RcShare, Call::MissingNull, Call::ProbePanic] {
        v.push(Call::NestRc {
            k: 1,
            inner: Box::new(Call::NestRc {
                k: 1,
                inner: Box::new(inner),
            }),
        });
    }
    v
}

fn alphabet() -> Vec<Call> {
    let mut v: Vec<Call> = BASIC.to_vec();
    v.push(Call::NestRc {
        k: 1,
        inner: Box::new(Call::RcShare),
    });
    v.push(Call::NestRc {
        k: 1,
        inner: Box::new(Call::MissingNull),
    });
    v.push(Call::NestRecursive {
        k: 0,
        inner: Box::new(Call::OkCfg),
    });
    v
}

pub fn total(tier: Tier) -> u64 {
    let a = alphabet().len() as u64;
    let core = CORE.len() as u64;
    let nest = all_nestings().len() as u64;
    match tier {
        Tier::Quick => a + (a + 1) * TEARDOWN.len() as u64 + a * a + core * core * core + nest + core * core * 3 + 6000,
        Tier::Thorough => a + (a + 1) * TEARDOWN.len() as u64 + a * a + a * a * a + core.pow(4) + nest + core * core * 3 + 150_000,
    }
}

pub fn gen_case(tier: Tier, seed: u64, idx: u64) -> Case {
    let mut rng = Rng::for_case(seed, "C15", idx);
    let alpha = alphabet();
    let a = alpha.len() as u64;
    let core = CORE.len() as u64;
    let nest = all_nestings();
    let single = |h: Vec<Call>| {
        Case::C15(HistoryCase {
            threads: vec![h],
            decisions: vec![],
            teardown: None,
        })
    };
    let mut i = idx;
    if i < a {
        return single(vec![alpha[i as usize].clone()]);
    }
    i -= a;
    // every call of the alphabet (and the empty history), then each teardown call from a thread-local destructor
    let td = TEARDOWN.len() as u64;
    if i < (a + 1) * td {
        let first = i / td;
        return Case::C15(HistoryCase {
            threads: vec![if first == a { vec![] } else { vec![alpha[first as usize].clone()] }],
            decisions: vec![],
            teardown: Some(TEARDOWN[(i % td) as usize].clone()),
        });
    }
    i -= (a + 1) * td;
    if i < a * a {
        return single(vec![alpha[(i / a) as usize].clone(), alpha[(i % a) as usize].clone()]);
    }
    i -= a * a;
    if tier == Tier::Thorough {
        if i < a * a * a {
            return single(vec![
                alpha[(i / (a * a)) as usize].clone(),
                alpha[((i / a) % a) as usize].clone(),
                alpha[(i % a) as usize].clone(),
            ]);
        }
        i -= a * a * a;
        if i < core.pow(4) {
            let mut h = Vec::new();
            let mut r = i;
            for _ in 0..4 {
                h.push(CORE[(r % core) as usize].clone());
                r /= core;
            }
            return single(h);
        }
        i -= core.pow(4);
    } else {
        if i < core * core * core {
            return single(vec![
                CORE[(i / (core * core)) as usize].clone(),
                CORE[((i / core) % core) as usize].clone(),
                CORE[(i % core) as usize].clone(),
            ]);
        }
        i -= core * core * core;
    }
    if (i as usize) < nest.len() {
        // every (outer, k, inner) nesting, followed by a sharing call that would notice leftovers
        return single(vec![nest[i as usize].clone(), Call::RcShare, Call::MissingNull]);
    }
    i -= nest.len() as u64;
    // two client threads, every pair of core calls, three fixed hand-over patterns: strict alternation at
    // every interception point, thread 1 first at every point, and alternation in blocks of three
    if i < core * core * 3 {
        let a = CORE[(i / (core * 3)) as usize].clone();
        let b = CORE[((i / 3) % core) as usize].clone();
        let decisions: Vec<usize> = match i % 3 {
            0 => (0..400).map(|k| k % 2).collect(),
            1 => vec![1; 400],
            _ => (0..400).map(|k| (k / 3) % 2).collect(),
        };
        return Case::C15(HistoryCase {
            threads: vec![vec![a.clone(), b.clone()], vec![b, a]],
            decisions,
            teardown: None,
        });
    }
    // random: longer single-thread histories and 2..3 client threads
    let nthreads = *rng.pick(&[1usize, 2, 2, 3]);
    let mut threads = Vec::new();
    for _ in 0..nthreads {
        let len = if nthreads == 1 { rng.range(4, 10) } else { rng.range(2, 5) };
        let mut h = Vec::new();
        for _ in 0..len {
            let c = if rng.chance(1, 4) {
                nest[rng.below(nest.len())].clone()
            } else {
                alpha[rng.below(alpha.len())].clone()
            };
            h.push(c);
        }
        threads.push(h);
    }
    let decisions = if nthreads > 1 {
        (0..rng.range(10, 120)).map(|_| rng.below(nthreads)).collect()
    } else {
        vec![]
    };
    let teardown = if nthreads == 1 && rng.chance(1, 3) {
        Some(TEARDOWN[rng.below(TEARDOWN.len())].clone())
    } else {
        None
    };
    Case::C15(HistoryCase {
        threads,
        decisions,
        teardown,
    })
}

pub fn shrink(c: &HistoryCase) -> Vec<Case> {
    let mut out = Vec::new();
    if c.teardown.is_some() {
        let mut n = c.clone();
        n.teardown = None;
        out.push(Case::C15(n));
        for t in TEARDOWN.iter().take(2) {
            if Some(t) != c.teardown.as_ref() {
                let mut n = c.clone();
                n.teardown = Some(t.clone());
                out.push(Case::C15(n));
            }
        }
    }
    // drop client threads
    if c.threads.len() > 1 {
        for i in 0..c.threads.len() {
            let mut n = c.clone();
            n.threads.remove(i);
            if n.threads.len() == 1 {
                n.decisions.clear();
            } else {
                n.teardown = None;
            }
            out.push(Case::C15(n));
        }
    }
    // drop calls
    for t in 0..c.threads.len() {
        if c.threads[t].len() > 1 || c.threads.len() > 1 {
            for i in 0..c.threads[t].len() {
                let mut n = c.clone();
                n.threads[t].remove(i);
                if n.threads[t].is_empty() {
                    continue;
                }
                out.push(Case::C15(n));
            }
        }
        // un-nest: replace a nesting by its inner call, or by the outer without nesting
        for i in 0..c.threads[t].len() {
            if let Call::NestRc { inner, .. } | Call::NestRecursive { inner, .. } | Call::NestInsideAnchor { inner, .. } = &c.threads[t][i] {
                let mut n = c.clone();
                n.threads[t][i] = (**inner).clone();
                out.push(Case::C15(n));
                let mut n = c.clone();
                n.threads[t][i] = without_nesting(&c.threads[t][i]);
                out.push(Case::C15(n));
            }
        }
    }
    // fewer scheduler decisions
    if !c.decisions.is_empty() {
        let mut n = c.clone();
        n.decisions.truncate(c.decisions.len() / 2);
        out.push(Case::C15(n));
        let mut n = c.clone();
        n.decisions.clear();
        out.push(Case::C15(n));
    }
    out
}
