pub mod c01;
pub mod c07;
pub mod c09;
pub mod c10;
pub mod c11;
pub mod c15;
pub mod c17;
