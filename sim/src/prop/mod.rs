pub mod c09;
pub mod c10;
