pub mod c10;
