//! C11 — a multi-document stream is the list of its documents, each on its own.
//! Histories over document kinds; reference model = per-document results computed on each document alone.

use crate::case::{Case, Stats, Tier, Viol};
use crate::io::*;
use crate::lab::{self, Entry, OptVec, Outcome, guard};
use crate::rng::Rng;
use crate::types::*;
use crate::wl;
use saphyr_parser::{Event, Parser, ScalarStyle};
use serde::de::DeserializeOwned;
use serde::{Deserialize, Serialize};
use std::fmt::Debug;

#[derive(Clone, Debug, Serialize, Deserialize, PartialEq)]
pub struct DocSpec {
    /// kind name (informational; the class is recomputed by the model)
    pub kind: String,
    pub text: String,
    /// `...` end marker after the document
    pub end_marker: bool,
    /// a comment line after the document (before the next marker)
    pub comment: bool,
    /// uses an alias whose anchor is defined in an earlier document of the history
    pub alias_of_earlier: bool,
    /// no `---` before this document (only honoured when the previous document ended with `...`)
    #[serde(default)]
    pub implicit_start: bool,
    /// written as `--- <text>` on the marker line and always closed with `...` (root block scalars)
    #[serde(default)]
    pub inline: bool,
    /// directive lines (`%TAG ...`) in front of the document: written after a `...` that closes the
    /// previous document and followed by an explicit `---`
    #[serde(default)]
    pub directives: String,
}

#[derive(Clone, Debug, Serialize, Deserialize)]
pub struct StreamCase {
    pub target: Target,
    pub docs: Vec<DocSpec>,
    /// explicit `---` before the first document
    pub start_marker: bool,
    pub chunkings: Vec<Chunking>,
    pub opts: OptVec,
}

pub fn build_stream(c: &StreamCase) -> String {
    let mut s = String::new();
    for (i, d) in c.docs.iter().enumerate() {
        if !d.directives.is_empty() {
            // directives need the previous document to be closed explicitly
            if i > 0 && !(c.docs[i - 1].end_marker || c.docs[i - 1].inline) {
                s.push_str("...\n");
            }
            s.push_str(&d.directives);
            s.push_str("---\n");
            s.push_str(&d.text);
            if !d.text.ends_with('\n') {
                s.push('\n');
            }
            if d.end_marker {
                s.push_str("...\n");
            }
            continue;
        }
        if d.inline {
            s.push_str("--- ");
            s.push_str(&d.text);
            if !d.text.ends_with('\n') {
                s.push('\n');
            }
            s.push_str("...\n");
            continue;
        }
        let implicit = i > 0 && d.implicit_start && (c.docs[i - 1].end_marker || c.docs[i - 1].inline) && !d.text.is_empty();
        if (i > 0 || c.start_marker) && !implicit {
            s.push_str("---\n");
        }
        s.push_str(&d.text);
        if !d.text.is_empty() && !d.text.ends_with('\n') {
            s.push('\n');
        }
        if d.comment {
            s.push_str("# trailing comment\n");
        }
        if d.end_marker {
            s.push_str("...\n");
        }
    }
    s
}

#[derive(Clone, Debug, PartialEq)]
pub enum Class {
    /// empty or null-like: produces no item
    Skipped,
    Ok(String),
    /// fails alone although the raw parser accepts the text: the iterator must go on
    TypeLevel,
    /// the raw parser rejects the text: the iterator ends
    Syntax,
    /// a complete document (this value) followed, on the next line, by text that is neither part of it nor a
    /// document start: the value is a document of the stream, the rest a syntax error of the stream
    OkThenSyntax(String),
    /// alias of an anchor that an earlier document defines: the parser accepts it, the library reports an
    /// unknown anchor for this document and goes on
    Either,
    /// alias of an anchor defined nowhere: the parser reports it where it meets it. It fails its document like
    /// an alias of an earlier document's anchor does, wherever in the document it stands (also behind a
    /// type-level error, where it is met while the rest of the document is skipped), and the iterator goes on
    UndefinedAlias,
}

/// Independent look at one document through the raw parser: (scan error?, null-like root?, and whether the
/// scan error is an alias of an anchor that is defined nowhere)
pub fn raw_shape(text: &str) -> (bool, bool, bool) {
    let mut root: Option<bool> = None; // Some(true) = null-like scalar root
    let mut depth = 0usize;
    let mut any = false;
    for item in Parser::new_from_str(text) {
        match item {
            Err(e) => return (true, false, e.info().to_ascii_lowercase().contains("unknown anchor")),
            Ok((ev, _)) => match ev {
                Event::Scalar(v, style, _, tag) => {
                    if depth == 0 && root.is_none() {
                        // an explicitly tagged scalar is what its tag says, whatever it looks like (`!!str null`
                        // is a string, `!Start` with no content selects a variant): only `!!null` leaves it null
                        let other_tag = tag
                            .as_ref()
                            .map(|t| !(t.suffix == "null" && (t.handle == "!!" || t.handle == "tag:yaml.org,2002:")))
                            .unwrap_or(false);
                        let nullish = !other_tag
                            && matches!(style, ScalarStyle::Plain)
                            && (v.is_empty() || v == "~" || v.eq_ignore_ascii_case("null"));
                        root = Some(nullish);
                    }
                    any = true;
                }
                Event::SequenceStart(..) | Event::MappingStart(..) => {
                    if depth == 0 && root.is_none() {
                        root = Some(false);
                    }
                    depth += 1;
                    any = true;
                }
                Event::SequenceEnd | Event::MappingEnd => depth = depth.saturating_sub(1),
                Event::Alias(_) => {
                    if depth == 0 && root.is_none() {
                        root = Some(false);
                    }
                    any = true;
                }
                _ => {}
            },
        }
    }
    (false, !any || root == Some(true), false)
}

fn alone<T: DeserializeOwned + Debug>(text: &str, opts: &OptVec) -> Outcome {
    let mut renders = Vec::new();
    lab::canon(guard(|| serde_saphyr::from_str_with_options::<T>(text, opts.to_options())), &mut renders)
}

/// the document as a text of its own, in the same form in which it appears in the stream
fn alone_text(d: &DocSpec) -> String {
    if !d.directives.is_empty() {
        return format!("{}---\n{}", d.directives, d.text);
    }
    if d.inline {
        let mut t = format!("--- {}", d.text);
        if !t.ends_with('\n') {
            t.push('\n');
        }
        t.push_str("...\n");
        t
    } else {
        d.text.clone()
    }
}

/// `anchor_known_to_parser`: an earlier document of the stream defines the anchor this document aliases.
/// The parser (whose anchor names last for the stream) then accepts the alias and the library, whose anchors
/// end with their document, reports an unknown anchor for this document only. Without such a definition the
/// parser itself rejects the alias: a syntax error like any other.
pub fn classify(target: Target, d: &DocSpec, opts: &OptVec, anchor_known_to_parser: bool) -> Class {
    if d.alias_of_earlier {
        return if anchor_known_to_parser { Class::Either } else { Class::UndefinedAlias };
    }
    let text = alone_text(d);
    let d = &DocSpec { text, ..d.clone() };
    let (scan_err, skipped, undefined_alias) = raw_shape(&d.text);
    if undefined_alias {
        return Class::UndefinedAlias;
    }
    if scan_err {
        if d.kind.starts_with("ok-then-stray") {
            // the first line is the complete document
            let first = d.text.split_inclusive('\n').next().unwrap_or("").to_string();
            if let Outcome::Ok(v) = crate::with_target!(target, alone(&first, opts)) {
                return Class::OkThenSyntax(v);
            }
        }
        return Class::Syntax;
    }
    if skipped {
        return Class::Skipped;
    }
    match crate::with_target!(target, alone(&d.text, opts)) {
        Outcome::Ok(v) => Class::Ok(v),
        _ => Class::TypeLevel,
    }
}

fn run_iter<T: DeserializeOwned + Debug>(
    bytes: &[u8],
    opts: &OptVec,
    script: &ReaderScript,
    max_calls: usize,
    plain: bool,
) -> lab::StreamCall {
    lab::stream::<T>(bytes, &opts.to_options(), script, max_calls, plain)
}

fn run_batch<T: DeserializeOwned + Debug>(bytes: &[u8], opts: &OptVec, slice: bool) -> lab::Call {
    lab::batch::<T>(bytes, &opts.to_options(), slice)
}

fn run_single<T: DeserializeOwned + Debug>(entry: Entry, bytes: &[u8], opts: &OptVec, script: &ReaderScript) -> lab::Call {
    lab::single::<T>(entry, bytes, &opts.to_options(), script)
}

// ------------------------------------------------------------------------------------------------
// Validating peers (garde / validator): the same stream through the `_valid` / `_validate` batch
// and iterator entry points is the plain result with validation applied to each document.

type Item = Result<String, (String, u64, u64)>;

fn key_of(e: &serde_saphyr::Error) -> (String, u64, u64) {
    let i = lab::err_info(e);
    (i.kind, i.line, i.col)
}

fn short_items(v: &[Item]) -> String {
    v.iter()
        .map(|i| match i {
            Ok(s) => format!("ok:{s}"),
            Err((k, l, c)) => format!("err:{k}@{l}:{c}"),
        })
        .collect::<Vec<_>>()
        .join(", ")
}

fn drive<I: Iterator<Item = Result<VCfg, serde_saphyr::Error>>>(mut it: I, max_calls: usize) -> (Vec<Result<VCfg, serde_saphyr::Error>>, bool) {
    let mut v = Vec::new();
    for _ in 0..max_calls {
        match it.next() {
            Some(x) => v.push(x),
            None => return (v, true),
        }
    }
    (v, false)
}

/// (clause, detail, chunking) for every disagreement between a validating entry point and the plain one
fn validating_peers(c: &StreamCase, bytes: &[u8], st: &mut Stats) -> Vec<(String, String, Option<Chunking>)> {
    use garde::Validate as _;
    let mut out = Vec::new();
    let Ok(text) = std::str::from_utf8(bytes) else { return out };
    let o = || c.opts.to_options();
    let garde_ok = |v: &VCfg| v.validate().is_ok();
    let validator_ok = |v: &VCfg| validator::Validate::validate(v).is_ok();
    // ---- batch ----
    let plain = match guard(|| serde_saphyr::from_multiple_with_options::<VCfg>(text, o())) {
        Ok(r) => r,
        Err(_) => {
            st.bump("skipped.abnormal(C01)");
            return out;
        }
    };
    type BatchFn<'x> = Box<dyn Fn() -> Result<Vec<VCfg>, serde_saphyr::Error> + 'x>;
    let batches: Vec<(&str, bool, BatchFn)> = vec![
        ("from_multiple_with_options_valid", true, Box::new(|| serde_saphyr::from_multiple_with_options_valid::<VCfg>(text, o()))),
        ("from_slice_multiple_with_options_valid", true, Box::new(|| serde_saphyr::from_slice_multiple_with_options_valid::<VCfg>(bytes, o()))),
        ("from_multiple_with_options_validate", false, Box::new(|| serde_saphyr::from_multiple_with_options_validate::<VCfg>(text, o()))),
        ("from_slice_multiple_with_options_validate", false, Box::new(|| serde_saphyr::from_slice_multiple_with_options_validate::<VCfg>(bytes, o()))),
    ];
    for (name, is_garde, f) in &batches {
        let got = match guard(|| f()) {
            Ok(r) => r,
            Err(_) => {
                st.bump("skipped.abnormal(C01)");
                continue;
            }
        };
        st.evals += 1;
        st.bump("validating.batch_compared");
        let problem = match (&plain, &got) {
            (Err(e), Err(g)) => {
                if key_of(e) != key_of(g) {
                    Some(format!("plain fails with {:?}, {name} with {:?}", key_of(e), key_of(g)))
                } else {
                    None
                }
            }
            (Err(e), Ok(v)) => Some(format!("plain fails with {:?}, {name} returns {} values", key_of(e), v.len())),
            (Ok(pv), got) => {
                let all_valid = pv.iter().all(|v| if *is_garde { garde_ok(v) } else { validator_ok(v) });
                match got {
                    Ok(gv) if all_valid => {
                        if gv != pv {
                            Some(format!("plain gives {pv:?}, {name} gives {gv:?}"))
                        } else {
                            None
                        }
                    }
                    Ok(gv) => Some(format!("a document fails validation, yet {name} returns Ok({gv:?})")),
                    Err(g) if all_valid => Some(format!("every document deserializes and validates, {name} fails with {:?}", key_of(g))),
                    Err(g) => {
                        if key_of(g).0.starts_with("Validat") {
                            None
                        } else {
                            Some(format!("a document fails validation, {name} reports {:?} instead", key_of(g)))
                        }
                    }
                }
            }
        };
        if let Some(p) = problem {
            out.push(("validating-batch-differs".to_string(), p, None));
        }
    }
    // ---- iterators ----
    let max_calls = c.docs.len() + 2;
    for ch in c.chunkings.iter().take(2) {
        let script = ReaderScript {
            chunking: Some(ch.clone()),
            ..Default::default()
        };
        let mut rd = SimReader::new(bytes, script.clone());
        let Ok((plain_items, plain_done)) = guard(|| drive(serde_saphyr::read_with_options::<_, VCfg>(&mut rd, o()), max_calls)) else {
            st.bump("skipped.abnormal(C01)");
            continue;
        };
        for is_garde in [true, false] {
            let name = if is_garde { "read_with_options_valid" } else { "read_with_options_validate" };
            let mut rd = SimReader::new(bytes, script.clone());
            let r = if is_garde {
                guard(|| drive(serde_saphyr::read_with_options_valid::<_, VCfg>(&mut rd, o()), max_calls))
            } else {
                guard(|| drive(serde_saphyr::read_with_options_validate::<_, VCfg>(&mut rd, o()), max_calls))
            };
            let Ok((items, done)) = r else {
                st.bump("skipped.abnormal(C01)");
                continue;
            };
            st.evals += 1;
            st.bump("validating.iterator_compared");
            let want: Vec<Item> = plain_items
                .iter()
                .map(|r| match r {
                    Ok(v) => {
                        if if is_garde { garde_ok(v) } else { validator_ok(v) } {
                            Ok(format!("{v:?}"))
                        } else {
                            Err((if is_garde { "ValidationError" } else { "ValidatorError" }.to_string(), 0, 0))
                        }
                    }
                    Err(e) => Err(key_of(e)),
                })
                .collect();
            let got: Vec<Item> = items
                .iter()
                .map(|r| match r {
                    Ok(v) => Ok(format!("{v:?}")),
                    Err(e) => Err(key_of(e)),
                })
                .collect();
            if want != got || done != plain_done {
                out.push((
                    "validating-iterator-differs".to_string(),
                    format!(
                        "{name} under {}: items [{}]{}, read_with_options with validation applied gives [{}]{}",
                        short_ch(ch),
                        short_items(&got),
                        if done { "" } else { " (no None)" },
                        short_items(&want),
                        if plain_done { "" } else { " (no None)" }
                    ),
                    Some(ch.clone()),
                ));
            }
        }
    }
    out
}

pub fn exec(c: &StreamCase, st: &mut Stats) -> Vec<Viol> {
    let mut out = Vec::new();
    let text = build_stream(c);
    let bytes = text.as_bytes();
    let mk = |clause: &str, detail: String, ch: Option<&Chunking>| Viol {
        property: "C11".into(),
        clause: clause.into(),
        detail,
        case: Case::C11(StreamCase {
            chunkings: ch.map(|x| vec![x.clone()]).unwrap_or_default(),
            ..c.clone()
        }),
    };
    let classes: Vec<Class> = c
        .docs
        .iter()
        .enumerate()
        .map(|(i, d)| classify(c.target, d, &c.opts, c.docs[..i].iter().any(|e| e.text.contains("&x"))))
        .collect();
    for cl in &classes {
        st.bump(&format!(
            "class.{}",
            match cl {
                Class::Skipped => "skipped",
                Class::Ok(_) => "ok",
                Class::TypeLevel => "type_level_error",
                Class::Syntax => "syntax_error",
                Class::OkThenSyntax(_) => "document_then_stray_text",
                Class::Either => "alias_of_earlier_document",
                Class::UndefinedAlias => "alias_of_undefined_anchor",
            }
        ));
    }
    let content_docs = classes.iter().filter(|c| !matches!(c, Class::Skipped)).count();
    let describe = || -> String {
        c.docs
            .iter()
            .zip(classes.iter())
            .map(|(d, cl)| format!("{}:{}", d.kind, match cl {
                Class::Skipped => "skip",
                Class::Ok(_) => "ok",
                Class::TypeLevel => "type",
                Class::Syntax => "syntax",
                Class::OkThenSyntax(_) => "ok+stray",
                Class::Either => "alias-earlier",
                Class::UndefinedAlias => "alias-undefined",
            }))
            .collect::<Vec<_>>()
            .join(" | ")
    };

    // ---- batch ----
    let first_bad = classes.iter().position(|c| matches!(c, Class::TypeLevel | Class::Syntax | Class::Either | Class::UndefinedAlias | Class::OkThenSyntax(_)));
    for slice in [false, true] {
        let b = crate::with_target!(c.target, run_batch(bytes, &c.opts, slice));
        st.evals += 1;
        st.note(&b.outcome.agree_key());
        match (&b.outcome, first_bad) {
            (Outcome::Panic(_) | Outcome::Liveness(_), _) => {
                st.bump("skipped.abnormal(C01)");
            }
            (Outcome::Ok(v), None) => {
                let want: Vec<&str> = classes
                    .iter()
                    .filter_map(|c| if let Class::Ok(v) = c { Some(v.as_str()) } else { None })
                    .collect();
                if *v != want.join("\u{1f}") {
                    out.push(mk(
                        "batch-differs-from-documents",
                        format!("[{}] from_multiple gives {:?}, documents alone give {:?}", describe(), v, want),
                        None,
                    ));
                }
            }
            (Outcome::Ok(v), Some(i)) => out.push(mk(
                "batch-accepts-failing-document",
                format!("[{}] document {i} fails alone, yet from_multiple returns Ok({v:?})", describe()),
                None,
            )),
            // the batch function enforces the budget over the whole stream (EnforcingPolicy::AllContent,
            // by design; its exactness is C07's business): several documents that are each within a
            // limit may exceed it together
            (Outcome::Err(e), None) if e.kind == "Budget" && c.docs.len() > 1 => {
                st.bump("batch.budget_over_all_content(C07)");
            }
            (Outcome::Err(e), None) => out.push(mk(
                "batch-rejects-good-stream",
                format!("[{}] every document is fine alone, from_multiple fails with {}@{}:{}", describe(), e.kind, e.line, e.col),
                None,
            )),
            _ => {}
        }
    }

    // ---- validating peers of the batch and iterator entry points ----
    if c.target == Target::Cfg {
        for (clause, detail, ch) in validating_peers(c, bytes, st) {
            out.push(mk(&clause, format!("[{}] {detail}", describe()), ch.as_ref()));
        }
    }

    // ---- single-document entry points on the stream ----
    // Only streams whose first content document is fine and that have a second content document are asserted.
    let content_idx: Vec<usize> = classes
        .iter()
        .enumerate()
        .filter(|(_, c)| !matches!(c, Class::Skipped))
        .map(|(i, _)| i)
        .collect();
    // A syntax error in what follows an explicit `...` end marker is documented as tolerated
    // ("trailing garbage after a proper document end marker is ignored"): such streams are not asserted.
    // (The document such an entry point deserializes is the first one of the stream, null-like or not.)
    let tolerated_garbage = (0..c.docs.len().saturating_sub(1)).any(|i| {
        (c.docs[i].end_marker || c.docs[i].inline)
            && matches!(classes[i + 1], Class::Syntax)
            && classes[..i].iter().all(|x| matches!(x, Class::Skipped))
    });
    if tolerated_garbage {
        st.bump("single_entry.not_asserted_garbage_after_end_marker");
    }
    if let Some(Class::OkThenSyntax(v)) = classes.iter().find(|c| !matches!(c, Class::Skipped)) {
        // stray text behind a document that ended implicitly is a syntax error, not ignorable garbage
        for e in [Entry::FromStr, Entry::FromReader, Entry::WdStr, Entry::WdReader] {
            let r = crate::with_target!(c.target, run_single(e, bytes, &c.opts, &ReaderScript::default()));
            st.evals += 1;
            if let Outcome::Ok(x) = &r.outcome {
                out.push(mk(
                    "single-entry-ignores-stray-text",
                    format!("[{}] {e:?} returns Ok({x}) although text that is no document start follows the document ({v})", describe()),
                    None,
                ));
            }
        }
    }
    if content_idx.len() >= 2 && !tolerated_garbage {
        for e in [Entry::FromStr, Entry::FromReader, Entry::WdStr, Entry::WdReader] {
            let r = crate::with_target!(c.target, run_single(e, bytes, &c.opts, &ReaderScript::default()));
            st.evals += 1;
            st.note(&r.outcome.agree_key());
            if let Outcome::Ok(v) = &r.outcome {
                out.push(mk(
                    "single-entry-accepts-second-document",
                    format!("[{}] {e:?} returns Ok({v}) on a stream with {} content documents", describe(), content_idx.len()),
                    None,
                ));
            }
        }
    }

    // ---- iterator under each schedule ----
    let max_calls = c.docs.len() + 2;
    for ch in &c.chunkings {
        for plain in [false, true] {
            // `read` always uses the default options: only comparable when the case does too
            if plain && !c.opts.is_default() {
                continue;
            }
            let script = ReaderScript {
                chunking: Some(ch.clone()),
                ..Default::default()
            };
            st.schedules.insert(script.digest());
            let r = crate::with_target!(c.target, run_iter(bytes, &c.opts, &script, max_calls, plain));
            st.evals += 1;
            let d = r.reader.trace_digest();
            st.behaviours.insert(d);
            if c.docs.len() >= 2 {
                st.nontrivial.insert(d ^ crate::rng::fnv(text.as_bytes()));
            }
            st.add("steps.next_calls", r.next_calls);
            st.add("steps.read_calls", r.reader.reads());
            st.add("fired.split", r.reader.st.borrow().short_reads);
            for it in &r.items {
                st.note(&it.agree_key());
            }
            // "... and always terminates": a liveness bound of the simulator hit inside the iterator is this
            // property's business (a panic is C01's)
            if let Some(Outcome::Liveness(what)) = r.abnormal.as_ref().or_else(|| r.items.iter().find(|o| matches!(o, Outcome::Liveness(_)))) {
                out.push(mk(
                    "iterator-not-terminated",
                    format!("[{}] {}: {what}", describe(), if plain { "read" } else { "read_with_options" }),
                    Some(ch),
                ));
                continue;
            }
            if r.abnormal.is_some() || r.items.iter().any(|o| matches!(o, Outcome::Panic(_) | Outcome::Liveness(_))) {
                st.bump("skipped.abnormal(C01)");
                continue;
            }
            let name = if plain { "read" } else { "read_with_options" };
            // the same stream as UTF-16 (alternating byte order) through the transcoding decoder: same items
            if !plain && !text.starts_with('\u{feff}') {
                let be = c.docs.len() % 2 == 1;
                let (b16, _) = crate::prop::c10::to_utf16(&text, be);
                let script16 = ReaderScript {
                    chunking: Some(match ch {
                        Chunking::List(_) => Chunking::Fixed(7),
                        other => other.clone(),
                    }),
                    ..Default::default()
                };
                let r16 = crate::with_target!(c.target, run_iter(&b16, &c.opts, &script16, max_calls, false));
                st.evals += 1;
                st.bump("utf16.streams_compared");
                if r16.abnormal.is_none() {
                    let a: Vec<String> = r.items.iter().map(|o| o.agree_key()).collect();
                    let b: Vec<String> = r16.items.iter().map(|o| o.agree_key()).collect();
                    if a != b || r.terminated != r16.terminated {
                        out.push(mk(
                            "utf16-stream-differs",
                            format!(
                                "[{}] read_with_options over the UTF-16 {} encoding yields {:?}, over UTF-8 {:?}",
                                describe(),
                                if be { "BE" } else { "LE" },
                                r16.items.iter().map(|o| o.short()).collect::<Vec<_>>(),
                                r.items.iter().map(|o| o.short()).collect::<Vec<_>>()
                            ),
                            Some(ch),
                        ));
                    }
                }
            }
            if !r.terminated {
                out.push(mk(
                    "iterator-not-terminated",
                    format!("[{}] {name}: no None within {max_calls} calls; items {:?}", describe(), r.items.iter().map(|o| o.short()).collect::<Vec<_>>()),
                    Some(ch),
                ));
                continue;
            }
            if !r.none_is_sticky {
                out.push(mk("iterator-resumes-after-none", format!("[{}] {name}: an item after None", describe()), Some(ch)));
            }
            let stray = classes.iter().filter(|c| matches!(c, Class::OkThenSyntax(_))).count();
            if r.items.len() > content_docs + stray {
                out.push(mk(
                    "iterator-more-items-than-documents",
                    format!("[{}] {name}: {} items for {content_docs} content documents: {:?}", describe(), r.items.len(), r.items.iter().map(|o| o.short()).collect::<Vec<_>>()),
                    Some(ch),
                ));
                continue;
            }
            // walk the model
            let mut k = 0usize; // next item
            let mut problem: Option<String> = None;
            let ended = false; // (no document class lets the iterator end early any more)
            for (i, cl) in classes.iter().enumerate() {
                match cl {
                    Class::Skipped => {}
                    Class::Ok(v) => match r.items.get(k) {
                        Some(Outcome::Ok(x)) if x == v => k += 1,
                        Some(other) => {
                            problem = Some(format!("document {i} alone gives ok:{v}, the iterator's item {k} is {}", other.short()));
                            break;
                        }
                        None => {
                            if !ended {
                                problem = Some(format!("document {i} (fine alone) never yielded: only {} items", r.items.len()));
                            }
                            break;
                        }
                    },
                    Class::TypeLevel => match r.items.get(k) {
                        Some(Outcome::Err(_)) => k += 1,
                        Some(other) => {
                            problem = Some(format!("document {i} fails alone, the iterator's item {k} is {}", other.short()));
                            break;
                        }
                        None => {
                            if !ended {
                                problem = Some(format!("document {i} (type-level error) produced no item"));
                            }
                            break;
                        }
                    },
                    Class::OkThenSyntax(v) => {
                        match (r.items.get(k), r.items.get(k + 1)) {
                            (Some(Outcome::Ok(x)), Some(Outcome::Err(_))) if x == v => {
                                if r.items.len() > k + 2 {
                                    problem = Some(format!("document {i} is followed by stray text, yet the iterator yields {} more items", r.items.len() - k - 2));
                                }
                            }
                            (a, b) => {
                                problem = Some(format!(
                                    "document {i} is ok:{v} followed by stray text (a syntax error of the stream): expected that value and then an error, got {:?} and {:?}",
                                    a.map(|o| o.short()),
                                    b.map(|o| o.short())
                                ))
                            }
                        }
                        k = r.items.len();
                        break;
                    }
                    Class::Syntax => {
                        match r.items.get(k) {
                            Some(Outcome::Err(_)) => {
                                k += 1;
                                if r.items.len() > k {
                                    problem = Some(format!(
                                        "document {i} is a syntax error, yet the iterator yields {} more items",
                                        r.items.len() - k
                                    ));
                                }
                            }
                            Some(other) => problem = Some(format!("document {i} is a syntax error, the iterator's item {k} is {}", other.short())),
                            None => {
                                if !ended {
                                    problem = Some(format!("document {i} (syntax error) produced no error item"));
                                }
                            }
                        }
                        k = r.items.len();
                        break;
                    }
                    Class::UndefinedAlias => match r.items.get(k) {
                        Some(Outcome::Err(_)) => k += 1,
                        Some(other) => {
                            problem = Some(format!("document {i} aliases an anchor defined nowhere and must fail, the iterator's item {k} is {}", other.short()));
                            break;
                        }
                        None => {
                            problem = Some(format!("document {i} (alias of an undefined anchor) produced no error item"));
                            break;
                        }
                    },
                    Class::Either => match r.items.get(k) {
                        // (an unknown anchor fails its document like any other node-level error - also when the
                        // alias is the root node - and the iterator goes on with the next document)
                        Some(Outcome::Err(_)) => k += 1,
                        Some(other) => {
                            problem = Some(format!(
                                "document {i} aliases an anchor of an earlier document and must fail, the iterator's item {k} is {}",
                                other.short()
                            ));
                            break;
                        }
                        None => {
                            if !ended {
                                problem = Some(format!("document {i} (alias of an earlier document's anchor) produced no error item"));
                            }
                            break;
                        }
                    },
                }
            }
            if problem.is_none() && k < r.items.len() {
                problem = Some(format!("{} surplus items", r.items.len() - k));
            }
            if let Some(p) = problem {
                out.push(mk(
                    "iterator-differs-from-documents",
                    format!(
                        "[{}] {name} under {:?}: {p}; items {:?}",
                        describe(),
                        short_ch(ch),
                        r.items.iter().map(|o| o.short()).collect::<Vec<_>>()
                    ),
                    Some(ch),
                ));
            }
        }
        if out.len() > 6 {
            break;
        }
    }
    out
}

fn short_ch(c: &Chunking) -> String {
    match c {
        Chunking::List(v) if v.len() > 10 => format!("List({} chunks)", v.len()),
        o => format!("{o:?}"),
    }
}

// ------------------------------------------------------------------------------------------------
// Document kinds

pub fn kinds_for(target: Target) -> Vec<DocSpec> {
    let d = |kind: &str, text: &str| DocSpec {
        kind: kind.into(),
        text: text.into(),
        end_marker: false,
        comment: false,
        alias_of_earlier: false,
        implicit_start: false,
        inline: false,
        directives: String::new(),
    };
    let mut v = vec![
        d("empty", ""),
        d("null", "~\n"),
        d("syntax-unterminated-quote", "z: 'unterminated\n"),
        d("syntax-unterminated-flow", "[1, 2\n"),
        d("syntax-bad-indent", "a: 1\n b: 2\n"),
    ];
    let specific: Vec<DocSpec> = match target {
        Target::Cfg => vec![
            // a malformed anchor / alias token behind a type-level error: met while the failed document is
            // skipped, it is a syntax error (the parser repeats it for ever) and ends the iteration
            d("type-then-bad-anchor-token", "name: [no]\nn: &\n"),
            d("type-then-bad-alias-token", "name: [no]\nlist: [1, *]\n"),
            d("valid-a", "name: a\nn: 1\n"),
            d("valid-b", "{name: bé, n: 2, list: [1, 2]}\n"),
            d("anchors", "name: &x ank\nn: 3\nlist: [&y 4, *y]\n"),
            DocSpec { alias_of_earlier: true, ..d("alias-earlier", "name: *x\nn: 5\n") },
            d("type-early", "name: [not, a, string]\nn: 1\n"),
            d("type-late", "name: a\nn: 1\nlist: [1, 2, {deep: [x, {y: z}]}]\n"),
            d("missing", "name: only\n"),
            d("type-scalar-root", "just a scalar\n"),
            d("anchor-then-type-error", "name: &x ank\nn: notanumber\n"),
            d("fails-validation", "name: ''\nn: 5000\n"),
        ],
        Target::VecI => vec![
            d("valid-a", "- 1\n- 2\n"),
            d("valid-b", "[3, 4, 5]\n"),
            d("anchors", "- &x 7\n- *x\n"),
            DocSpec { alias_of_earlier: true, ..d("alias-earlier", "- *x\n") },
            d("type-early", "- x\n- 2\n"),
            d("type-late", "- 1\n- 2\n- [deep, {a: b}]\n"),
            d("type-map-root", "a: 1\nb: [2, 3]\n"),
            d("anchor-then-type-error", "- &x 7\n- oops\n"),
            d("many-aliases", &format!("- &x 7\n{}", "- *x\n".repeat(60))),
        ],
        Target::Tup => vec![
            d("valid-a", "[1, 2]\n"),
            d("valid-b", "- 3\n- 4\n"),
            d("anchors", "- &x 7\n- *x\n"),
            DocSpec { alias_of_earlier: true, ..d("alias-earlier", "[*x, 1]\n") },
            d("surplus", "[1, 2, 3]\n"),
            d("surplus-block", "- 1\n- 2\n- 3\n- [4]\n"),
            d("missing", "[1]\n"),
            d("type-early", "[x, 2]\n"),
            d("anchor-then-type-error", "[&x 7, oops]\n"),
        ],
        Target::Map | Target::RcMap | Target::GreedyMap => vec![
            d("anchors-b", "k: &x other\nj: *x\nm: &z third\n"),
            d("valid-a", "k1: v1\nk2: v2\n"),
            d("valid-b", "{a: b}\n"),
            d("anchors", "k: &x val\nj: *x\n"),
            DocSpec { alias_of_earlier: true, ..d("alias-earlier", "k: *x\n") },
            d("type-early", "k: [1, 2]\n"),
            d("type-late", "a: b\nc: d\ne: {f: [g]}\n"),
            d("duplicate-key", "a: 1\na: 2\n"),
            d("anchor-then-type-error", "k: &x val\nj: [1]\n"),
        ],
        Target::En => vec![
            d("valid-a", "U\n"),
            d("valid-b", "S: {a: 1, b: x}\n"),
            d("valid-c", "T: [1, one]\n"),
            d("anchors", "T: [&x 5, &y z]\n"),
            DocSpec { alias_of_earlier: true, ..d("alias-earlier", "N: *x\n") },
            d("type-early", "Nope: 1\n"),
            d("type-late", "S: {a: 1, b: [x]}\n"),
            d("surplus", "T: [1, one, extra]\n"),
            d("anchor-then-type-error", "T: [&x 5, [not, a, string]]\n"),
            // a variant with a payload named by a bare scalar: the payload is not in this document (and must
            // not be taken from the next one, which may look exactly like it)
            d("bare-newtype-variant", "N\n"),
            d("bare-tuple-variant", "T\n"),
            d("bare-struct-variant", "S\n"),
            d("payload-looking-int", "5\n"),
            d("payload-looking-seq", "[1, one]\n"),
            d("payload-looking-map", "{a: 1, b: x}\n"),
        ],
        Target::Str => vec![
            d("valid-a", "plain text\n"),
            d("valid-b", "\"quoted é\"\n"),
            DocSpec { inline: true, ..d("empty-literal", "|\n") },
            DocSpec { inline: true, ..d("empty-folded", ">-\n") },
            DocSpec { inline: true, ..d("literal", "|\n  some text\n") },
            d("empty-double-quoted", "\"\"\n"),
            d("empty-single-quoted", "''\n"),
            d("tagged-str-null", "!!str null\n"),
            d("tagged-str-empty", "!!str\n"),
            d("tagged-null", "!!null anything\n"),
            d("anchors", "&x anchored text\n"),
            DocSpec { alias_of_earlier: true, ..d("alias-earlier", "*x\n") },
            d("type-early", "[not, a, string]\n"),
            d("type-map", "a: 1\n"),
        ],
        Target::FirstEntry => vec![
            d("valid-a", "a: 1\n"),
            d("valid-b", "{k: [1, 2]}\n"),
            d("two-entries", "a: 1\nb: 2\n"),
            d("two-entries-flow", "{a: 1, b: 2}\n"),
            d("rest-nested", "a: 1\nb: {c: [1, 2]}\nd: [3]\n"),
            d("rest-looks-like-document", "a: 1\na: 1\n"),
            d("anchors", "a: &x 1\n"),
            DocSpec { alias_of_earlier: true, ..d("alias-earlier", "a: *x\n") },
            d("type-early", "[1, 2]\n"),
            d("empty-map", "{}\n"),
        ],
        Target::LenientVec | Target::LenientJsonVec => vec![
            d("valid-a", "[1, 2]\n"),
            d("valid-b", "- 3\n- oops\n- 5\n"),
            d("nested-swallowed", "- [1, 2]\n- 7\n"),
            // a syntax error inside an element: the element swallows it, the document and the stream are broken
            // all the same
            d("syntax-swallowed-handle", "- - !e!x\n    - 1\n  - 2\n- 7\n"),
            d("syntax-swallowed-flow", "- [1, !e!x 2]\n- 7\n"),
            d("anchors", "- &x 7\n- *x\n"),
            DocSpec { alias_of_earlier: true, ..d("alias-earlier", "- *x\n") },
            d("type-map-root", "a: 1\n"),
        ],
        Target::UntilX => vec![
            d("valid-a", "a: 0\nx: 1\n"),
            d("valid-b", "{x: 1}\n"),
            // the key comes from a merged mapping: it is delivered after the end of the mapping has been read
            d("x-merged", "<<: {x: 1, y: 2}\na: 0\n"),
            d("x-merged-alias", "m: &m {x: 1, y: 2}\nz:\n  q: 1\n<<: *m\n"),
            d("x-merged-twice", "<<: [{x: 1}, {x: 2, w: 3}]\nb: 0\n"),
            d("x-first-of-two", "x: 1\nb: 2\n"),
            d("no-x", "a: 1\nb: 2\n"),
            d("anchors", "a: &x 1\nx: 2\n"),
            DocSpec { alias_of_earlier: true, ..d("alias-earlier", "x: *x\n") },
            d("type-early", "[1, 2]\n"),
        ],
        Target::LenientRoot => vec![
            d("valid-a", "5\n"),
            d("valid-b", "-7\n"),
            d("word", "abc\n"),
            d("seq", "[1, 2]\n"),
            d("seq-block", "- 1\n- 2\n"),
            d("map", "a: 1\n"),
            d("nested", "[[1], {a: 2}]\n"),
            d("anchors", "&x 4\n"),
            DocSpec { alias_of_earlier: true, ..d("alias-earlier", "*x\n") },
        ],
        Target::TagEn => vec![
            d("valid-a", "Start\n"),
            d("valid-b", "Speed: 4\n"),
            d("tagged-unit", "!Start\n"),
            d("tagged-unit-b", "!Stop\n"),
            d("tagged-newtype", "!Speed 3\n"),
            d("tagged-empty-string", "!Note\n"),
            d("tagged-option-null", "!Limit ~\n"),
            d("tagged-option-word-null", "!Limit null\n"),
            d("tagged-unknown", "!Nope 1\n"),
            d("secondary-null", "!!null ~\n"),
            d("anchors", "Limit: &x 5\n"),
            DocSpec { alias_of_earlier: true, ..d("alias-earlier", "Limit: *x\n") },
            d("type-early", "Speed: fast\n"),
        ],
        _ => vec![
            d("bom-prefixed", "\u{feff}b: 2\n"),
            // a NUL behind a document (known finding F70: the scanner takes it for the end of the input)
            d("nul-behind-content", "n: 1\n\0\n"),
            d("type-then-undefined-alias", "a: &q 1\n? [complex, key]\n: *nope\n"),
            DocSpec { inline: true, ..d("empty-literal", "|\n") },
            d("empty-double-quoted", "\"\"\n"),
            d("valid-a", "a: 1\n"),
            d("valid-b", "- x\n- {y: [1, 2]}\n"),
            d("valid-c", "plain scalar é\n"),
            d("anchors", "p: &x [1, 2]\nq: *x\n"),
            DocSpec { alias_of_earlier: true, ..d("alias-earlier", "r: *x\n") },
            d("duplicate-key", "a: 1\na: 2\n"),
            d("recursive-alias", "a: &r [*r]\n"),
            d("anchor-then-duplicate-key", "p: &x [1]\nq: 1\nq: 2\n"),
            // 60 aliases of one anchor: under every per-document limit (the alias/anchor ratio is only
            // looked at from 100 aliases on), two such documents together are over it
            d("many-aliases", &format!("p: &x 1\nq: [{}]\n", vec!["*x"; 60].join(", "))),
            // tag directives end with their document
            DocSpec { directives: "%TAG !e! tag:example.com,2000:\n".into(), ..d("tag-directive-used", "v: !e!x 1\n") },
            d("tag-handle-undeclared", "v: !e!x 2\n"),
            // the same syntax error met at a sequence item, at the root and in a flow sequence: the parser
            // reports it after it has consumed the tag, so it does not repeat it on the next pull
            d("tag-handle-undeclared-item", "- !e!x\n  - 1\n"),
            d("tag-handle-undeclared-root", "!e!x 1\n"),
            d("tag-handle-undeclared-flow", "[1, !e!x 2, 3]\n"),
            DocSpec { directives: "%TAG !! tag:example.com,2000:\n".into(), ..d("secondary-handle-redefined", "v: !!str 3\n") },
            d("secondary-tag-str", "v: !!str 4\n"),
            // a root that ends before a stray line: the document has ended implicitly, what follows is not a
            // document start
            d("ok-then-stray-flow", "{a: 1}\nb: 2\n"),
            d("ok-then-stray-quoted", "\"abc\"\ndef\n"),
        ],
    };
    v.extend(specific);
    v
}

pub const TARGETS: [Target; 15] = [
    Target::LenientJsonVec,
    Target::LenientVec,
    Target::GreedyMap,
    Target::UntilX,
    Target::Cfg,
    Target::VecI,
    Target::Tup,
    Target::Map,
    Target::En,
    Target::Json,
    Target::Str,
    Target::RcMap,
    Target::FirstEntry,
    Target::LenientRoot,
    Target::TagEn,
];

pub fn total(tier: Tier) -> u64 {
    match tier {
        Tier::Quick => exhaustive_count(3) + 6000,
        Tier::Thorough => exhaustive_count(4) + 150_000,
    }
}

/// number of (target, history) pairs with history length 1..=max_len
fn exhaustive_count(max_len: u32) -> u64 {
    TARGETS
        .iter()
        .map(|t| {
            let k = kinds_for(*t).len() as u64;
            (1..=max_len).map(|l| k.pow(l)).sum::<u64>()
        })
        .sum()
}

fn standard_chunkings(text: &[u8], rng: &mut Rng) -> Vec<Chunking> {
    vec![
        Chunking::Whole,
        Chunking::Fixed(1),
        Chunking::Fixed(rng.range(2, 7)),
        wl::gen_chunking(text, rng),
        wl::gen_chunking(text, rng),
    ]
}

pub fn gen_case(tier: Tier, seed: u64, idx: u64) -> Case {
    let mut rng = Rng::for_case(seed, "C11", idx);
    let max_len = if tier == Tier::Thorough { 4 } else { 3 };
    let ex = exhaustive_count(max_len);
    let (target, mut docs): (Target, Vec<DocSpec>) = if idx < ex {
        // decode idx into (target, length, history)
        let mut rest = idx;
        let mut found = None;
        'outer: for t in TARGETS {
            let kinds = kinds_for(t);
            let k = kinds.len() as u64;
            for l in 1..=max_len {
                let n = k.pow(l);
                if rest < n {
                    let mut h = Vec::new();
                    let mut r = rest;
                    for _ in 0..l {
                        h.push(kinds[(r % k) as usize].clone());
                        r /= k;
                    }
                    found = Some((t, h));
                    break 'outer;
                }
                rest -= n;
            }
        }
        found.unwrap()
    } else {
        let t = *rng.pick(&TARGETS);
        let kinds = kinds_for(t);
        let n = rng.range(2, 8);
        let mut h = Vec::new();
        for _ in 0..n {
            // bias towards documents that let the stream go on
            let k = loop {
                let k = rng.pick(&kinds).clone();
                if k.kind.starts_with("syntax") && rng.chance(3, 4) {
                    continue;
                }
                break k;
            };
            h.push(k);
        }
        (t, h)
    };
    // decorations decided by the seed: end markers and trailing comments
    let exhaustive = idx < ex;
    for d in docs.iter_mut() {
        if !d.text.is_empty() {
            d.end_marker = rng.chance(1, if exhaustive { 4 } else { 3 });
            d.comment = rng.chance(1, if exhaustive { 6 } else { 4 });
        }
        // after `...` the next document may begin without `---`
        d.implicit_start = rng.chance(1, 2);
    }
    // an alias of an earlier document's anchor only means something if an earlier document defines x
    let start_marker = rng.chance(1, 3);
    let mut c = StreamCase {
        target,
        docs,
        start_marker,
        chunkings: vec![],
        opts: {
            let mut o = if exhaustive || rng.chance(2, 3) { OptVec::default() } else { OptVec::random(&mut rng) };
            if rng.chance(1, 4) {
                // limits that every single document of the alphabet stays under, but two together do not:
                // alias accounting is per document
                o.alias_limits.max_total_replayed_events = *rng.pick(&[1usize, 2, 3, 5]);
                o.alias_limits.max_alias_expansions_per_anchor = *rng.pick(&[1usize, 2, usize::MAX]);
            }
            if !exhaustive && rng.chance(1, 5) {
                // node / depth limits in the range of the alphabet's documents: per-document accounting
                // must start afresh after a document that failed half-way (the batch function counts
                // over the whole stream, which the batch clause leaves to C07)
                let mut b = o.budget.clone().unwrap_or_default();
                b.max_nodes = *rng.pick(&[6usize, 8, 12, 20]);
                b.max_depth = *rng.pick(&[2usize, 3, 4, 6]);
                o.budget = Some(b);
            }
            o
        },
    };
    // options that change per-document results are fine (the model uses the same options), but a
    // disabled budget or snippet setting is irrelevant here
    let text = build_stream(&c);
    c.chunkings = standard_chunkings(text.as_bytes(), &mut rng);
    Case::C11(c)
}

pub fn shrink(c: &StreamCase) -> Vec<Case> {
    let mut out = Vec::new();
    // drop documents
    if c.docs.len() > 1 {
        for i in 0..c.docs.len() {
            let mut n = c.clone();
            n.docs.remove(i);
            out.push(Case::C11(n));
        }
    }
    if !c.opts.is_default() {
        let mut n = c.clone();
        n.opts = OptVec::default();
        out.push(Case::C11(n));
    }
    if c.start_marker {
        let mut n = c.clone();
        n.start_marker = false;
        out.push(Case::C11(n));
    }
    for i in 0..c.docs.len() {
        if c.docs[i].end_marker {
            let mut n = c.clone();
            n.docs[i].end_marker = false;
            out.push(Case::C11(n));
        }
        if c.docs[i].comment {
            let mut n = c.clone();
            n.docs[i].comment = false;
            out.push(Case::C11(n));
        }
        if c.docs[i].implicit_start {
            let mut n = c.clone();
            n.docs[i].implicit_start = false;
            out.push(Case::C11(n));
        }
        // shrink the text of a document by lines
        let lines: Vec<&str> = c.docs[i].text.split_inclusive('\n').collect();
        if lines.len() > 1 {
            for j in 0..lines.len() {
                let t: String = lines.iter().enumerate().filter(|(k, _)| *k != j).map(|(_, l)| *l).collect();
                let mut n = c.clone();
                n.docs[i].text = t;
                out.push(Case::C11(n));
            }
        }
    }
    if c.chunkings.len() > 1 {
        for ch in &c.chunkings {
            let mut n = c.clone();
            n.chunkings = vec![ch.clone()];
            out.push(Case::C11(n));
        }
    }
    if c.chunkings.len() == 1 && c.chunkings[0] != Chunking::Whole {
        let mut n = c.clone();
        n.chunkings = vec![Chunking::Whole];
        out.push(Case::C11(n));
        let mut n = c.clone();
        n.chunkings = vec![Chunking::Fixed(1)];
        out.push(Case::C11(n));
    }
    out
}
