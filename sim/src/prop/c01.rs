//! C01 — totality of the stream-facing entry points (no unwind, no abort, bounded steps, every
//! error renders) under a corrupting byte channel, chunk schedules and I/O faults, plus deep-nesting
//! probes on 8 MiB stacks (worker threads have exactly that; an overflow kills the child process and
//! is attributed by the supervisor).

use crate::case::{Case, Doc, Stats, Tier, Viol};
use crate::io::*;
use crate::lab::{self, Abnormal, OptVec, Outcome, Rendered, guard};
use crate::rng::Rng;
use crate::types::*;
use crate::wl;
use serde::de::DeserializeOwned;
use serde::{Deserialize, Serialize};
use std::fmt::Debug;

#[derive(Clone, Copy, Debug, Serialize, Deserialize, PartialEq, Eq)]
pub enum T01 {
    Fam(Target),
    /// struct L(Vec<L>)
    DeepSeq,
    /// struct M { m: Option<Box<M>> }
    DeepMap,
    /// enum with recursive newtype / struct variants
    DeepEnum,
    /// serde_bytes-like: Vec<u8> through deserialize_bytes
    Bytes,
    /// RcAnchor graph
    RcGraph,
    /// borrowed &str struct (in-memory entry points only)
    Borrowed,
    /// a target whose Deserialize impl returns Ok without touching the deserializer
    NoOp,
    /// recursive struct with three dozen optional fields next to the recursive one: its derived visitor
    /// has a large stack frame per nesting level
    DeepWide,
    /// Vec<()>: a sequence driven by a loop whose elements consume (or fail to consume) one unit each
    UnitSeq,
    /// Vec<NoOp>: a sequence of elements that read nothing
    NoOpSeq,
    /// Vec<Option<Single>>: `Single` is a `{name: value}` type whose map visitor asks for one entry and returns
    UnderReadSeq,
    /// BTreeMap<String, NoOp>
    NoOpMap,
    /// a map visitor that asks for a value without having asked for a key (serde allows the access to
    /// answer with an error or nonsense; the statement allows it no panic)
    ValueFirst,
    /// an enum visitor that takes the variant name and drops the variant access
    VariantNameOnly,
    /// not a target type but an option configuration: the budget-report callback parses the document again
    /// with a clone of the options it is registered in (every clone shares the callback)
    ReportCallbackReenters,
}

macro_rules! wide_struct {
    ($($f:ident),*) => {
        #[derive(Debug, Deserialize)]
        #[allow(dead_code)]
        struct W {
            #[serde(default)]
            k: Option<Box<W>>,
            #[serde(default)]
            v: Option<i64>,
            $(#[serde(default)] $f: Option<i64>,)*
        }
    };
}
wide_struct!(
    f01, f02, f03, f04, f05, f06, f07, f08, f09, f10, f11, f12, f13, f14, f15, f16, f17, f18, f19, f20, f21, f22, f23, f24, f25, f26, f27, f28,
    f29, f30, f31, f32, f33
);

thread_local! {
    /// calls of the probe types' `Deserialize` impls in the current case: the deterministic liveness monitor
    /// for loops that offer the same node to an element for ever
    static PROBE_CALLS: std::cell::Cell<u64> = const { std::cell::Cell::new(0) };
}

fn probe_step(who: &str) {
    let n = PROBE_CALLS.with(|c| {
        c.set(c.get() + 1);
        c.get()
    });
    if n > 3_000_000 {
        PROBE_CALLS.with(|c| c.set(0));
        std::panic::panic_any(crate::io::SimMarker::Liveness(format!("{who}: Deserialize impl called {n} times in one case")));
    }
}

/// serde allows a `Deserialize` impl to ignore its input; the entry points must still terminate.
#[derive(Debug)]
struct NoOpT;
impl<'de> Deserialize<'de> for NoOpT {
    fn deserialize<D: serde::Deserializer<'de>>(_d: D) -> Result<Self, D::Error> {
        probe_step("no-op element");
        Ok(NoOpT)
    }
}

/// `{name: value}`: the map visitor asks for one entry and returns (serde_json reads this type).
#[derive(Debug)]
#[allow(dead_code)]
struct Single(String, i64);
impl<'de> Deserialize<'de> for Single {
    fn deserialize<D: serde::Deserializer<'de>>(d: D) -> Result<Self, D::Error> {
        struct V;
        impl<'de> serde::de::Visitor<'de> for V {
            type Value = Single;
            fn expecting(&self, f: &mut std::fmt::Formatter) -> std::fmt::Result {
                f.write_str("a one-entry mapping")
            }
            fn visit_map<A: serde::de::MapAccess<'de>>(self, mut a: A) -> Result<Single, A::Error> {
                match a.next_entry::<String, i64>()? {
                    Some((k, v)) => Ok(Single(k, v)),
                    None => Err(serde::de::Error::custom("empty mapping")),
                }
            }
        }
        probe_step("under-reading map visitor");
        d.deserialize_map(V)
    }
}

#[derive(Debug)]
#[allow(dead_code)]
struct ValueFirstT(Option<i64>);
impl<'de> Deserialize<'de> for ValueFirstT {
    fn deserialize<D: serde::Deserializer<'de>>(d: D) -> Result<Self, D::Error> {
        struct V;
        impl<'de> serde::de::Visitor<'de> for V {
            type Value = ValueFirstT;
            fn expecting(&self, f: &mut std::fmt::Formatter) -> std::fmt::Result {
                f.write_str("a mapping")
            }
            fn visit_map<A: serde::de::MapAccess<'de>>(self, mut a: A) -> Result<ValueFirstT, A::Error> {
                let v = a.next_value::<i64>().ok();
                while let Ok(Some(_)) = a.next_key::<serde::de::IgnoredAny>() {
                    if a.next_value::<serde::de::IgnoredAny>().is_err() {
                        break;
                    }
                }
                let _ = a.next_value::<i64>();
                Ok(ValueFirstT(v))
            }
        }
        probe_step("value-first map visitor");
        d.deserialize_map(V)
    }
}

#[derive(Debug)]
#[allow(dead_code)]
struct VariantNameT(String);
impl<'de> Deserialize<'de> for VariantNameT {
    fn deserialize<D: serde::Deserializer<'de>>(d: D) -> Result<Self, D::Error> {
        struct V;
        impl<'de> serde::de::Visitor<'de> for V {
            type Value = VariantNameT;
            fn expecting(&self, f: &mut std::fmt::Formatter) -> std::fmt::Result {
                f.write_str("an enum")
            }
            fn visit_enum<A: serde::de::EnumAccess<'de>>(self, a: A) -> Result<VariantNameT, A::Error> {
                let (name, _access) = a.variant::<String>()?;
                Ok(VariantNameT(name))
            }
        }
        probe_step("variant-name-only enum visitor");
        d.deserialize_enum("E", &["A", "B", "U", "N", "T", "S"], V)
    }
}

#[derive(Debug, Deserialize)]
#[allow(dead_code)]
struct L(Vec<L>);

#[derive(Debug, Deserialize)]
#[allow(dead_code)]
struct M {
    #[serde(default)]
    m: Option<Box<M>>,
    #[serde(default)]
    v: Option<i32>,
}

#[derive(Debug, Deserialize)]
#[allow(dead_code)]
enum DE {
    Leaf(i32),
    Wrap(Box<DE>),
    Pair(Box<DE>, Box<DE>),
    S { inner: Option<Box<DE>> },
    Unit,
}

#[derive(Debug)]
#[allow(dead_code)]
struct BytesT(Vec<u8>);
impl<'de> Deserialize<'de> for BytesT {
    fn deserialize<D: serde::Deserializer<'de>>(d: D) -> Result<Self, D::Error> {
        struct V;
        impl<'de> serde::de::Visitor<'de> for V {
            type Value = BytesT;
            fn expecting(&self, f: &mut std::fmt::Formatter) -> std::fmt::Result {
                f.write_str("bytes")
            }
            fn visit_bytes<E>(self, v: &[u8]) -> Result<BytesT, E> {
                Ok(BytesT(v.to_vec()))
            }
            fn visit_byte_buf<E>(self, v: Vec<u8>) -> Result<BytesT, E> {
                Ok(BytesT(v))
            }
            fn visit_seq<A: serde::de::SeqAccess<'de>>(self, mut a: A) -> Result<BytesT, A::Error> {
                let mut v = Vec::new();
                while let Some(b) = a.next_element::<u8>()? {
                    v.push(b);
                }
                Ok(BytesT(v))
            }
        }
        d.deserialize_bytes(V)
    }
}

#[derive(Debug, Deserialize)]
#[allow(dead_code)]
struct RcG {
    #[serde(default)]
    a: Option<serde_saphyr::RcAnchor<Vec<String>>>,
    #[serde(default)]
    b: Option<serde_saphyr::RcAnchor<Vec<String>>>,
    #[serde(default)]
    w: Option<serde_saphyr::RcWeakAnchor<Vec<String>>>,
    #[serde(default)]
    r: Option<serde_saphyr::ArcAnchor<String>>,
}

#[derive(Debug, Deserialize)]
#[allow(dead_code)]
struct Bor<'a> {
    #[serde(borrow, default)]
    a: Option<&'a str>,
    #[serde(borrow, default)]
    b: Option<std::borrow::Cow<'a, str>>,
    #[serde(default)]
    c: Vec<u8>,
}

#[derive(Clone, Debug, Serialize, Deserialize)]
pub struct TotalCase {
    pub bytes: Doc,
    pub target: T01,
    pub opts: OptVec,
    pub chunking: Chunking,
    #[serde(default)]
    pub faults: Vec<ReadFault>,
    /// one Ok(0) at this offset, then the stream goes on
    #[serde(default)]
    pub nonsticky_eof_at: Option<usize>,
    /// the reader reports its end (or a hard error) once and blocks for ever when polled again
    #[serde(default)]
    pub blocks_after_eof: bool,
    /// the reader has more bytes than the input cap allows and blocks for ever once they are all delivered
    #[serde(default)]
    pub peer_waits: bool,
    /// 0: T::deserialize, 1: closure ignores the deserializer, 2: IgnoredAny, 3: stops after the first element
    pub closure_mode: u8,
    /// what kind of case this is (informational)
    pub origin: String,
}

struct Obs {
    name: &'static str,
    outcome: Outcome,
    renders: Vec<Rendered>,
}

fn script(c: &TotalCase) -> ReaderScript {
    ReaderScript {
        chunking: Some(c.chunking.clone()),
        faults: c.faults.clone(),
        nonsticky_eof_at: c.nonsticky_eof_at,
        blocks_after_eof: c.blocks_after_eof,
        ..Default::default()
    }
}

fn abn<T>(r: Result<Result<T, serde_saphyr::Error>, Abnormal>, renders: &mut Vec<Rendered>) -> Outcome {
    match r {
        Ok(Ok(_)) => Outcome::Ok(String::new()),
        Ok(Err(e)) => {
            renders.push(lab::render_all(&e));
            Outcome::Err(lab::err_info(&e))
        }
        Err(Abnormal::Panic(s)) => Outcome::Panic(s),
        Err(Abnormal::Liveness(s)) => Outcome::Liveness(s),
        Err(Abnormal::ProbePanic) => Outcome::ProbePanic,
    }
}

fn run_owned<T: DeserializeOwned + Debug>(c: &TotalCase, st: &mut Stats) -> Vec<Obs> {
    let mut v = Vec::new();
    let bytes = &c.bytes.0;
    let opts = || c.opts.to_options();
    let mut push = |name: &'static str, r: Result<Result<(), serde_saphyr::Error>, Abnormal>| {
        let mut renders = Vec::new();
        let outcome = abn(r, &mut renders);
        v.push(Obs { name, outcome, renders });
    };
    // in-memory entry points on the delivered bytes
    push("from_slice", guard(|| serde_saphyr::from_slice_with_options::<T>(bytes, opts()).map(|_| ())));
    push(
        "from_slice_multiple",
        guard(|| serde_saphyr::from_slice_multiple_with_options::<T>(bytes, opts()).map(|_| ())),
    );
    if let Ok(s) = std::str::from_utf8(bytes) {
        push("from_str", guard(|| serde_saphyr::from_str_with_options::<T>(s, opts()).map(|_| ())));
        push("from_multiple", guard(|| serde_saphyr::from_multiple_with_options::<T>(s, opts()).map(|_| ())));
    }
    let mode = c.closure_mode;
    push(
        "with_deserializer_from_slice",
        guard(|| {
            serde_saphyr::with_deserializer_from_slice_with_options(bytes, opts(), |de| match mode {
                1 => Ok(()),
                2 => serde::de::IgnoredAny::deserialize(de).map(|_| ()),
                _ => T::deserialize(de).map(|_| ()),
            })
        }),
    );
    // reader entry points
    // The waiting peer (it has sent more than the cap allows and blocks once that is delivered) only applies
    // where the cap error is what the call comes to: the library then knows its answer and has no business
    // asking for more. Any other error may legitimately be followed by the diagnostic read-ahead.
    let peer_waits = c.peer_waits && {
        let rd = SimReader::new(bytes, script(c));
        matches!(
            guard(|| serde_saphyr::from_reader_with_options::<_, T>(rd, opts()).map(|_| ())),
            Ok(Err(e)) if lab::err_info(&e).io.as_deref() == Some("FileTooLarge")
        )
    };
    let mk = || {
        SimReader::new(
            bytes,
            ReaderScript {
                peer_waits,
                ..script(c)
            },
        )
    };
    let mut readers: Vec<SimReader> = Vec::new();
    {
        let rd = mk();
        readers.push(rd.clone());
        push("from_reader", guard(|| serde_saphyr::from_reader_with_options::<_, T>(rd, opts()).map(|_| ())));
    }
    {
        let rd = mk();
        readers.push(rd.clone());
        push(
            "with_deserializer_from_reader",
            guard(|| {
                serde_saphyr::with_deserializer_from_reader_with_options(rd, opts(), |de| match mode {
                    1 => Ok(()),
                    2 => serde::de::IgnoredAny::deserialize(de).map(|_| ()),
                    _ => T::deserialize(de).map(|_| ()),
                })
            }),
        );
    }
    for plain in [false, true] {
        // (`read` has no input cap: there the waiting peer would legitimately be asked for more)
        let mut rd = if plain {
            SimReader::new(
                bytes,
                ReaderScript {
                    peer_waits: false,
                    ..script(c)
                },
            )
        } else {
            mk()
        };
        readers.push(rd.clone());
        let max_items = bytes.len() + 8; // an iterator cannot yield more items than there are bytes
        let mut items = 0usize;
        let mut renders = Vec::new();
        let mut worst: Option<Outcome> = None;
        let mut terminated = false;
        let r = guard(|| {
            let mut it: Box<dyn Iterator<Item = Result<T, serde_saphyr::Error>>> = if plain {
                serde_saphyr::read::<_, T>(&mut rd)
            } else {
                Box::new(serde_saphyr::read_with_options::<_, T>(&mut rd, opts()))
            };
            for _ in 0..max_items {
                match it.next() {
                    Some(Ok(_)) => items += 1,
                    Some(Err(e)) => {
                        items += 1;
                        if renders.len() < 4 {
                            renders.push(lab::render_all(&e));
                        }
                    }
                    None => {
                        terminated = true;
                        break;
                    }
                }
                if mode == 3 {
                    terminated = true; // caller abandons the iterator after the first item
                    break;
                }
            }
        });
        let outcome = match r {
            Ok(()) => {
                if terminated {
                    Outcome::Ok(String::new())
                } else {
                    worst.take().unwrap_or(Outcome::Liveness(format!(
                        "iterator yielded {items} items from {} bytes and still has not ended",
                        bytes.len()
                    )))
                }
            }
            Err(Abnormal::Panic(s)) => Outcome::Panic(s),
            Err(Abnormal::Liveness(s)) => Outcome::Liveness(s),
            Err(Abnormal::ProbePanic) => Outcome::ProbePanic,
        };
        st.add("steps.next_calls", items as u64 + 1);
        v.push(Obs {
            name: if plain { "read" } else { "read_with_options" },
            outcome,
            renders,
        });
    }
    for rd in &readers {
        let rs = rd.st.borrow();
        st.add("steps.read_calls", rs.reads);
        st.add("fired.split", rs.short_reads);
        if rs.first_fired.is_some() {
            st.bump("fired.hard_err(any)");
        }
        if rs.nonsticky_done {
            st.bump("fired.nonsticky_eof");
        }
        let d = rs.trace_digest;
        drop(rs);
        st.behaviours.insert(d);
        st.nontrivial.insert(d);
    }
    v
}

fn run_valid(c: &TotalCase) -> Vec<Obs> {
    let mut v = Vec::new();
    let bytes = &c.bytes.0;
    let opts = || c.opts.to_options();
    let mut push = |name: &'static str, r: Result<Result<(), serde_saphyr::Error>, Abnormal>| {
        let mut renders = Vec::new();
        let outcome = abn(r, &mut renders);
        v.push(Obs { name, outcome, renders });
    };
    let mk = || SimReader::new(bytes, script(c));
    push("from_slice_valid", guard(|| serde_saphyr::from_slice_with_options_valid::<VCfg>(bytes, opts()).map(|_| ())));
    push(
        "from_slice_validate",
        guard(|| serde_saphyr::from_slice_with_options_validate::<VCfg>(bytes, opts()).map(|_| ())),
    );
    push(
        "from_slice_multiple_valid",
        guard(|| serde_saphyr::from_slice_multiple_with_options_valid::<VCfg>(bytes, opts()).map(|_| ())),
    );
    push(
        "from_slice_multiple_validate",
        guard(|| serde_saphyr::from_slice_multiple_with_options_validate::<VCfg>(bytes, opts()).map(|_| ())),
    );
    let rd = mk();
    push("from_reader_valid", guard(|| serde_saphyr::from_reader_with_options_valid::<_, VCfg>(rd, opts()).map(|_| ())));
    let rd = mk();
    push(
        "from_reader_validate",
        guard(|| serde_saphyr::from_reader_with_options_validate::<_, VCfg>(rd, opts()).map(|_| ())),
    );
    for which in 0..2 {
        let mut rd = mk();
        let max_items = bytes.len() + 8;
        let mut renders = Vec::new();
        let r = guard(|| {
            let mut n = 0;
            let mut ended = false;
            if which == 0 {
                let mut it = serde_saphyr::read_with_options_valid::<_, VCfg>(&mut rd, opts());
                while n < max_items {
                    match it.next() {
                        Some(Err(e)) if renders.len() < 3 => renders.push(lab::render_all(&e)),
                        Some(_) => {}
                        None => {
                            ended = true;
                            break;
                        }
                    }
                    n += 1;
                }
            } else {
                let mut it = serde_saphyr::read_with_options_validate::<_, VCfg>(&mut rd, opts());
                while n < max_items {
                    match it.next() {
                        Some(Err(e)) if renders.len() < 3 => renders.push(lab::render_all(&e)),
                        Some(_) => {}
                        None => {
                            ended = true;
                            break;
                        }
                    }
                    n += 1;
                }
            }
            ended
        });
        let outcome = match r {
            Ok(true) => Outcome::Ok(String::new()),
            Ok(false) => Outcome::Liveness("validating iterator did not end".into()),
            Err(Abnormal::Panic(s)) => Outcome::Panic(s),
            Err(Abnormal::Liveness(s)) => Outcome::Liveness(s),
            Err(Abnormal::ProbePanic) => Outcome::ProbePanic,
        };
        v.push(Obs {
            name: if which == 0 { "read_valid" } else { "read_validate" },
            outcome,
            renders,
        });
    }
    v
}

fn run_borrowed(c: &TotalCase) -> Vec<Obs> {
    let mut v = Vec::new();
    let bytes = &c.bytes.0;
    let mut renders = Vec::new();
    let outcome = abn(
        guard(|| serde_saphyr::from_slice_with_options::<Bor>(bytes, c.opts.to_options()).map(|_| ())),
        &mut renders,
    );
    v.push(Obs {
        name: "from_slice(borrowed)",
        outcome,
        renders,
    });
    let mut renders = Vec::new();
    let rd = SimReader::new(bytes, script(c));
    let outcome = abn(
        guard(|| {
            serde_saphyr::with_deserializer_from_reader_with_options(rd, c.opts.to_options(), |de| {
                Bor::deserialize(de).map(|_| ())
            })
        }),
        &mut renders,
    );
    v.push(Obs {
        name: "with_deserializer_from_reader(borrowed)",
        outcome,
        renders,
    });
    v
}

/// `!!binary` scalars with well-formed, padded, over-padded, truncated and whitespace-broken payloads
fn binary_doc(rng: &mut Rng) -> String {
    const B64: &[u8] = b"ABCDEFGHIJKLMNOPQRSTUVWXYZabcdefghijklmnopqrstuvwxyz0123456789+/";
    fn payload(rng: &mut Rng) -> String {
        match rng.below(8) {
            0 => (*rng.pick(&["", "=", "==", "===", "====", "=====", "========", "A===", "A=======", "AA==", "AAA=", "TQ==TQ==", "TWFu", "TWE=", "TQ", "=TQ=", "T=Q="])).to_string(),
            1 => "=".repeat(rng.below(20)),
            _ => {
                let n = rng.below(14);
                let mut s = String::new();
                for _ in 0..n {
                    match rng.below(10) {
                        0 | 1 => s.push('='),
                        2 => s.push(*rng.pick(&[' ', '\t', '-', '_', '.', 'é'])),
                        _ => s.push(B64[rng.below(64)] as char),
                    }
                }
                s
            }
        }
    }
    let p = payload(rng);
    let scalar = match rng.below(6) {
        0 => format!("!!binary \"{p}\""),
        1 => format!("!!binary '{p}'"),
        2 => {
            // block scalar: the payload split over lines
            let mid = p.len() / 2;
            let (a, b) = if p.is_char_boundary(mid) { p.split_at(mid) } else { (p.as_str(), "") };
            format!("!!binary |\n  {a}\n  {b}\n")
        }
        3 => format!("!<tag:yaml.org,2002:binary> {p}"),
        _ => format!("!!binary {p}"),
    };
    match rng.below(5) {
        0 => format!("{scalar}\n"),
        1 => format!("- {scalar}\n- {}\n", if scalar.contains('\n') { "x".to_string() } else { scalar.clone() }),
        2 => format!("k: {scalar}\n"),
        3 => format!("c: {scalar}\nname: x\nn: 1\n"),
        _ => format!("[{}]\n", if scalar.contains('\n') { format!("!!binary {}", payload(rng)) } else { scalar.clone() }),
    }
}

/// scalars and collections under every core tag, with contents that fit the tag, contradict it or are empty
fn tagged_doc(rng: &mut Rng) -> String {
    const TAGS: [&str; 16] = [
        "!!null", "!!bool", "!!int", "!!float", "!!str", "!!binary", "!!timestamp", "!!seq", "!!map", "!!set", "!!omap", "!!pairs", "!", "!local",
        "!<tag:yaml.org,2002:null>", "!<tag:yaml.org,2002:str>",
    ];
    const BODIES: [&str; 14] = ["", "x", "\"\"", "~", "null", "true", "12", "1.5", "[1, 2]", "{a: b}", "'q'", "2001-12-14", "=", "|\n  block\n"];
    let node = |rng: &mut Rng| format!("{} {}", rng.pick(&TAGS), rng.pick(&BODIES));
    match rng.below(6) {
        0 => format!("{}\n", node(rng)),
        1 => format!("[{}, {}]\n", node(rng).replace('\n', " "), node(rng).replace('\n', " ")),
        2 => format!("- {}\n- {}\n", node(rng).replace("|\n  block\n", "x"), node(rng).replace("|\n  block\n", "y")),
        3 => format!("k: {}\n", node(rng).replace("|\n  block\n", "|\n    block")),
        4 => format!("--- {}\n--- {}\n", node(rng).replace("|\n  block\n", "z"), node(rng).replace("|\n  block\n", "w")),
        _ => format!("{}: v\n", node(rng).replace("|\n  block\n", "key")),
    }
}

/// documents for the validated struct: failing fields with and without a YAML key that maps back
fn validation_doc(rng: &mut Rng) -> String {
    let mut s = String::new();
    let name = *rng.pick(&["a", "''", "\"\"", "&n ''", "héllo"]);
    let n = *rng.pick(&["1", "5000", "0x7fffffff", "-1"]);
    let mut lines = vec![format!("name: {name}"), format!("n: {n}")];
    if rng.chance(2, 3) {
        lines.push(format!("zzz: {}", rng.pick(&["ok", "much too long", "&t toolong", "\"long\\e[31mred\"", "*n"])));
    }
    if rng.chance(1, 3) {
        lines.push("list: [1, 2]".to_string());
    }
    if rng.chance(1, 4) {
        lines.push(format!("Title: {}", rng.pick(&["x", "another long one"])));
    }
    // any order
    for i in (1..lines.len()).rev() {
        let j = rng.below(i + 1);
        lines.swap(i, j);
    }
    for l in &lines {
        s.push_str(l);
        s.push('\n');
    }
    if rng.chance(1, 3) {
        s.push_str("---\nname: b\nn: 2\nzzz: second document too long\n");
    }
    s
}

struct SourceGuard;
impl Drop for SourceGuard {
    fn drop(&mut self) {
        lab::set_render_source(None);
    }
}

/// The budget-report callback makes a call of its own with a clone of the very options it is registered in.
fn run_callback_reenters(c: &TotalCase) -> Vec<Obs> {
    use std::cell::RefCell;
    use std::rc::Rc;
    let mut v = Vec::new();
    let text = String::from_utf8_lossy(&c.bytes.0).into_owned();
    let mk_opts = || {
        let slot: Rc<RefCell<Option<serde_saphyr::Options>>> = Rc::new(RefCell::new(None));
        let depth = Rc::new(std::cell::Cell::new(0u32));
        let (s2, d2) = (slot.clone(), depth.clone());
        let opts = c.opts.to_options().with_budget_report(move |_r| {
            // (the closure guards itself against unbounded recursion; the borrow that matters is the crate's)
            if d2.get() < 2 {
                d2.set(d2.get() + 1);
                let o = s2.borrow().clone();
                if let Some(o) = o {
                    let _ = serde_saphyr::from_str_with_options::<serde_json::Value>("a: [1, 2]\n", o);
                }
                d2.set(d2.get() - 1);
            }
        });
        *slot.borrow_mut() = Some(opts.clone());
        opts
    };
    let mut push = |name: &'static str, r: Result<Result<(), serde_saphyr::Error>, Abnormal>| {
        let mut renders = Vec::new();
        let outcome = abn(r, &mut renders);
        v.push(Obs { name, outcome, renders });
    };
    let o = mk_opts();
    push("from_str (report callback re-enters)", guard(|| serde_saphyr::from_str_with_options::<serde_json::Value>(&text, o).map(|_| ())));
    let o = mk_opts();
    push(
        "from_multiple (report callback re-enters)",
        guard(|| serde_saphyr::from_multiple_with_options::<serde_json::Value>(&text, o).map(|_| ())),
    );
    let o = mk_opts();
    let mut rd = SimReader::new(&c.bytes.0, script(c));
    push(
        "read_with_options (report callback re-enters)",
        guard(|| {
            let it = serde_saphyr::read_with_options::<_, serde_json::Value>(&mut rd, o);
            for item in it.take(c.bytes.0.len() + 8) {
                item?;
            }
            Ok(())
        }),
    );
    v
}

pub fn exec(c: &TotalCase, st: &mut Stats) -> Vec<Viol> {
    let mut out = Vec::new();
    // every returned error is also turned into a miette report over the delivered text
    lab::set_render_source(Some(String::from_utf8_lossy(&c.bytes.0).into_owned()));
    let _source = SourceGuard;
    PROBE_CALLS.with(|c| c.set(0));
    let mut obs = match c.target {
        T01::Fam(t) => crate::with_target!(t, run_owned(c, st)),
        T01::DeepSeq => run_owned::<L>(c, st),
        T01::DeepMap => run_owned::<M>(c, st),
        T01::DeepEnum => run_owned::<DE>(c, st),
        T01::Bytes => run_owned::<BytesT>(c, st),
        T01::RcGraph => run_owned::<RcG>(c, st),
        T01::Borrowed => run_borrowed(c),
        T01::NoOp => run_owned::<NoOpT>(c, st),
        T01::DeepWide => run_owned::<W>(c, st),
        T01::UnitSeq => run_owned::<Vec<()>>(c, st),
        T01::NoOpSeq => run_owned::<Vec<NoOpT>>(c, st),
        T01::UnderReadSeq => run_owned::<Vec<Option<Single>>>(c, st),
        T01::NoOpMap => run_owned::<std::collections::BTreeMap<String, NoOpT>>(c, st),
        T01::ValueFirst => run_owned::<ValueFirstT>(c, st),
        T01::VariantNameOnly => run_owned::<Vec<VariantNameT>>(c, st),
        T01::ReportCallbackReenters => run_callback_reenters(c),
    };
    if matches!(c.target, T01::Fam(Target::Cfg)) {
        obs.extend(run_valid(c));
    }
    st.schedules.insert(script(c).digest());
    for o in &obs {
        st.evals += 1;
        st.note(&o.outcome.class());
        st.bump(&format!("outcome.{}", o.outcome.class()));
        match &o.outcome {
            Outcome::Panic(s) => out.push(Viol {
                property: "C01".into(),
                clause: "panic".into(),
                detail: format!("{} panicked: {s}", o.name),
                case: Case::C01(c.clone()),
            }),
            Outcome::Liveness(s) => out.push(Viol {
                property: "C01".into(),
                clause: "does-not-terminate".into(),
                detail: format!("{}: {s}", o.name),
                case: Case::C01(c.clone()),
            }),
            _ => {}
        }
        for r in &o.renders {
            st.add("steps.renderings", r.texts.len() as u64);
            for (which, p) in &r.panics {
                out.push(Viol {
                    property: "C01".into(),
                    clause: "render-panics".into(),
                    detail: format!("{}: rendering the returned error with {which} panicked: {p}", o.name),
                    case: Case::C01(c.clone()),
                });
            }
        }
    }
    out
}

// ------------------------------------------------------------------------------------------------
// Channel corruption

const INSERTS: &[&[u8]] = &[
    b"-", b"- ", b"?", b": ", b":", b",", b"[", b"]", b"{", b"}", b"#", b"&a ", b"*a", b"!", b"!!", b"|", b">", b"'", b"\"", b"%",
    b"@", b"`", b"---\n", b"...\n", b"\n", b" ", b"\t", b"\r", b"<<: ", b"\\", b"\0", b"\xff", b"\xfe", b"\x80", b"\xc3", b"\xe2\x82",
    b"\xf0\x9f", b"\xef\xbb\xbf", b"\xff\xfe", b"\xfe\xff", b"\xc0\xaf", b"\xed\xa0\x80", b"\x1b[31m", b"\xc2\x85", b"\xe2\x80\xa8",
];

pub fn corrupt(data: &mut Vec<u8>, rng: &mut Rng, st: &mut Vec<String>) {
    let n = rng.below(4);
    for _ in 0..n {
        if data.is_empty() {
            data.extend_from_slice(*rng.pick(INSERTS));
            st.push("insert".into());
            continue;
        }
        let i = rng.below(data.len());
        match rng.below(7) {
            0 => {
                data[i] ^= 1 << rng.below(8);
                st.push("bit_flip".into());
            }
            1 => {
                data.remove(i);
                st.push("byte_drop".into());
            }
            2 => {
                // duplicate a chunk
                let len = rng.range(1, 16).min(data.len() - i);
                let chunk: Vec<u8> = data[i..i + len].to_vec();
                for (k, b) in chunk.into_iter().enumerate() {
                    data.insert(i + len + k, b);
                }
                st.push("chunk_dup".into());
            }
            3 => {
                // swap two adjacent chunks
                let len = rng.range(1, 12);
                if i + 2 * len <= data.len() {
                    for k in 0..len {
                        data.swap(i + k, i + len + k);
                    }
                    st.push("chunk_swap".into());
                }
            }
            4 => {
                data.truncate(i);
                st.push("truncate".into());
            }
            _ => {
                let ins = rng.pick(INSERTS);
                for (k, b) in ins.iter().enumerate() {
                    data.insert(i + k, *b);
                }
                st.push("insert".into());
            }
        }
    }
}

// ------------------------------------------------------------------------------------------------
// Deep / wide adversarial peers

pub const N_DEEP_KINDS: usize = 16;

pub fn deep_doc(kind: usize, depth: usize) -> String {
    match kind % N_DEEP_KINDS {
        0 => format!("{}1{}", "[".repeat(depth), "]".repeat(depth)),
        1 => format!("{}1{}", "{a: ".repeat(depth), "}".repeat(depth)),
        2 => {
            // block sequence "- - - - x"
            format!("{}x\n", "- ".repeat(depth))
        }
        3 => {
            // mixed flow
            let mut s = String::new();
            for i in 0..depth {
                s.push_str(if i % 2 == 0 { "[" } else { "{k: " });
            }
            s.push('1');
            for i in (0..depth).rev() {
                s.push_str(if i % 2 == 0 { "]" } else { "}" });
            }
            s
        }
        4 => {
            // anchored deep container, replayed twice
            format!("a: &d {}1{}\nb: *d\nc: *d\n", "[".repeat(depth), "]".repeat(depth))
        }
        5 => {
            // deep structure as a mapping key
            format!("? {}1{}\n: v\n", "[".repeat(depth), "]".repeat(depth))
        }
        6 => {
            // newtype-variant chain for the recursive enum
            format!("{}Unit{}", "{Wrap: ".repeat(depth), "}".repeat(depth))
        }
        7 => {
            // m: {m: {m: ...}} for the recursive struct
            format!("{}{{v: 1}}{}", "{m: ".repeat(depth), "}".repeat(depth))
        }
        8 => {
            // tagged chain
            format!("{}1{}", "!t [".repeat(depth), "]".repeat(depth))
        }
        9 => {
            // anchored containers nested inside each other: ids are handed out at the start of a
            // container and stored at its end
            let mut s = String::new();
            for i in 0..depth {
                s.push_str(&format!("&n{i} ["));
            }
            s.push('1');
            s.push_str(&"]".repeat(depth));
            s
        }
        11 => {
            // block-style nested mappings (the parser refuses flow nesting beyond 256 levels, so only
            // block style reaches the depth limit of the budget); size grows with depth^2
            let d = depth.min(2100);
            let mut s = String::new();
            for i in 0..d {
                s.push_str(&" ".repeat(i));
                s.push_str("k:\n");
            }
            s.push_str(&" ".repeat(d));
            s.push_str("v: 1\n");
            s
        }
        12 => {
            // the same as the value of a merge key: merged nodes are captured recursively
            let d = depth.min(2100);
            let mut s = String::from("top:\n  <<:\n");
            for i in 0..d {
                s.push_str(&" ".repeat(i + 4));
                s.push_str("k:\n");
            }
            s.push_str(&" ".repeat(d + 4));
            s.push_str("v: 1\n  other: 2\n");
            s
        }
        13 => {
            // deep block sequence as a complex mapping key (keys are captured recursively)
            format!("? {}x\n: v\n", "- ".repeat(depth.min(40_000)))
        }
        14 => {
            // deep block mapping under a sequence of merge sources
            let d = depth.min(2100);
            let mut s = String::from("base: &b\n");
            for i in 0..d {
                s.push_str(&" ".repeat(i + 2));
                s.push_str("k:\n");
            }
            s.push_str(&" ".repeat(d + 2));
            s.push_str("v: 1\nuse:\n  <<: [*b]\n  w: 2\n");
            s
        }
        10 | 15 => {
            // a failing first document whose skipped remainder defines many anchors, then a document
            // that defines and uses one more
            let mut s = String::from("- [not, an, int]\n");
            for i in 0..depth.min(4000) {
                s.push_str(&format!("- &s{i} {i}\n"));
            }
            s.push_str("---\n- &late 5\n- *late\n---\n- &later [6]\n- *later\n");
            s
        }
        _ => String::new(),
    }
}

pub fn wide_doc(kind: usize, n: usize) -> String {
    match kind % 6 {
        // very many documents: null-like ones are skipped by the iterators, one after the other
        4 => "--- ~\n".repeat(n * 15),
        5 => format!("{}--- 1\n", "---\n".repeat(n * 15)),
        0 => format!("[{}]", vec!["1"; n].join(", ")),
        1 => (0..n).map(|i| format!("k{i}: {i}\n")).collect(),
        2 => format!("a: &x [1, 2, 3]\n{}", (0..n).map(|i| format!("b{i}: *x\n")).collect::<String>()),
        _ => format!("s: \"{}\"\n", "é".repeat(n)),
    }
}

const DEPTHS: [usize; 17] = [1, 9, 12, 20, 64, 500, 1000, 1500, 1990, 1999, 2000, 2001, 2010, 3000, 10_000, 40_000, 100_000];

pub fn n_probes() -> u64 {
    // kind x depth x target
    (N_DEEP_KINDS * DEPTHS.len() * 5) as u64
}

/// Option peers: every numeric limit at 0, 1 and usize::MAX in turn (and the ratio parameters at their
/// extremes), against documents that exercise the limit. Arithmetic on limits must not overflow or panic.
pub fn option_peers() -> Vec<(String, OptVec, String)> {
    let mut v = Vec::new();
    let mut alias_doc = String::from("p: &p 1\nq: &q [2, 3]\nm: &m {a: 1}\n");
    for i in 0..12 {
        alias_doc.push_str(&format!("k{i}: {}\n", ["*p", "*q", "*m"][i % 3]));
    }
    alias_doc.push_str("z:\n  <<: *m\n  y: [*p, *q]\n");
    let docs = [alias_doc, deep_doc(2, 40), wide_doc(1, 200), "---\na: 1\n---\nb: 2\n---\nc: 3\n".to_string()];
    let extremes = [0usize, 1, 2, usize::MAX / 2 + 1, usize::MAX - 1, usize::MAX];
    for (di, d) in docs.iter().enumerate() {
        for field in 0..14 {
            for &x in &extremes {
                let mut o = OptVec::default();
                let mut b = serde_saphyr::Budget::default();
                #[allow(deprecated)]
                match field {
                    0 => b.max_events = x,
                    1 => b.max_aliases = x,
                    2 => b.max_anchors = x,
                    3 => b.max_depth = x,
                    4 => b.max_documents = x,
                    5 => b.max_nodes = x,
                    6 => b.max_total_scalar_bytes = x,
                    7 => b.max_merge_keys = x,
                    8 => {
                        b.alias_anchor_min_aliases = 0;
                        b.alias_anchor_ratio_multiplier = x;
                    }
                    9 => b.alias_anchor_min_aliases = x,
                    10 => b.max_reader_input_bytes = Some(x),
                    11 => o.alias_limits.max_total_replayed_events = x,
                    12 => o.alias_limits.max_replay_stack_depth = x,
                    _ => o.alias_limits.max_alias_expansions_per_anchor = x,
                }
                o.budget = Some(b);
                o.crop_radius = [64usize, 0, 1, usize::MAX][(field + di) % 4];
                v.push((d.clone(), o, format!("option-peer doc={di} field={field} value={x}")));
            }
        }
    }
    v
}

pub fn n_option_peers() -> u64 {
    (4 * 14 * 6) as u64
}

/// Errors far enough to the right for the rendered line to be cropped on the left, with multi-byte text in
/// the part that is cut away and at the location: 4 fills x 46 lengths x 3 forms.
const CROP_FILLS: [&str; 4] = ["é", "日", "😀x", "ab ñ"];
const CROP_EXTRA_LENS: [usize; 10] = [100, 101, 102, 103, 127, 128, 129, 200, 500, 1000];

pub fn n_crop_peers() -> u64 {
    (CROP_FILLS.len() * (36 + CROP_EXTRA_LENS.len()) * 3) as u64
}

fn crop_peer(i: usize) -> (String, T01, String) {
    let fill = CROP_FILLS[i % CROP_FILLS.len()];
    let j = i / CROP_FILLS.len();
    let nl = 36 + CROP_EXTRA_LENS.len();
    let len = if j % nl < 36 { 40 + j % nl } else { CROP_EXTRA_LENS[j % nl - 36] };
    let form = j / nl;
    let pad = fill.repeat(len);
    let tail = fill.repeat(70);
    let (doc, target) = match form {
        0 => (format!("{{name: \"{pad}\", n: {tail}}}\n"), T01::Fam(Target::Cfg)),
        1 => (format!("k: \"{pad}\" {tail}\n"), T01::Fam(Target::Json)),
        _ => (format!("{{name: \"{pad}\", list: [1, {tail}], n: 1}}\n"), T01::Fam(Target::Cfg)),
    };
    (doc, target, format!("crop-peer fill={fill:?} len={len} form={form}"))
}

pub fn total(tier: Tier) -> u64 {
    n_probes()
        + n_option_peers()
        + n_crop_peers()
        + match tier {
            Tier::Quick => 16_000,
            Tier::Thorough => 300_000,
        }
}

const ALL_T01: [T01; 16] = [
    T01::ReportCallbackReenters,
    T01::NoOpSeq,
    T01::UnderReadSeq,
    T01::NoOpMap,
    T01::ValueFirst,
    T01::VariantNameOnly,
    T01::UnitSeq,
    T01::DeepSeq,
    T01::DeepMap,
    T01::DeepEnum,
    T01::Bytes,
    T01::RcGraph,
    T01::Borrowed,
    T01::NoOp,
    T01::Fam(Target::Json),
    T01::Fam(Target::Cfg),
];

pub fn gen_case(tier: Tier, seed: u64, idx: u64) -> Case {
    let mut rng = Rng::for_case(seed, "C01", idx);
    if idx + 1 == total(tier) {
        // one probe, last in the run: block-nested mappings just under the default depth limit into the
        // wide recursive struct (known finding F49: its frames do not fit into 8 MiB)
        return Case::C01(TotalCase {
            bytes: Doc::from_str(&deep_doc(11, 1999)),
            target: T01::DeepWide,
            opts: OptVec::default(),
            chunking: Chunking::Whole,
            faults: vec![],
            nonsticky_eof_at: None,
            blocks_after_eof: false,
            peer_waits: false,
            closure_mode: 0,
            origin: "deep kind=11 depth=1999 wide-struct".to_string(),
        });
    }
    if idx < n_probes() {
        // deep-nesting peers, default budget, one read
        let i = idx as usize;
        let kind = i % N_DEEP_KINDS;
        let depth = DEPTHS[(i / N_DEEP_KINDS) % DEPTHS.len()];
        let target = [T01::Fam(Target::Json), T01::DeepSeq, T01::DeepEnum, T01::DeepMap, T01::Fam(Target::VecI)]
            [(i / (N_DEEP_KINDS * DEPTHS.len())) % 5];
        // quadratic-size shapes only up to the region around the depth limit
        let depth = if matches!(kind, 11 | 12 | 14) { depth.min(2100) } else { depth };
        return Case::C01(TotalCase {
            bytes: Doc::from_str(&deep_doc(kind, depth)),
            target,
            opts: OptVec::default(),
            chunking: if i % 2 == 0 { Chunking::Whole } else { Chunking::Fixed(4096) },
            faults: vec![],
            nonsticky_eof_at: None,
            blocks_after_eof: false,
            peer_waits: false,
            closure_mode: 0,
            origin: format!("deep kind={kind} depth={depth}"),
        });
    }
    if idx < n_probes() + n_option_peers() {
        let peers = option_peers();
        let (doc, opts, origin) = peers[(idx - n_probes()) as usize].clone();
        return Case::C01(TotalCase {
            bytes: Doc::from_str(&doc),
            target: T01::Fam(Target::Json),
            opts,
            chunking: Chunking::Fixed(7),
            faults: vec![],
            nonsticky_eof_at: None,
            blocks_after_eof: false,
            peer_waits: false,
            closure_mode: 0,
            origin,
        });
    }
    // (behind the seeded cases, so that their indices - and with them their draws - stay what they were)
    if idx + 1 + n_crop_peers() >= total(tier) {
        let i = (idx + 1 + n_crop_peers() - total(tier)) as usize;
        let (doc, target, origin) = crop_peer(i);
        return Case::C01(TotalCase {
            bytes: Doc::from_str(&doc),
            target,
            opts: OptVec::default(),
            chunking: if i % 2 == 0 { Chunking::Whole } else { Chunking::Fixed(7) },
            faults: vec![],
            nonsticky_eof_at: None,
            blocks_after_eof: false,
            peer_waits: false,
            closure_mode: 0,
            origin,
        });
    }
    let target = match rng.below(10) {
        0..=4 => T01::Fam(*rng.pick(&ALL_TARGETS)),
        _ => *rng.pick(&ALL_T01),
    };
    let fam = match target {
        T01::Fam(t) => t,
        _ => Target::Json,
    };
    let mut origin = Vec::new();
    let pick = rng.below(23);
    // `!!binary` payloads go to the targets that decode them, validation documents to the validated struct
    let (target, fam) = match pick {
        12 => {
            let t = *rng.pick(&[T01::Bytes, T01::Fam(Target::Json), T01::Fam(Target::Str), T01::Fam(Target::VecS), T01::Fam(Target::Map)]);
            (t, if let T01::Fam(f) = t { f } else { Target::Json })
        }
        13 | 17 | 22 => (T01::Fam(Target::Cfg), Target::Cfg),
        21 => (*rng.pick(&[T01::NoOpSeq, T01::UnderReadSeq, T01::NoOpMap, T01::ValueFirst, T01::VariantNameOnly, T01::NoOp, T01::UnitSeq]), Target::Json),
        16 => {
            let t = *rng.pick(&[
                T01::Fam(Target::Unit),
                T01::Fam(Target::Json),
                T01::Fam(Target::OptS),
                T01::Fam(Target::Bool),
                T01::Fam(Target::I64),
                T01::Fam(Target::Str),
                T01::Fam(Target::VecS),
                T01::Fam(Target::En),
                T01::Bytes,
                T01::UnitSeq,
                T01::UnitSeq,
            ]);
            (t, if let T01::Fam(f) = t { f } else { Target::Json })
        }
        _ => (target, fam),
    };
    let text: String = match pick {
        0 | 1 | 2 | 3 => {
            origin.push("doc".to_string());
            wl::gen_doc(fam, &mut rng)
        }
        4 | 5 => {
            origin.push("stream".to_string());
            let n = rng.range(2, 5);
            crate::prop::c10::gen_stream(fam, &mut rng, n).0
        }
        6 => {
            origin.push("soup".to_string());
            wl::gen_soup(&mut rng, 24)
        }
        7 => {
            origin.push("corpus".to_string());
            let c = wl::corpus();
            c[rng.below(c.len())].0.clone()
        }
        8 => {
            origin.push("deep".to_string());
            deep_doc(rng.below(N_DEEP_KINDS), *rng.pick(&[3, 10, 17, 200, 1999, 2001]))
        }
        9 => {
            origin.push("wide".to_string());
            wide_doc(rng.below(6), *rng.pick(&[10, 300, 3000, 20_000]))
        }
        10 => {
            origin.push("rc-graph".to_string());
            if rng.chance(1, 2) {
                "a: &x [p, q]\nb: *x\nw: *x\nr: &s t\n".to_string()
            } else {
                // several anchors, many aliases
                let n = rng.range(2, 40);
                let mut s = String::from("p: &p 1\nq: &q [2]\n");
                for i in 0..n {
                    s.push_str(&format!("k{i}: {}\n", if i % 2 == 0 { "*p" } else { "*q" }));
                }
                s
            }
        }
        12 => {
            origin.push("binary".to_string());
            binary_doc(&mut rng)
        }
        13 => {
            origin.push("validation".to_string());
            validation_doc(&mut rng)
        }
        16 => {
            origin.push("tagged".to_string());
            tagged_doc(&mut rng)
        }
        21 => {
            origin.push("probe-docs".to_string());
            // small documents for the under-reading / no-op / out-of-order probe types: sequences of mappings,
            // null-like nodes, enum forms
            const DOCS: [&str; 22] = [
                "- a: 1\n- b: 2\n",
                "[{a: 1}, {b: 2, c: 3}]\n",
                "- x\n- y\n",
                "- [1, 2]\n- {k: [v]}\n- ~\n",
                "~\n",
                "",
                "# only a comment\n",
                "!!null\n",
                "null\n",
                "f: ~\n",
                "{}\n",
                "{a: 1}\n",
                "a: 1\nb: 2\n",
                "- A\n- B: 1\n- {N: 5}\n- T: [1, 2]\n",
                "- !A 1\n- !B\n",
                "- &x {a: 1, b: 2}\n- *x\n",
                "k: &x [1]\nj: *x\n",
                "- <<: {a: 1}\n  b: 2\n",
                "[]\n",
                "- - a: 1\n  - b: 2\n",
                "a: 1\n---\n- b: 2\n- c: 3\n---\n~\n",
                "? [complex]\n: 1\n",
            ];
            let mut t = rng.pick(&DOCS).to_string();
            if rng.chance(1, 3) {
                t.push_str("---\n");
                t.push_str(*rng.pick(&DOCS));
            }
            t
        }
        22 => {
            origin.push("far-right-dual-location".to_string());
            // an error with two locations whose "defined here" marker lies beyond column 65535 (reached by a
            // flow mapping on one line; cropping switched off by a huge radius, or on)
            let n = *rng.pick(&[65_520usize, 65_536, 70_000, 140_000, 33_000, 50_000, 59_990]);
            // (double-width characters: half as many fill the same number of columns)
            let pad = match rng.below(3) {
                0 => "a".repeat(n),
                1 => "é".repeat(n),
                _ => "日".repeat(n),
            };
            match rng.below(3) {
                0 => format!("{{ name: \"{pad}\", flag: &x true, n: *x }}\n"),
                1 => format!("{{ name: \"{pad}\", n: 1, zzz: [1, 2] }}\n"),
                _ => format!("name: &l [\"{pad}\"]\nn: *l\n"),
            }
        }
        19 => {
            origin.push("long-line-error".to_string());
            // an error far to the right on a line of 4-20 KiB of multi-byte text, with such lines around
            // it: the stored source window is cropped by columns, on text where columns are not bytes
            let fill = *rng.pick(&["é", "日本", "😀x", "ab"]);
            let n = rng.range(1500, 6000);
            let long = fill.repeat(n);
            let broken = match rng.below(4) {
                0 => format!("k2: \"{long}\" stray"),
                1 => format!("k2: [{long}, [unclosed"),
                2 => format!("k2: {long}: {long}: x"),
                _ => format!("k2: '{long}"),
            };
            let doc = format!("k1: {}\n{broken}\nk3: {}\n", if rng.chance(1, 2) { long.clone() } else { "1".into() }, if rng.chance(1, 2) { long.clone() } else { "3".into() });
            // the end of the input as the last line's end: no line break, a lone CR, CR LF
            match rng.below(5) {
                0 => doc.trim_end_matches('\n').to_string(),
                1 => format!("{}\r", doc.trim_end_matches('\n')),
                2 => doc.replace('\n', "\r\n"),
                _ => doc,
            }
        }
        18 => {
            origin.push("numeric-looking".to_string());
            // scalars that start like numbers and go on with units, currency, function calls and operators
            // (with `angle_conversions` the float parser also evaluates deg(..) / rad(..) and arithmetic)
            const HEAD: [&str; 12] = ["1", "12", "180", "-123", "+7", "1.5", ".5", "0x1F", "1e3", "0", "deg(", "rad("];
            const TAIL: [&str; 18] = ["°", "€", "µ", "é", "日", "😀", ")", "(", "pi", "*2", "/0", "+", "e", "_", ".", " deg", "\u{a0}", ""];
            let mut s = String::new();
            for i in 0..rng.range(1, 6) {
                let mut v = rng.pick(&HEAD).to_string();
                for _ in 0..rng.below(4) {
                    v.push_str(*rng.pick(&TAIL));
                }
                s.push_str(&format!("k{i}: {v}\n"));
            }
            s
        }
        17 => {
            origin.push("alias-type-error".to_string());
            // an anchored node of the wrong shape, used through an alias where the struct wants something
            // else (an error with two locations); the definition sits 0..200 columns into its line
            let pad = " ".repeat(*rng.pick(&[0usize, 1, 5, 63, 64, 65, 70, 120, 200]));
            let def = *rng.pick(&["[1, 2]", "{a: b}", "text é", "12"]);
            match rng.below(3) {
                0 => format!("list: {pad}&l {def}\nn: 5\nname: *l\n"),
                1 => format!("name: x\nlist: {pad}&l {def}\nn: *l\n"),
                _ => format!("# c\nname: &q {pad}{def}\nn: 1\nlist: [1, *q]\nflag: *q\n"),
            }
        }
        _ => {
            origin.push("mutated".to_string());
            let d = wl::gen_doc(fam, &mut rng);
            wl::mutate_text(&d, &mut rng)
        }
    };
    let mut bytes = text.into_bytes();
    if pick == 14 {
        // a long input (beyond the 3 KiB window of recent bytes and often beyond the 8 KiB buffer) in which
        // every line mixes invalid bytes with multi-byte text: whatever line an error window starts or ends
        // in, its edges fall into such text
        origin.push("noisy-lines".to_string());
        const PIECES: [&[u8]; 14] = [
            b"key", b": ", b"word ", b"# ", "é".as_bytes(), "日本".as_bytes(), "😀".as_bytes(), b"\xff", b"\xc3", b"\xe2\x82", b"\x80", b"\xf0\x9f",
            b"[", b"\"",
        ];
        let lines = rng.range(60, 500);
        // a valid head of random length, so that the first invalid byte lies anywhere relative to the window
        let head = rng.below(40);
        bytes.clear();
        for i in 0..lines {
            if i < head {
                bytes.extend_from_slice(format!("k{i}: plain line é {i}\n").as_bytes());
                continue;
            }
            for _ in 0..rng.range(1, 9) {
                bytes.extend_from_slice(*rng.pick(&PIECES));
            }
            bytes.push(b'\n');
        }
    }
    if rng.chance(1, 25) {
        // UTF-16 input goes through the transcoding decoder
        let s = String::from_utf8_lossy(&bytes).to_string();
        let be = rng.chance(1, 2);
        let mut v = if be { vec![0xFE, 0xFF] } else { vec![0xFF, 0xFE] };
        for u in s.encode_utf16() {
            v.extend_from_slice(&if be { u.to_be_bytes() } else { u.to_le_bytes() });
        }
        bytes = v;
        origin.push(if be { "utf16be" } else { "utf16le" }.into());
    }
    if rng.chance(2, 3) {
        corrupt(&mut bytes, &mut rng, &mut origin);
    }
    let chunking = wl::gen_chunking(&bytes, &mut rng);
    let mut faults = Vec::new();
    for _ in 0..*rng.pick(&[0usize, 0, 0, 1, 1, 2]) {
        faults.push(ReadFault {
            pos: if rng.chance(3, 4) {
                FaultPos::AtByte(rng.below(bytes.len() + 1))
            } else {
                FaultPos::AtRead(rng.below(12))
            },
            kind: *rng.pick(&[
                ErrKind::Other,
                ErrKind::ConnectionReset,
                ErrKind::WouldBlock,
                ErrKind::TimedOut,
                ErrKind::UnexpectedEof,
                ErrKind::InvalidData,
                ErrKind::Interrupted,
            ]),
            after: *rng.pick(&[After::Sticky, After::ThenEof, After::ThenResume]),
        });
    }
    // an endless run of Interrupted would (legitimately) be retried for ever: keep it transient
    for f in faults.iter_mut() {
        if f.kind == ErrKind::Interrupted {
            f.after = After::ThenResume;
        }
    }
    let nonsticky = if rng.chance(1, 12) { Some(rng.below(bytes.len() + 1)) } else { None };
    let mut opts = if rng.chance(1, 2) { OptVec::default() } else { OptVec::random(&mut rng) };
    if pick == 22 {
        // cropping switched off the natural way, or left as it is
        opts.crop_radius = *rng.pick(&[65_536usize, 100_000, usize::MAX, 64, 70_000]);
        opts.with_snippet = true;
    }
    if rng.chance(1, 8) {
        // tight budget / alias limits
        let mut b = serde_saphyr::Budget::default();
        #[allow(deprecated)]
        {
            b.max_depth = *rng.pick(&[0, 1, 3, 50]);
            b.max_nodes = *rng.pick(&[0, 1, 10, 1000]);
            b.max_events = *rng.pick(&[0, 5, 100, 100_000]);
            b.max_reader_input_bytes = *rng.pick(&[Some(0), Some(10), Some(1000), None]);
        }
        if rng.chance(1, 3) {
            // extreme values: arithmetic on the limits must not overflow
            #[allow(deprecated)]
            {
                b.enforce_alias_anchor_ratio = true;
                b.alias_anchor_min_aliases = *rng.pick(&[0usize, 1, 2]);
                b.alias_anchor_ratio_multiplier = *rng.pick(&[0usize, 1, usize::MAX, usize::MAX / 2 + 1]);
                b.max_depth = *rng.pick(&[usize::MAX, 2000]);
                b.max_nodes = usize::MAX;
                b.max_events = usize::MAX;
                b.max_total_scalar_bytes = *rng.pick(&[usize::MAX, 0, 3]);
                b.max_reader_input_bytes = *rng.pick(&[Some(usize::MAX), None, Some(1)]);
            }
        }
        opts.budget = Some(b);
        opts.alias_limits.max_total_replayed_events = *rng.pick(&[0, 1, 10, 1_000_000]);
        opts.alias_limits.max_replay_stack_depth = *rng.pick(&[0, 1, 64]);
        opts.alias_limits.max_alias_expansions_per_anchor = *rng.pick(&[0, 1, usize::MAX]);
    }
    if pick == 18 && rng.chance(2, 3) {
        opts.angle_conversions = true;
    }
    if opts.budget.is_none() && bytes.len() > 4000 {
        // without a budget the depth of the input is the caller's business (the statement ties the stack
        // clause to the default budget): keep unbudgeted inputs small
        opts.budget = Some(serde_saphyr::Budget::default());
    }
    // a peer that has sent more than the cap allows and then waits: the cap error is known without another read
    #[allow(deprecated)]
    let cap = opts.budget.as_ref().and_then(|b| b.max_reader_input_bytes);
    let peer_waits = faults.is_empty() && nonsticky.is_none() && matches!(cap, Some(c) if c.saturating_add(8) < bytes.len()) && rng.chance(1, 2);
    Case::C01(TotalCase {
        bytes: Doc(bytes),
        target,
        opts,
        chunking,
        faults: faults.clone(),
        nonsticky_eof_at: nonsticky,
        // (with faults: the reader also blocks when it is polled after a hard error; a fault that lets the stream
        // resume is a retryable condition by construction and is left out)
        blocks_after_eof: nonsticky.is_none()
            && faults.iter().all(|f| f.kind != ErrKind::Interrupted && f.after == After::Sticky)
            && rng.chance(1, 3),
        peer_waits,
        closure_mode: rng.below(4) as u8,
        origin: origin.join("+"),
    })
}

pub fn shrink(c: &TotalCase) -> Vec<Case> {
    let mut out = Vec::new();
    if !c.faults.is_empty() {
        for i in 0..c.faults.len() {
            let mut n = c.clone();
            n.faults.remove(i);
            out.push(Case::C01(n));
        }
    }
    if c.nonsticky_eof_at.is_some() {
        let mut n = c.clone();
        n.nonsticky_eof_at = None;
        out.push(Case::C01(n));
    }
    if c.blocks_after_eof {
        let mut n = c.clone();
        n.blocks_after_eof = false;
        out.push(Case::C01(n));
    }
    if c.peer_waits {
        let mut n = c.clone();
        n.peer_waits = false;
        out.push(Case::C01(n));
    }
    if c.chunking != Chunking::Whole {
        let mut n = c.clone();
        n.chunking = Chunking::Whole;
        out.push(Case::C01(n));
        if c.chunking != Chunking::Fixed(1) {
            let mut n = c.clone();
            n.chunking = Chunking::Fixed(1);
            out.push(Case::C01(n));
        }
    }
    if !c.opts.is_default() {
        let mut n = c.clone();
        n.opts = OptVec::default();
        out.push(Case::C01(n));
    }
    if c.closure_mode != 0 {
        let mut n = c.clone();
        n.closure_mode = 0;
        out.push(Case::C01(n));
    }
    if c.target != T01::Fam(Target::Json) {
        let mut n = c.clone();
        n.target = T01::Fam(Target::Json);
        out.push(Case::C01(n));
    }
    if c.bytes.0.len() <= 4096 {
        for d in crate::prop::c10::shrink_doc_candidates(&c.bytes.0) {
            let mut n = c.clone();
            n.bytes = Doc(d);
            out.push(Case::C01(n));
        }
    } else {
        for (a, b) in [(0, c.bytes.0.len() / 2), (c.bytes.0.len() / 2, c.bytes.0.len())] {
            let mut n = c.clone();
            n.bytes = Doc(c.bytes.0[a..b].to_vec());
            out.push(Case::C01(n));
        }
    }
    out
}
