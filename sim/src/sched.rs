//! Baton scheduler for multi-client simulations: real OS threads (the state under test is
//! thread_local), exactly one runs at a time, hand-over only at intercepted points, the next holder
//! taken from an explicit decision list. On a single thread `yield_point` is a no-op.

use std::cell::RefCell;
use std::sync::{Arc, Condvar, Mutex};

pub struct BatonState {
    pub current: usize,
    pub alive: Vec<bool>,
    pub decisions: Vec<usize>,
    pub pos: usize,
    /// (thread that yielded, thread chosen) for every hand-over point
    pub log: Vec<(usize, usize)>,
    pub handovers: u64,
}

pub struct Baton {
    pub st: Mutex<BatonState>,
    pub cv: Condvar,
}

thread_local! {
    static HOOK: RefCell<Option<(Arc<Baton>, usize)>> = const { RefCell::new(None) };
}

impl Baton {
    pub fn new(n: usize, decisions: Vec<usize>) -> Arc<Baton> {
        Arc::new(Baton {
            st: Mutex::new(BatonState {
                current: 0,
                alive: vec![true; n],
                decisions,
                pos: 0,
                log: Vec::new(),
                handovers: 0,
            }),
            cv: Condvar::new(),
        })
    }

    fn choose(st: &mut BatonState, me: usize) -> usize {
        let alive: Vec<usize> = (0..st.alive.len()).filter(|i| st.alive[*i]).collect();
        if alive.is_empty() {
            return me;
        }
        let next = if st.pos < st.decisions.len() {
            let d = st.decisions[st.pos];
            st.pos += 1;
            alive[d % alive.len()]
        } else if st.alive[me] {
            me
        } else {
            alive[0]
        };
        st.log.push((me, next));
        if next != me {
            st.handovers += 1;
        }
        next
    }

    /// Block until this thread holds the baton for the first time.
    pub fn enter(self: &Arc<Self>, me: usize) {
        HOOK.with(|h| *h.borrow_mut() = Some((self.clone(), me)));
        let mut st = self.st.lock().unwrap();
        while st.current != me {
            st = self.cv.wait(st).unwrap();
        }
    }

    pub fn yield_now(&self, me: usize) {
        let mut st = self.st.lock().unwrap();
        let next = Self::choose(&mut st, me);
        st.current = next;
        if next != me {
            self.cv.notify_all();
            while st.current != me {
                st = self.cv.wait(st).unwrap();
            }
        }
    }

    /// This thread is done; pass the baton on.
    pub fn leave(&self, me: usize) {
        HOOK.with(|h| *h.borrow_mut() = None);
        let mut st = self.st.lock().unwrap();
        st.alive[me] = false;
        let next = Self::choose(&mut st, me);
        st.current = next;
        self.cv.notify_all();
    }
}

/// Called by SimReader::read, SimWriter::write, Probe callbacks and between calls of a history.
pub fn yield_point() {
    // `try_with`: a probe may make a call from a thread-local destructor, after HOOK is gone
    let hook = HOOK.try_with(|h| h.borrow().clone()).ok().flatten();
    if let Some((b, me)) = hook {
        b.yield_now(me);
    }
}
