//! Shared experiment primitives: guarded library calls through every entry point, canonical
//! outcomes, and the always-on render monitor.

use crate::io::{ReaderScript, SimMarker, SimReader};
use serde::de::DeserializeOwned;
use serde::{Deserialize, Serialize};
use serde_saphyr::{Error, Options};
use std::cell::RefCell;
use std::fmt::Debug;
use std::panic::{AssertUnwindSafe, catch_unwind};

thread_local! {
    static LAST_PANIC: RefCell<Option<String>> = const { RefCell::new(None) };
}

/// Install a silent panic hook that remembers message and location per thread.
pub fn install_panic_hook() {
    std::panic::set_hook(Box::new(|info| {
        let loc = info
            .location()
            .map(|l| format!("{}:{}", l.file(), l.line()))
            .unwrap_or_default();
        let msg = if let Some(s) = info.payload().downcast_ref::<&str>() {
            (*s).to_string()
        } else if let Some(s) = info.payload().downcast_ref::<String>() {
            s.clone()
        } else if let Some(m) = info.payload().downcast_ref::<SimMarker>() {
            format!("{m:?}")
        } else {
            "<non-string payload>".to_string()
        };
        let _ = LAST_PANIC.try_with(|p| *p.borrow_mut() = Some(format!("{msg} @ {loc}")));
    }));
}

#[derive(Clone, Debug, PartialEq, Eq)]
pub enum Abnormal {
    /// the library (or a dependency, or std) panicked
    Panic(String),
    /// a deterministic liveness budget of the simulator was exceeded
    Liveness(String),
    /// a Probe panicked on purpose (expected, propagates through the library)
    ProbePanic,
}

/// Run `f` and classify any unwind.
pub fn guard<R>(f: impl FnOnce() -> R) -> Result<R, Abnormal> {
    match catch_unwind(AssertUnwindSafe(f)) {
        Ok(r) => Ok(r),
        Err(payload) => {
            let txt = LAST_PANIC.try_with(|p| p.borrow_mut().take()).ok().flatten().unwrap_or_default();
            if let Some(m) = payload.downcast_ref::<SimMarker>() {
                match m {
                    SimMarker::Liveness(s) => Err(Abnormal::Liveness(s.clone())),
                    SimMarker::ProbePanic => Err(Abnormal::ProbePanic),
                }
            } else if txt.contains("serde_saphyr_verif liveness") {
                Err(Abnormal::Liveness(txt))
            } else {
                Err(Abnormal::Panic(txt))
            }
        }
    }
}

#[derive(Clone, Debug, Serialize, Deserialize, PartialEq, Eq)]
pub struct ErrInfo {
    pub kind: String,
    pub line: u64,
    pub col: u64,
    /// io::ErrorKind name when kind == IOError
    pub io: Option<String>,
    pub snippet: bool,
}

#[derive(Clone, Debug, Serialize, Deserialize, PartialEq, Eq)]
pub enum Outcome {
    Ok(String),
    Err(ErrInfo),
    Panic(String),
    Liveness(String),
    ProbePanic,
}

impl Outcome {
    pub fn is_ok(&self) -> bool {
        matches!(self, Outcome::Ok(_))
    }
    pub fn is_err(&self) -> bool {
        matches!(self, Outcome::Err(_))
    }
    pub fn class(&self) -> String {
        match self {
            Outcome::Ok(_) => "ok".into(),
            Outcome::Err(e) => format!("err:{}", e.kind),
            Outcome::Panic(_) => "PANIC".into(),
            Outcome::Liveness(_) => "LIVENESS".into(),
            Outcome::ProbePanic => "probe-panic".into(),
        }
    }
    /// comparison key for C09-style agreement: value, or (kind, line, col)
    pub fn agree_key(&self) -> String {
        match self {
            Outcome::Ok(v) => format!("ok:{v}"),
            Outcome::Err(e) => format!("err:{}@{}:{}", e.kind, e.line, e.col),
            other => format!("{other:?}"),
        }
    }
    pub fn short(&self) -> String {
        let s = self.agree_key();
        if s.len() > 200 {
            let mut end = 200;
            while !s.is_char_boundary(end) {
                end -= 1;
            }
            format!("{}…", &s[..end])
        } else {
            s
        }
    }
}

pub fn variant_name(e: &Error) -> String {
    let dbg = format!("{:?}", e.without_snippet());
    dbg.chars()
        .take_while(|c| c.is_ascii_alphanumeric() || *c == '_')
        .collect()
}

/// like `err_info` but keeps the location of validation errors (C15 examines its stability)
pub fn err_info_raw(e: &Error) -> ErrInfo {
    let mut i = err_info(e);
    if let Some(l) = e.location() {
        i.line = l.line();
        i.col = l.column();
    }
    i
}

pub fn err_info(e: &Error) -> ErrInfo {
    let inner = e.without_snippet();
    let (line, col) = e
        .location()
        .map(|l| (l.line(), l.column()))
        .unwrap_or((0, 0));
    let io = match inner {
        Error::IOError { cause } => Some(format!("{:?}", cause.kind())),
        _ => None,
    };
    let kind = variant_name(e);
    // The location of a validation error with several failing fields is the location of whichever
    // field the validator's HashMap yields first: it varies from call to call (examined by C15 only).
    let (line, col) = if kind.starts_with("Validat") { (0, 0) } else { (line, col) };
    ErrInfo {
        kind,
        line,
        col,
        io,
        snippet: matches!(e, Error::WithSnippet { .. }),
    }
}

pub fn canon<T: Debug>(r: Result<Result<T, Error>, Abnormal>, renders: &mut Vec<Rendered>) -> Outcome {
    match r {
        Ok(Ok(v)) => Outcome::Ok(format!("{v:?}")),
        Ok(Err(e)) => {
            let info = err_info(&e);
            renders.push(render_all(&e));
            Outcome::Err(info)
        }
        Err(Abnormal::Panic(s)) => Outcome::Panic(s),
        Err(Abnormal::Liveness(s)) => Outcome::Liveness(s),
        Err(Abnormal::ProbePanic) => Outcome::ProbePanic,
    }
}

// ------------------------------------------------------------------------------------------------
// Render monitor

struct ShoutLocalizer;
impl serde_saphyr::Localizer for ShoutLocalizer {
    fn attach_location<'a>(
        &self,
        base: std::borrow::Cow<'a, str>,
        loc: serde_saphyr::Location,
    ) -> std::borrow::Cow<'a, str> {
        if loc == serde_saphyr::Location::UNKNOWN {
            base
        } else {
            std::borrow::Cow::Owned(format!("{base} [L{} C{}]", loc.line(), loc.column()))
        }
    }
}
struct CustomFormatter;
impl serde_saphyr::MessageFormatter for CustomFormatter {
    fn localizer(&self) -> &dyn serde_saphyr::Localizer {
        &ShoutLocalizer
    }
    fn format_message<'a>(&self, err: &'a Error) -> std::borrow::Cow<'a, str> {
        match err {
            Error::Eof { .. } => std::borrow::Cow::Borrowed("custom: eof"),
            _ => serde_saphyr::UserMessageFormatter.format_message(err),
        }
    }
}

/// A formatter that words every error itself (nothing of the built-in wording, no location suffix)
/// and ends each message with a fixed non-ASCII tail.
pub const CUSTOM_TAIL: &str = "«конец-日本語-é»";
struct OwnWordsFormatter;
impl serde_saphyr::MessageFormatter for OwnWordsFormatter {
    fn localizer(&self) -> &dyn serde_saphyr::Localizer {
        &ShoutLocalizer
    }
    fn format_message<'a>(&self, err: &'a Error) -> std::borrow::Cow<'a, str> {
        std::borrow::Cow::Owned(format!("problème n° {} {CUSTOM_TAIL}", variant_name(err).len()))
    }
}

#[derive(Clone, Debug, Default)]
pub struct Rendered {
    /// (renderer name, text) — or the panic text when rendering unwound
    pub texts: Vec<(&'static str, String)>,
    pub panics: Vec<(&'static str, String)>,
}

thread_local! {
    /// source text handed to the miette adapter by `render_all` (None: the adapter is not exercised)
    static RENDER_SOURCE: std::cell::RefCell<Option<String>> = const { std::cell::RefCell::new(None) };
}

pub fn set_render_source(s: Option<String>) {
    RENDER_SOURCE.with(|r| *r.borrow_mut() = s);
}

/// Render an error with every renderer; totality is monitored here.
pub fn render_all(e: &Error) -> Rendered {
    let mut out = Rendered::default();
    let mut one = |name: &'static str, f: &dyn Fn() -> String| match guard(f) {
        Ok(s) => out.texts.push((name, s)),
        Err(a) => out.panics.push((name, format!("{a:?}"))),
    };
    one("display", &|| e.to_string());
    one("debug", &|| format!("{e:?}"));
    one("developer", &|| {
        e.render_with_formatter(&serde_saphyr::DefaultMessageFormatter)
    });
    one("user", &|| e.render_with_formatter(&serde_saphyr::UserMessageFormatter));
    one("default", &|| {
        e.render_with_formatter(&serde_saphyr::DefaultMessageFormatter)
    });
    one("custom", &|| e.render_with_formatter(&CustomFormatter));
    one("custom_tail", &|| e.render_with_formatter(&OwnWordsFormatter));
    one("snippet_off", &|| {
        let dev = serde_saphyr::DefaultMessageFormatter;
        e.render_with_options(serde_saphyr::render_options! {
            formatter: &dev,
            snippets: serde_saphyr::SnippetMode::Off,
        })
    });
    if let Some(src) = RENDER_SOURCE.with(|r| r.borrow().clone()) {
        match render_miette(e, &src) {
            Ok(t) => out.texts.push(("miette_adapter", t)),
            Err(p) => out.panics.push(("miette_adapter", p)),
        }
    }
    out
}

/// Render through the miette adapter (needs the source text).
pub fn render_miette(e: &Error, source: &str) -> Result<String, String> {
    guard(|| {
        let report = serde_saphyr::miette::to_miette_report(e, source, "input.yaml");
        let mut s = String::new();
        let handler = miette::GraphicalReportHandler::new_themed(miette::GraphicalTheme::none());
        let _ = handler.render_report(&mut s, report.as_ref());
        let _ = format!("{report:?}");
        s
    })
    .map_err(|a| format!("{a:?}"))
}

// ------------------------------------------------------------------------------------------------
// Entry points

#[derive(Clone, Copy, Debug, Serialize, Deserialize, PartialEq, Eq, PartialOrd, Ord)]
pub enum Entry {
    FromStr,
    FromSlice,
    WdStr,
    WdSlice,
    FromReader,
    WdReader,
}

pub const MEM_ENTRIES: [Entry; 4] = [Entry::FromStr, Entry::FromSlice, Entry::WdStr, Entry::WdSlice];
pub const READER_ENTRIES: [Entry; 2] = [Entry::FromReader, Entry::WdReader];

impl Entry {
    pub fn is_reader(self) -> bool {
        matches!(self, Entry::FromReader | Entry::WdReader)
    }
}

pub struct Call {
    pub outcome: Outcome,
    pub reader: Option<SimReader>,
    pub renders: Vec<Rendered>,
}

/// One single-document call through `entry`.
pub fn single<T: DeserializeOwned + Debug>(
    entry: Entry,
    bytes: &[u8],
    opts: &Options,
    script: &ReaderScript,
) -> Call {
    let mut renders = Vec::new();
    let mut reader = None;
    let r: Result<Result<T, Error>, Abnormal> = match entry {
        Entry::FromStr => match std::str::from_utf8(bytes) {
            Ok(s) => guard(|| serde_saphyr::from_str_with_options::<T>(s, opts.clone())),
            Err(_) => guard(|| serde_saphyr::from_slice_with_options::<T>(bytes, opts.clone())),
        },
        Entry::FromSlice => guard(|| serde_saphyr::from_slice_with_options::<T>(bytes, opts.clone())),
        Entry::WdStr => match std::str::from_utf8(bytes) {
            Ok(s) => guard(|| {
                serde_saphyr::with_deserializer_from_str_with_options(s, opts.clone(), |de| T::deserialize(de))
            }),
            Err(_) => guard(|| {
                serde_saphyr::with_deserializer_from_slice_with_options(bytes, opts.clone(), |de| {
                    T::deserialize(de)
                })
            }),
        },
        Entry::WdSlice => guard(|| {
            serde_saphyr::with_deserializer_from_slice_with_options(bytes, opts.clone(), |de| T::deserialize(de))
        }),
        Entry::FromReader => {
            let rd = SimReader::new(bytes, script.clone());
            reader = Some(rd.clone());
            guard(|| serde_saphyr::from_reader_with_options::<_, T>(rd, opts.clone()))
        }
        Entry::WdReader => {
            let rd = SimReader::new(bytes, script.clone());
            reader = Some(rd.clone());
            guard(|| {
                serde_saphyr::with_deserializer_from_reader_with_options(rd, opts.clone(), |de| {
                    T::deserialize(de)
                })
            })
        }
    };
    let outcome = canon(r, &mut renders);
    Call {
        outcome,
        reader,
        renders,
    }
}

pub struct StreamCall {
    pub items: Vec<Outcome>,
    /// iterator returned None within the allowed number of calls
    pub terminated: bool,
    /// a further call after None returned None again
    pub none_is_sticky: bool,
    pub abnormal: Option<Outcome>,
    pub reader: SimReader,
    pub renders: Vec<Rendered>,
    pub next_calls: u64,
}

/// Drive `read_with_options` to exhaustion (at most `max_calls` calls of `next`).
pub fn stream<T: DeserializeOwned + Debug>(
    bytes: &[u8],
    opts: &Options,
    script: &ReaderScript,
    max_calls: usize,
    use_plain_read: bool,
) -> StreamCall {
    let mut rd = SimReader::new(bytes, script.clone());
    let handle = rd.clone();
    let mut renders = Vec::new();
    let mut items = Vec::new();
    let mut terminated = false;
    let mut none_is_sticky = true;
    let mut next_calls = 0u64;
    let res = guard(|| {
        let mut it: Box<dyn Iterator<Item = Result<T, Error>>> = if use_plain_read {
            serde_saphyr::read::<_, T>(&mut rd)
        } else {
            Box::new(serde_saphyr::read_with_options::<_, T>(&mut rd, opts.clone()))
        };
        for _ in 0..max_calls {
            next_calls += 1;
            match it.next() {
                Some(r) => items.push(canon(Ok(r), &mut renders)),
                None => {
                    terminated = true;
                    next_calls += 1;
                    if it.next().is_some() {
                        none_is_sticky = false;
                    }
                    break;
                }
            }
        }
    });
    let abnormal = match res {
        Ok(()) => None,
        Err(Abnormal::Panic(s)) => Some(Outcome::Panic(s)),
        Err(Abnormal::Liveness(s)) => Some(Outcome::Liveness(s)),
        Err(Abnormal::ProbePanic) => Some(Outcome::ProbePanic),
    };
    StreamCall {
        items,
        terminated,
        none_is_sticky,
        abnormal,
        reader: handle,
        renders,
        next_calls,
    }
}

/// `from_multiple_with_options` as a guarded call.
pub fn batch<T: DeserializeOwned + Debug>(bytes: &[u8], opts: &Options, slice: bool) -> Call {
    let mut renders = Vec::new();
    let r: Result<Result<Vec<T>, Error>, Abnormal> = match (slice, std::str::from_utf8(bytes)) {
        (false, Ok(s)) => guard(|| serde_saphyr::from_multiple_with_options::<T>(s, opts.clone())),
        _ => guard(|| serde_saphyr::from_slice_multiple_with_options::<T>(bytes, opts.clone())),
    };
    let outcome = match r {
        Ok(Ok(v)) => Outcome::Ok(
            v.iter()
                .map(|x| format!("{x:?}"))
                .collect::<Vec<_>>()
                .join("\u{1f}"),
        ),
        other => canon(other.map(|r| r.map(|_| ())), &mut renders),
    };
    Call {
        outcome,
        reader: None,
        renders,
    }
}

pub fn opts_default() -> Options {
    Options::default()
}

// ------------------------------------------------------------------------------------------------
// Options vector (plain data, Send; `Options` itself holds an Rc callback)

#[derive(Clone, Debug, Serialize, Deserialize)]
pub struct OptVec {
    pub budget: Option<serde_saphyr::Budget>,
    /// 0 = Error, 1 = FirstWins, 2 = LastWins
    pub dup: u8,
    pub alias_limits: serde_saphyr::options::AliasLimits,
    pub legacy_octal_numbers: bool,
    pub strict_booleans: bool,
    pub ignore_binary_tag_for_string: bool,
    pub no_schema: bool,
    pub with_snippet: bool,
    pub crop_radius: usize,
    /// `robotics` feature: deg(..) / rad(..) and arithmetic in numeric scalars
    #[serde(default)]
    pub angle_conversions: bool,
}

impl Default for OptVec {
    fn default() -> Self {
        OptVec {
            budget: Some(serde_saphyr::Budget::default()),
            dup: 0,
            alias_limits: Default::default(),
            legacy_octal_numbers: false,
            strict_booleans: false,
            ignore_binary_tag_for_string: false,
            no_schema: false,
            with_snippet: true,
            crop_radius: 64,
            angle_conversions: false,
        }
    }
}

impl OptVec {
    #[allow(deprecated)]
    pub fn to_options(&self) -> Options {
        let mut o = Options::default();
        o.budget = self.budget.clone();
        o.duplicate_keys = match self.dup {
            0 => serde_saphyr::DuplicateKeyPolicy::Error,
            1 => serde_saphyr::DuplicateKeyPolicy::FirstWins,
            _ => serde_saphyr::DuplicateKeyPolicy::LastWins,
        };
        o.alias_limits = self.alias_limits;
        o.legacy_octal_numbers = self.legacy_octal_numbers;
        o.strict_booleans = self.strict_booleans;
        o.ignore_binary_tag_for_string = self.ignore_binary_tag_for_string;
        o.no_schema = self.no_schema;
        o.with_snippet = self.with_snippet;
        o.crop_radius = self.crop_radius;
        o.angle_conversions = self.angle_conversions;
        o
    }
    pub fn is_default(&self) -> bool {
        serde_json::to_string(self).ok() == serde_json::to_string(&OptVec::default()).ok()
    }
    /// swarmed option vector
    pub fn random(rng: &mut crate::rng::Rng) -> OptVec {
        let mut o = OptVec::default();
        if rng.chance(1, 3) {
            o.dup = rng.range(1, 2) as u8;
        }
        o.strict_booleans = rng.chance(1, 6);
        o.no_schema = rng.chance(1, 8);
        o.legacy_octal_numbers = rng.chance(1, 8);
        o.ignore_binary_tag_for_string = rng.chance(1, 8);
        if rng.chance(1, 6) {
            o.with_snippet = false;
        }
        if rng.chance(1, 4) {
            o.crop_radius = *rng.pick(&[0, 1, 5, 10_000, usize::MAX, usize::MAX - 1, usize::MAX / 2 + 1]);
        }
        if rng.chance(1, 10) {
            o.budget = None;
        }
        o.angle_conversions = rng.chance(1, 6);
        o
    }
    /// Make one budget counter (or alias limit) tight enough that small documents reach it. Which
    /// events are charged and where the breach is reported then becomes observable.
    pub fn tighten(&mut self, rng: &mut crate::rng::Rng) {
        let mut b = self.budget.clone().unwrap_or_default();
        match rng.below(11) {
            0 | 1 | 2 => b.max_events = rng.below(24),
            3 => b.max_documents = rng.below(3),
            4 => b.max_nodes = rng.below(16),
            5 => b.max_depth = rng.below(5),
            6 => b.max_anchors = rng.below(3),
            7 => b.max_aliases = rng.below(4),
            8 => b.max_total_scalar_bytes = rng.below(40),
            9 => b.max_merge_keys = rng.below(2),
            _ => {
                self.alias_limits.max_total_replayed_events = rng.below(12);
                if rng.chance(1, 2) {
                    self.alias_limits.max_alias_expansions_per_anchor = rng.below(3);
                }
            }
        }
        self.budget = Some(b);
    }
}
