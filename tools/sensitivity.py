#!/usr/bin/env python3
"""Sensitivity driver: apply one deliberate property-breaking edit at a time to /repo's working tree,
run the property's check, expect exit 1 with a VIOLATION line, revert. Edits are textual replacements
listed in /verif/sensitivity/mutants.json (own edits) or patch files under /verif/seeded/<id>/patch.diff
(edits written by independent sub-agents). /repo is always restored with `git checkout -- .`.

usage: sensitivity.py [--sandbox DIR] [--tier quick|thorough] [--only NAME[,NAME..]] [--seeded]
(--sandbox works on private copies of /repo and /verif under DIR, leaving /repo untouched)
"""
import json, subprocess, sys, os, time, glob

REPO = "/repo"
VERIF = "/verif"


def use_sandbox(d):
    """Work on private copies of /repo and /verif under `d` (so that /repo itself is never touched and
    other runs against /repo are not disturbed). The copy of the simulator depends on the copy of the repo."""
    global REPO, VERIF
    os.makedirs(d, exist_ok=True)
    sh(f"rsync -a --delete --exclude target /repo/ {d}/repo/")
    # the COMMITTED state of /verif (a half-edited working tree must not be what the mutants are run against)
    sh(f"rm -rf {d}/verif_export && mkdir -p {d}/verif_export && git -C /verif archive HEAD | tar -x -C {d}/verif_export")
    sh(f"rsync -a --delete --exclude sim/target --exclude run --exclude replays {d}/verif_export/ {d}/verif/")
    cargo = open(f"{d}/verif/sim/Cargo.toml").read().replace('path = "/repo"', f'path = "{d}/repo"')
    open(f"{d}/verif/sim/Cargo.toml", "w").write(cargo)
    REPO = f"{d}/repo"
    VERIF = f"{d}/verif"


def sh(cmd, **kw):
    return subprocess.run(cmd, shell=True, capture_output=True, text=True, **kw)


def clean():
    r = sh(f"git -C {REPO} status --porcelain")
    return r.stdout.strip() == ""


def revert():
    sh(f"git -C {REPO} checkout -- .")
    # files created by a patch
    sh(f"git -C {REPO} clean -fdq -- src")


def run_check(prop, tier):
    t0 = time.time()
    r = sh(f"cd {VERIF} && ./check {prop} {tier}")
    viol = [l for l in r.stdout.splitlines() if l.startswith("VIOLATION")]
    clauses = [l.strip() for l in r.stdout.splitlines() if l.strip().startswith("clause:")]
    return r.returncode, viol, clauses, time.time() - t0, r.stdout[-1500:] + r.stderr[-1500:]


def main():
    tier = "quick"
    only = None
    seeded = False
    args = sys.argv[1:]
    while args:
        a = args.pop(0)
        if a == "--tier":
            tier = args.pop(0)
        elif a == "--only":
            only = set(args.pop(0).split(","))
        elif a == "--seeded":
            seeded = True
        elif a == "--sandbox":
            use_sandbox(args.pop(0))
    if not clean():
        print("refusing to run: /repo has uncommitted changes")
        return 2
    results = []
    if seeded:
        items = []
        for meta in sorted(glob.glob("/verif/seeded/*/meta.json")):
            m = json.load(open(meta))
            items.append({"name": os.path.basename(os.path.dirname(meta)), "property": m["property"], "patch": os.path.join(os.path.dirname(meta), "patch.diff"), "also": m.get("also_checked_by", [])})
    else:
        items = json.load(open("/verif/sensitivity/mutants.json"))
    for it in items:
        name = it["name"]
        if only and name not in only:
            continue
        try:
            if "patch" in it:
                r = sh(f"git -C {REPO} apply {it['patch']}")
                if r.returncode != 0:
                    print(f"{name}: PATCH DOES NOT APPLY: {r.stderr.strip()[:200]}")
                    results.append((name, it["property"], "patch-failed", [], 0))
                    revert()
                    continue
            else:
                path = os.path.join(REPO, it["file"])
                s = open(path).read()
                cnt = s.count(it["old"])
                want = it.get("count", 1)
                if cnt != want:
                    print(f"{name}: expected {want} occurrence(s) of the old text in {it['file']}, found {cnt}")
                    results.append((name, it["property"], "edit-failed", [], 0))
                    continue
                s = s.replace(it["old"], it["new"])
                open(path, "w").write(s)
            props = [it["property"]] + it.get("also", [])
            for prop in props:
                code, viol, clauses, dt, tail = run_check(prop, it.get("tier", tier))
                status = {0: "MISSED", 1: "CAUGHT", 2: "HARNESS-ERROR"}.get(code, f"exit {code}")
                print(f"{name:34s} {prop} {it.get('tier', tier):8s} {status:14s} {dt:6.1f}s  {sorted(set(clauses))[:4]}")
                if code == 2:
                    print("   " + tail.replace("\n", "\n   ")[-800:])
                results.append((name, prop, status, sorted(set(clauses)), dt))
        finally:
            revert()
    out = f"/verif/sensitivity/results-{'seeded' if seeded else 'own'}-{tier}.json"
    # merge into the existing table (a partial run with --only must not drop the other rows)
    table = {}
    if os.path.exists(out):
        try:
            for r in json.load(open(out)):
                table[(r["name"], r["property"])] = r
        except Exception:
            table = {}
    for n, p, s, c, d in results:
        table[(n, p)] = {"name": n, "property": p, "status": s, "clauses": c, "seconds": round(d, 1)}
    json.dump([table[k] for k in sorted(table)], open(out, "w"), indent=1)
    # the unchanged tree must be quiet again
    assert clean(), "repo not clean after the run"
    return 0


if __name__ == "__main__":
    sys.exit(main())
