#!/bin/sh
# Confirm a sub-agent mutant independently in its scratch worktree:
#   confirm_seeded.sh <worktree> <mutant dir> [features]
# (1) demo passes on the unmodified worktree, (2) fails with the patch, (3) the pinned suite passes with the patch.
WT="$1"; M="$2"; FEAT="$3"
export CARGO_TARGET_DIR="$WT/target" CARGO_NET_OFFLINE=true
cd "$WT" || exit 2
git checkout -q -- . ; rm -f tests/demo_test.rs
F=""; [ -n "$FEAT" ] && F="--features $FEAT"
cp "$M/demo/demo_test.rs" tests/demo_test.rs
if cargo test --offline $F --test demo_test >"$M/confirm_clean.log" 2>&1; then echo "clean: demo PASSES"; else echo "clean: demo FAILS (bad demo)"; fi
if ! git apply "$M/patch.diff"; then echo "patch does not apply"; git checkout -q -- .; rm -f tests/demo_test.rs; exit 1; fi
if cargo test --offline $F --test demo_test >"$M/confirm_patched.log" 2>&1; then echo "patched: demo PASSES (mutant not demonstrated)"; else echo "patched: demo FAILS as expected"; fi
rm -f tests/demo_test.rs
cargo nextest run --workspace --no-fail-fast --tool-config-file pb:/w/lib/nextest.toml --profile pb --test-threads 8 --offline >"$M/confirm_suite.log" 2>&1
grep -E "Summary|tests run" "$M/confirm_suite.log" | tail -1
git checkout -q -- . ; rm -f tests/demo_test.rs
git status --short | grep -v "^?? mutants/" | head -3
