//! C15 demo: the result of a nested `from_str` / `with_deserializer_from_str` call depends on
//! whether the *enclosing* document has a recursive anchor (`RcRecursive` / `ArcRecursive`) in
//! progress.
//!
//! Cause: every entry point runs only `T::deserialize(..)` inside `with_document_scope`; the
//! trailing probe (`src.peek()` that looks for a second document / trailing garbage) runs *after*
//! the scope has been left, i.e. with the enclosing document's thread-local anchor state put
//! back. The event pump (`LiveEvents::next_impl`, `Event::Alias` arm) consults that thread-local
//! state (`anchor_store::recursive_anchor_in_progress(anchor_id)`) to decide between "emit a null
//! placeholder" and "Err(RecursiveReferencesRequireWeakTypes)". Anchor ids are small dense
//! integers that start at 1 in every parse, so the nested document's `&a` (id 1) is confused with
//! the enclosing document's `&x` (id 1).

use serde::de::{Deserialize, Deserializer, MapAccess, Visitor};
use serde_saphyr::{ArcRecursive, RcRecursive};
use std::fmt;

/// "Lenient" field wrapper, a common hand-written pattern: a value that does not parse becomes
/// `None` instead of failing the whole document.
#[derive(Debug)]
struct Lenient<T>(#[allow(dead_code)] Option<T>);
impl<'de, T: Deserialize<'de>> Deserialize<'de> for Lenient<T> {
    fn deserialize<D: Deserializer<'de>>(d: D) -> Result<Self, D::Error> {
        Ok(Lenient(T::deserialize(d).ok()))
    }
}

/// Reads the first key of a mapping and stops (a "which kind of document is this?" probe).
#[derive(Debug)]
struct FirstKey(#[allow(dead_code)] String);
impl<'de> Deserialize<'de> for FirstKey {
    fn deserialize<D: Deserializer<'de>>(d: D) -> Result<Self, D::Error> {
        struct V;
        impl<'de> Visitor<'de> for V {
            type Value = FirstKey;
            fn expecting(&self, f: &mut fmt::Formatter) -> fmt::Result {
                f.write_str("a mapping")
            }
            fn visit_map<A: MapAccess<'de>>(self, mut a: A) -> Result<FirstKey, A::Error> {
                let k: Option<String> = a.next_key()?;
                Ok(FirstKey(k.unwrap_or_default()))
            }
        }
        d.deserialize_map(V)
    }
}

/// First line of the error text (kind + position), or the debug form of the value.
fn describe<T: fmt::Debug>(r: Result<T, serde_saphyr::Error>) -> String {
    match r {
        Ok(v) => format!("Ok({v:?})"),
        Err(e) => format!("Err({})", e.to_string().lines().next().unwrap_or("")),
    }
}

// ---- the calls under test: fixed arguments, no captured state -------------------------------

const SEQ_DOC: &str = "&a [x, *a]";
const MAP_DOC: &str = "&a {k: *a}";

fn call_lenient() -> String {
    describe(serde_saphyr::from_str::<Lenient<Vec<i32>>>(SEQ_DOC))
}
fn call_first_key() -> String {
    describe(serde_saphyr::from_str::<FirstKey>(MAP_DOC))
}
fn call_with_deserializer() -> String {
    describe(serde_saphyr::with_deserializer_from_str(MAP_DOC, |de| {
        FirstKey::deserialize(de)
    }))
}

/// The streaming iterator: every `next()` probes for the next document outside any document scope.
fn call_read_iterator() -> String {
    let mut reader = std::io::Cursor::new(&b"&a {k: *a}\n---\nz: 1\n"[..]);
    let items: Vec<String> = serde_saphyr::read::<_, FirstKey>(&mut reader)
        .take(8) // bounded: a desynchronised stream must not hang the test
        .map(describe)
        .collect();
    format!("{items:?}")
}

fn all_calls() -> Vec<String> {
    vec![
        call_lenient(),
        call_first_key(),
        call_with_deserializer(),
        call_read_iterator(),
    ]
}

// ---- an enclosing document whose field runs the calls from inside `Deserialize` -------------

/// A field that, while it is being deserialized, performs the calls under test and keeps their
/// results (think: YAML embedded in a string field of an outer YAML document).
#[derive(Debug)]
struct Nested(Vec<String>);
impl<'de> Deserialize<'de> for Nested {
    fn deserialize<D: Deserializer<'de>>(d: D) -> Result<Self, D::Error> {
        let _ = serde::de::IgnoredAny::deserialize(d)?;
        Ok(Nested(all_calls()))
    }
}

#[derive(Debug, serde::Deserialize)]
struct Node {
    p: Nested,
}
#[derive(Debug, serde::Deserialize)]
struct PlainOuter {
    n: Node,
}
#[derive(Debug, serde::Deserialize)]
struct RcOuter {
    n: RcRecursive<Node>,
}
#[derive(Debug, serde::Deserialize)]
struct ArcOuter {
    n: ArcRecursive<Node>,
}

const OUTER_DOC: &str = "n: &x\n  p: 1\n";

fn fresh() -> Vec<String> {
    std::thread::spawn(all_calls).join().unwrap()
}

#[test]
fn control_nested_in_plain_document_equals_fresh_thread() {
    let expected = fresh();
    let outer: PlainOuter = serde_saphyr::from_str(OUTER_DOC).unwrap();
    assert_eq!(outer.n.p.0, expected);
}

#[test]
fn nested_in_rc_recursive_node_equals_fresh_thread() {
    let expected = fresh();
    let outer: RcOuter = serde_saphyr::from_str(OUTER_DOC).unwrap();
    let actual = outer.n.borrow().p.0.clone();
    assert_eq!(
        actual, expected,
        "\nresults of [from_str::<Lenient<Vec<i32>>>({SEQ_DOC:?}), from_str::<FirstKey>({MAP_DOC:?}), \
         with_deserializer_from_str({MAP_DOC:?}, FirstKey), read::<_, FirstKey>(..).collect()]\n nested in an RcRecursive node (left) \
         differ from the same calls on a fresh thread (right)"
    );
}

#[test]
fn nested_in_arc_recursive_node_equals_fresh_thread() {
    let expected = fresh();
    let outer: ArcOuter = serde_saphyr::from_str(OUTER_DOC).unwrap();
    let actual = outer.n.lock().unwrap().as_ref().unwrap().p.0.clone();
    assert_eq!(
        actual, expected,
        "\nnested in an ArcRecursive node (left) vs fresh thread (right)"
    );
}
