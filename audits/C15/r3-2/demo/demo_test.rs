//! C15 demo: the `Err` value returned by the validating entry points carries the recorded
//! path -> location table in a `std::collections::HashMap`, and `Error`'s (derived) `Debug`
//! prints it in hash order. The seed changes with every call, so the same call returns an error
//! that prints differently on a fresh thread, as the second call on a thread, ...
//! (`Result::unwrap` / `expect` / `{:?}` / `dbg!` all show it).
//!
//! Run: cargo test --offline --features garde --test demo_test
#![cfg(feature = "garde")]
use garde::Validate;
use serde::Deserialize;

#[derive(Debug, Deserialize, Validate)]
#[allow(dead_code)]
struct Config {
    #[garde(length(min = 3))]
    name: String,
    #[garde(skip)]
    a: i32,
    #[garde(skip)]
    b: i32,
    #[garde(skip)]
    c: i32,
    #[garde(skip)]
    d: i32,
    #[garde(skip)]
    e: i32,
    #[garde(skip)]
    f: i32,
    #[garde(skip)]
    g: i32,
}

const YAML: &str = "name: x\na: 1\nb: 2\nc: 3\nd: 4\ne: 5\nf: 6\ng: 7\n";

fn call() -> (String, String) {
    let res = serde_saphyr::from_str_valid::<Config>(YAML);
    let display = match &res {
        Ok(_) => "Ok".to_string(),
        Err(e) => e.to_string(),
    };
    (display, format!("{res:?}"))
}

#[test]
fn the_returned_error_is_the_same_on_every_call() {
    // Reference: the call as the first call on a fresh thread.
    let (fresh_display, fresh_debug) = std::thread::spawn(call).join().unwrap();
    assert!(fresh_debug.starts_with("Err("), "the call fails validation: {fresh_debug}");

    for nth in 1..=6 {
        let (display, debug) = call();
        // (Display is stable; only shown here to make clear the calls are identical.)
        assert_eq!(display, fresh_display, "call #{nth}: Display differs");
        assert_eq!(
            debug, fresh_debug,
            "call #{nth} on this thread returned a result that prints (Debug) differently from \
             the same call on a fresh thread\n  expected: {fresh_debug}\n  actual:   {debug}"
        );
    }
}
