//! C15 finding 2: the anchor table is a thread-local *with a destructor*; the first deserialization
//! call on a thread registers it. A call made later, during thread teardown (from the destructor
//! of a thread-local that was initialised before that first call), finds the table destroyed and
//! panics in `STATE.with(..)`; the very same call made on a thread that has not used the crate
//! before returns `Ok`. The call under test uses no anchors at all.
//!
//! Run: cargo test --offline --test demo_test

use std::cell::RefCell;
use std::sync::mpsc;

fn panic_text(p: Box<dyn std::any::Any + Send>) -> String {
    p.downcast_ref::<String>()
        .cloned()
        .or_else(|| p.downcast_ref::<&str>().map(|s| s.to_string()))
        .unwrap_or_else(|| "<non-string panic>".to_string())
}

/// The call under test.
fn probe() -> String {
    match std::panic::catch_unwind(|| serde_saphyr::from_str::<Vec<i32>>("[1, 2]")) {
        Ok(Ok(v)) => format!("Ok({v:?})"),
        Ok(Err(e)) => format!("Err({e})"),
        Err(p) => format!("PANIC({})", panic_text(p)),
    }
}

/// Runs `probe()` when the thread goes away (think: a per-thread cache that re-reads / validates
/// a YAML snippet when it is flushed) and reports what it returned.
struct AtExit(mpsc::Sender<String>);
impl Drop for AtExit {
    fn drop(&mut self) {
        let _ = self.0.send(probe());
    }
}

thread_local! {
    static EXIT: RefCell<Option<AtExit>> = const { RefCell::new(None) };
}

/// Spawn a thread, arm the exit hook, run `earlier` (the "sequence of other calls"), let the thread
/// end, return what the probe returned in the hook.
fn probe_at_thread_exit_after(earlier: fn()) -> String {
    let (tx, rx) = mpsc::channel();
    std::thread::spawn(move || {
        EXIT.with(|e| *e.borrow_mut() = Some(AtExit(tx)));
        earlier();
    })
    .join()
    .unwrap();
    rx.recv().unwrap()
}

#[test]
fn same_call_first_on_thread_vs_after_one_successful_call() {
    // first crate call on the thread
    let first = probe_at_thread_exit_after(|| {});
    assert_eq!(first, "Ok([1, 2])");

    // an earlier *serialization* call does not matter (control)
    let after_ser = probe_at_thread_exit_after(|| {
        let _ = serde_saphyr::to_string(&vec![1, 2]).unwrap();
    });
    assert_eq!(after_ser, first);

    // the same call after one earlier, successful, anchor-free deserialization call
    let after_de = probe_at_thread_exit_after(|| {
        let _: i32 = serde_saphyr::from_str("1").unwrap();
    });
    assert_eq!(
        after_de, first,
        "expected the same result as when it is the first call on the thread ({first}), got {after_de}"
    );
}
