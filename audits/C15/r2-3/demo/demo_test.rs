//! C15 finding 3: the `Deserialize` impls of the anchor wrapper types read the thread-local anchor
//! context (`current_rc_anchor()` ...) without knowing whether the deserializer they were handed is
//! the serde-saphyr one that established that context. A *separate* deserialization call of
//! `RcAnchor<T>` through another `serde::Deserializer` (serde_json here), made from a user
//! `Deserialize` impl while a serde-saphyr document is inside an anchored node, therefore
//! - registers its value in the enclosing document's anchor table (the table keeps a reference), and
//! - on the alias replay fails with the enclosing document's "anchor id 1 reused with incompatible
//!   Rc type" - an error about a YAML anchor, reported for the JSON text `5`.
//! On a fresh thread (or anywhere outside an anchored node) the same call returns Ok(5) with a
//! strong count of 1.
//!
//! Run: cargo test --offline --test demo_test

use serde::Deserialize;
use serde_saphyr::{ArcAnchor, RcAnchor};
use std::cell::RefCell;
use std::rc::Rc;
use std::sync::Arc;

thread_local! {
    static LOG: RefCell<Vec<String>> = const { RefCell::new(Vec::new()) };
}

/// The calls under test: their only argument is the JSON text `5`.
fn probe_rc() -> String {
    match serde_json::from_str::<RcAnchor<i32>>("5") {
        Ok(v) => format!("Ok({}) strong_count={}", *v.0, Rc::strong_count(&v.0)),
        Err(e) => format!("Err({e})"),
    }
}
fn probe_arc() -> String {
    match serde_json::from_str::<ArcAnchor<i32>>("5") {
        Ok(v) => format!("Ok({}) strong_count={}", *v.0, Arc::strong_count(&v.0)),
        Err(e) => format!("Err({e})"),
    }
}

/// A user type whose `Deserialize` impl makes the call (think: a YAML node that carries the name of
/// a JSON side file which is loaded into a structure that shares sub-objects through `RcAnchor`).
struct HostRc;
impl<'de> Deserialize<'de> for HostRc {
    fn deserialize<D: serde::Deserializer<'de>>(d: D) -> Result<Self, D::Error> {
        LOG.with(|l| l.borrow_mut().push(probe_rc()));
        let _ = i32::deserialize(d)?;
        Ok(HostRc)
    }
}
struct HostArc;
impl<'de> Deserialize<'de> for HostArc {
    fn deserialize<D: serde::Deserializer<'de>>(d: D) -> Result<Self, D::Error> {
        LOG.with(|l| l.borrow_mut().push(probe_arc()));
        let _ = i32::deserialize(d)?;
        Ok(HostArc)
    }
}

#[test]
fn rc_anchor_through_serde_json_inside_an_anchored_yaml_node() {
    let fresh = std::thread::spawn(probe_rc).join().unwrap();
    assert_eq!(fresh, "Ok(5) strong_count=1");

    // control: nested, but not inside an anchored node
    LOG.with(|l| l.borrow_mut().clear());
    serde_saphyr::from_str::<Vec<RcAnchor<HostRc>>>("- 1\n- 2\n").unwrap();
    assert_eq!(LOG.with(|l| l.borrow().clone()), vec![fresh.clone(), fresh.clone()]);

    // nested inside `&a 1` and inside the replay of `*a`
    LOG.with(|l| l.borrow_mut().clear());
    let outer = serde_saphyr::from_str::<Vec<RcAnchor<HostRc>>>("- &a 1\n- *a\n");
    assert!(outer.is_ok());
    let log = LOG.with(|l| l.borrow().clone());
    assert_eq!(
        log,
        vec![fresh.clone(), fresh.clone()],
        "expected both nested calls to return what the call returns on a fresh thread ({fresh})"
    );
}

#[test]
fn arc_anchor_through_serde_json_inside_an_anchored_yaml_node() {
    let fresh = std::thread::spawn(probe_arc).join().unwrap();
    assert_eq!(fresh, "Ok(5) strong_count=1");

    LOG.with(|l| l.borrow_mut().clear());
    let outer = serde_saphyr::from_str::<Vec<ArcAnchor<HostArc>>>("- &a 1\n- *a\n");
    assert!(outer.is_ok());
    let log = LOG.with(|l| l.borrow().clone());
    assert_eq!(
        log,
        vec![fresh.clone(), fresh.clone()],
        "expected both nested calls to return what the call returns on a fresh thread ({fresh})"
    );
}
