//! C15 demo: the order in which a call releases the user's anchored values depends on the
//! per-call hash seed of the thread-local anchor table, so the same call behaves differently on a
//! fresh thread, as the second call on a thread, as the third call ...
//!
//! Run: cargo test --offline --test demo_test
use serde::Deserialize;
use serde_saphyr::RcAnchor;
use std::cell::RefCell;

thread_local! {
    /// What the user's `Drop` impls observed, in order.
    static RELEASED: RefCell<Vec<String>> = const { RefCell::new(Vec::new()) };
}

/// A user value with an observable destructor (a handle, a lock, a log line ...).
#[derive(Debug, Deserialize)]
struct Resource(String);

impl Drop for Resource {
    fn drop(&mut self) {
        RELEASED.with(|r| r.borrow_mut().push(self.0.clone()));
    }
}

const FAILING_DOC: &str = "\
- &a r01
- &b r02
- &c r03
- &d r04
- &e r05
- &f r06
- &g r07
- &h r08
- &i r09
- &j r10
- [this, element, is, not, a, string]
";

/// One call, always with the same arguments. Returns the call's result (as text) and the order
/// in which the call released the values it had built.
fn failing_call() -> (String, Vec<String>) {
    let result = serde_saphyr::from_str::<Vec<RcAnchor<Resource>>>(FAILING_DOC);
    let result = match result {
        Ok(v) => format!("Ok({} values)", v.len()),
        Err(e) => format!("Err({e})"),
    };
    (result, RELEASED.with(|r| std::mem::take(&mut *r.borrow_mut())))
}

/// A target that reads the anchored values and keeps only their number: the call succeeds and
/// the anchor table is the last owner of every value.
struct Count(usize);
impl<'de> Deserialize<'de> for Count {
    fn deserialize<D: serde::Deserializer<'de>>(d: D) -> Result<Self, D::Error> {
        Ok(Count(Vec::<RcAnchor<Resource>>::deserialize(d)?.len()))
    }
}

const GOOD_DOC: &str = "\
- &a r01
- &b r02
- &c r03
- &d r04
- &e r05
- &f r06
- &g r07
- &h r08
- &i r09
- &j r10
";

fn succeeding_call() -> (String, Vec<String>) {
    let result = serde_saphyr::from_str::<Count>(GOOD_DOC);
    let result = match result {
        Ok(c) => format!("Ok({} values)", c.0),
        Err(e) => format!("Err({e})"),
    };
    (result, RELEASED.with(|r| std::mem::take(&mut *r.borrow_mut())))
}

fn check(name: &str, call: fn() -> (String, Vec<String>)) {
    // Reference: the call as the first call on a fresh thread.
    let (fresh_result, fresh_order) = std::thread::spawn(call).join().unwrap();
    assert_eq!(fresh_order.len(), 10, "{name}: every value is released exactly once");

    // The same call, following 0, 1, 2, ... identical calls on this thread.
    for nth in 1..=6 {
        let (result, order) = call();
        assert_eq!(
            result, fresh_result,
            "{name}: call #{nth} on this thread: returned value differs from the fresh-thread call"
        );
        assert_eq!(
            order, fresh_order,
            "{name}: call #{nth} on this thread released the user's values in another order than \
             the same call on a fresh thread\n  expected (fresh thread): {fresh_order:?}\n  \
             actual   (call #{nth})   : {order:?}"
        );
    }
}

#[test]
fn failing_call_releases_values_in_the_same_order_every_time() {
    check("failing call", failing_call);
}

#[test]
fn succeeding_call_releases_values_in_the_same_order_every_time() {
    check("succeeding call", succeeding_call);
}
