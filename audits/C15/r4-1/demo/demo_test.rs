//! C15: the result of a serialization call depends on what the thread did before.
//!
//! The serializer decides "definition or alias?" for `RcAnchor` / `ArcAnchor` (and the
//! recursive variants) by the *address* of the pointee, kept in a table for the duration of the
//! call, without keeping the pointee alive. A `Serialize` impl that builds its anchored value
//! on the fly (a view / DTO, `#[serde(into = ...)]`, `serialize_with` helpers that allocate)
//! frees it right after it has been written; the next temporary may or may not be allocated at
//! the same address. If it is, it is written as an alias `*aN` of the dead value (silent data
//! corruption); whether it is depends on the state of the thread's allocator caches, that is,
//! on the earlier calls made on the thread.

use std::rc::Rc;

use serde::{Serialize, Serializer};
use serde_saphyr::RcAnchor;

/// A value that is serialized through an anchored copy built on the fly.
#[derive(Clone)]
struct Item(String);

impl Serialize for Item {
    fn serialize<S: Serializer>(&self, s: S) -> Result<S::Ok, S::Error> {
        RcAnchor::from(Rc::new(self.0.clone())).serialize(s)
    }
}

fn items(lens: &[usize]) -> Vec<Item> {
    lens.iter()
        .enumerate()
        .map(|(i, l)| Item(format!("{i}{}", "x".repeat(*l))))
        .collect()
}

/// The call under test: always the same value, always the same (default) options.
fn call(value: &Vec<Item>) -> String {
    serde_saphyr::to_string(value).expect("serialization succeeds")
}

/// On one fresh thread: the call, the same call again, an unrelated successful call of the
/// crate, and the same call a third time. The three documents must be the same.
fn three_times_on_a_fresh_thread(lens: Vec<usize>) -> (String, String, String) {
    std::thread::spawn(move || {
        let value = items(&lens);
        let first = call(&value);
        let second = call(&value);
        let _ = serde_saphyr::from_str::<serde_json::Value>("k: v\n");
        let third = call(&value);
        (first, second, third)
    })
    .join()
    .unwrap()
}

#[test]
fn serialization_result_does_not_depend_on_earlier_calls() {
    // Lists of three strings of 1 / 11 / 21 / 31 / 41 / 51 characters. (Which of them show the
    // difference depends on the allocator; with glibc about one in four does, often starting with
    // ["0xxxxxxxxxx", "1", "2"].)
    let set = [0usize, 10, 20, 30, 40, 50];
    let mut total = 0;
    let mut mismatches = Vec::new();
    for a in set {
        for b in set {
            for c in set {
                total += 1;
                let lens = vec![a, b, c];
                let (first, second, third) = three_times_on_a_fresh_thread(lens.clone());
                for (what, later) in [
                    ("the same call made again right after it", &second),
                    ("the same call after from_str::<Value>(\"k: v\\n\")", &third),
                ] {
                    if *later != first {
                        mismatches.push(format!(
                            "value {:?}\n  expected (first call on a fresh thread):\n{}\
                             \n  actual ({what}, same thread):\n{}",
                            items(&lens).iter().map(|i| i.0.clone()).collect::<Vec<_>>(),
                            indent(&first),
                            indent(later),
                        ));
                    }
                }
            }
        }
    }
    assert!(
        mismatches.is_empty(),
        "for {} of {total} values a later, identical call gave a different document than \
         the first call on the thread; the first ones:\n{}",
        mismatches.len(),
        mismatches.iter().take(3).cloned().collect::<Vec<_>>().join("\n")
    );
}

/// The defect behind it, without any reference to call history: two different values, two
/// different `Rc`s, and the second is written as an alias of the first.
#[test]
fn different_values_are_not_written_as_aliases_of_each_other() {
    let values = vec![Item("first".into()), Item("second".into())];
    let yaml = serde_saphyr::to_string(&values).expect("serialization succeeds");
    let back: Vec<String> = serde_saphyr::from_str(&yaml).expect("output parses");
    assert_eq!(
        back,
        vec!["first".to_string(), "second".to_string()],
        "expected the two values back; the document was:\n{yaml}"
    );
}

fn indent(s: &str) -> String {
    s.lines().map(|l| format!("      {l}\n")).collect()
}
