//! C15 finding 1: the thread-local anchor table is torn down *while its `RefCell` is mutably
//! borrowed*. Values whose last reference is held by the table (an anchored node of a document
//! that failed later on, an anchored value the target discarded, ...) are dropped inside that
//! borrow, so any deserialization call made from their `Drop` impl - a call that returns `Ok` on a
//! fresh thread - panics with "RefCell already borrowed", and the enclosing call, which should
//! return its own `Err`/`Ok`, panics as well.
//!
//! Run: cargo test --offline --test demo_test

use serde::Deserialize;
use serde_saphyr::RcAnchor;
use std::cell::RefCell;
use std::collections::BTreeMap;
use std::panic::{AssertUnwindSafe, catch_unwind};

thread_local! {
    static LOG: RefCell<Vec<String>> = const { RefCell::new(Vec::new()) };
}

fn panic_text(p: Box<dyn std::any::Any + Send>) -> String {
    p.downcast_ref::<String>()
        .cloned()
        .or_else(|| p.downcast_ref::<&str>().map(|s| s.to_string()))
        .unwrap_or_else(|| "<non-string panic>".to_string())
}

/// The call under test: no anchors, no options, nothing shared with anybody.
fn probe() -> String {
    match catch_unwind(|| serde_saphyr::from_str::<Vec<i32>>("[1, 2]")) {
        Ok(Ok(v)) => format!("Ok({v:?})"),
        Ok(Err(e)) => format!("Err({e})"),
        Err(p) => format!("PANIC({})", panic_text(p)),
    }
}

/// A value that re-reads a bit of YAML when it is dropped (think: a handle that reloads /
/// validates its sidecar config on release) and logs what the call returned.
#[derive(Debug)]
struct Noisy(#[allow(dead_code)] i32);

impl<'de> Deserialize<'de> for Noisy {
    fn deserialize<D: serde::Deserializer<'de>>(d: D) -> Result<Self, D::Error> {
        Ok(Noisy(i32::deserialize(d)?))
    }
}

impl Drop for Noisy {
    fn drop(&mut self) {
        LOG.with(|l| l.borrow_mut().push(probe()));
    }
}

fn on_fresh_thread() -> String {
    std::thread::spawn(probe).join().unwrap()
}

/// The document fails at its second element; the first, anchored, element then lives only in
/// the anchor table and is dropped when `with_document_scope` restores the previous table.
#[test]
fn call_made_while_a_failed_documents_anchor_table_is_dropped() {
    let expected = on_fresh_thread();
    assert_eq!(expected, "Ok([1, 2])");

    LOG.with(|l| l.borrow_mut().clear());
    let outer = serde_saphyr::from_str::<Vec<RcAnchor<Noisy>>>("- &a 1\n- oops\n");
    assert!(outer.is_err(), "outer document must fail with `invalid i32`");

    let log = LOG.with(|l| l.borrow().clone());
    assert_eq!(
        log,
        vec![expected.clone()],
        "expected the call made from Drop to return what it returns on a fresh thread ({expected}), got {log:?}"
    );
}

/// Same thing in a *successful* parse: with `LastWins` the first `k` value is replaced by the
/// map, its `Rc` survives only in the anchor table and is dropped at the end of the document.
#[test]
fn call_made_while_a_successful_documents_anchor_table_is_dropped() {
    let expected = on_fresh_thread();

    LOG.with(|l| l.borrow_mut().clear());
    let opts = serde_saphyr::options! { duplicate_keys: serde_saphyr::DuplicateKeyPolicy::LastWins };
    let outer = serde_saphyr::from_str_with_options::<BTreeMap<String, RcAnchor<Noisy>>>(
        "k: &a 1\nk: &b 2\n",
        opts,
    );
    assert!(outer.is_ok(), "outer: {:?}", outer.err().map(|e| e.to_string()));
    let log = LOG.with(|l| l.borrow().clone());
    assert!(!log.is_empty(), "the replaced value must have been dropped by now");
    assert_eq!(
        log[0], expected,
        "expected the call made from Drop to return what it returns on a fresh thread ({expected}), got {log:?}"
    );
    drop(outer);
}

/// Without a `catch_unwind` in `Drop` the panic escapes through the *enclosing* call: a call that
/// must return `Err(invalid i32)` panics instead.
struct Reload(#[allow(dead_code)] i32);
impl<'de> Deserialize<'de> for Reload {
    fn deserialize<D: serde::Deserializer<'de>>(d: D) -> Result<Self, D::Error> {
        Ok(Reload(i32::deserialize(d)?))
    }
}
impl Drop for Reload {
    fn drop(&mut self) {
        let _ = serde_saphyr::from_str::<Vec<i32>>("[1, 2]");
    }
}

#[test]
fn enclosing_call_panics_instead_of_returning_its_error() {
    let r = catch_unwind(AssertUnwindSafe(|| {
        serde_saphyr::from_str::<Vec<RcAnchor<Reload>>>("- &a 1\n- oops\n")
            .map(|_| ())
            .map_err(|e| e.to_string())
    }));
    match r {
        Ok(Err(e)) => assert!(e.contains("invalid i32"), "unexpected error: {e}"),
        Ok(Ok(())) => panic!("expected Err(invalid i32), got Ok"),
        Err(p) => panic!(
            "expected Err(invalid i32 ...), but the call panicked: {}",
            panic_text(p)
        ),
    }
}
