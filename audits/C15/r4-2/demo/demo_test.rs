//! C15: a serialization call through the public `serde_saphyr::Serializer::with_options`
//! silently removes the anchor-name generator from the caller's `SerializerOptions`
//! (`options.anchor_generator.take()`), so the very same call, repeated with the very same
//! options object, gives a different document the second time: the first call's effect
//! survives the call and is observable in the result of the next one.

use std::rc::Rc;

use serde::Serialize;
use serde_saphyr::{RcAnchor, SerializerOptions};

fn custom_name(id: usize) -> String {
    format!("node{id}")
}

/// One serialization call: a value with one shared `Rc`, written through the public
/// serializer type with the caller's options.
fn call(options: &mut SerializerOptions) -> String {
    let shared = Rc::new(5u32);
    let value = vec![RcAnchor(shared.clone()), RcAnchor(shared)];
    let mut out = String::new();
    {
        let mut ser = serde_saphyr::Serializer::with_options(&mut out, options);
        value.serialize(&mut ser).expect("serialization succeeds");
    }
    out
}

fn options() -> SerializerOptions {
    serde_saphyr::ser_options! {
        anchor_generator: Some(custom_name),
    }
}

#[test]
fn same_call_with_same_options_gives_same_document() {
    // The call as the first call on a fresh thread.
    let fresh = std::thread::spawn(|| call(&mut options())).join().unwrap();
    assert_eq!(fresh, "- &node1 5\n- *node1\n", "baseline (fresh thread)");

    // The same call twice on one thread, with the same options object.
    let mut opts = options();
    let first = call(&mut opts);
    let second = call(&mut opts);

    assert_eq!(
        first, fresh,
        "first call on this thread: expected the fresh-thread result"
    );
    assert_eq!(
        second, fresh,
        "second call with the same options object: expected {fresh:?} (as on a fresh thread \
         and as the first call), actual {second:?} - the first call took the anchor generator \
         out of the caller's options"
    );
}

#[test]
fn a_serialization_call_leaves_the_callers_options_alone() {
    let mut opts = options();
    let _ = call(&mut opts);
    #[allow(deprecated)]
    let still_there = opts.anchor_generator.is_some();
    assert!(
        still_there,
        "expected: options.anchor_generator still Some(custom_name) after a call; \
         actual: None (consumed by Serializer::with_options)"
    );
}
