//! C11 finding 4: the streaming iterator ends (and silently drops all following documents)
//! when a document's ROOT node is an alias to an anchor of an earlier document. This is not a
//! syntax error - the very same error ("alias references unknown anchor") one level deeper
//! lets the iterator continue with the following document, as the statement requires.

use serde_json::Value;

fn show<T: std::fmt::Debug>(r: &Result<T, serde_saphyr::Error>) -> String {
    match r {
        Ok(v) => format!("Ok({v:?})"),
        Err(e) => format!("Err({})", e.to_string().lines().next().unwrap_or("")),
    }
}

fn items(stream: &str) -> Vec<Result<Value, serde_saphyr::Error>> {
    let mut reader = std::io::Cursor::new(stream.as_bytes().to_vec());
    let mut out = Vec::new();
    for (i, item) in serde_saphyr::read::<_, Value>(&mut reader).enumerate() {
        out.push(item);
        assert!(i < 50, "iterator does not terminate");
    }
    out
}

#[test]
fn iterator_continues_after_a_document_that_aliases_an_earlier_documents_anchor() {
    // Contrast (passes today): the alias is an element of the root sequence.
    let nested = items("--- &x a\n--- [*x]\n--- b\n");
    let nested_shown: Vec<String> = nested.iter().map(show).collect();
    assert!(
        nested.len() == 3 && nested[0].is_ok() && nested[1].is_err() && nested[2].is_ok(),
        "nested alias: expected [Ok(a), Err(unknown anchor), Ok(b)]; actual {nested_shown:?}"
    );

    // The alias is the root node of document 2.
    let root = items("--- &x a\n--- *x\n--- b\n");
    let root_shown: Vec<String> = root.iter().map(show).collect();
    assert!(
        root.len() == 3 && root[0].is_ok() && root[1].is_err() && root[2].is_ok(),
        "root alias: expected [Ok(\"a\"), Err(alias references unknown anchor), Ok(\"b\")] \
         (the same as for the nested alias: {nested_shown:?}); actual {root_shown:?}"
    );
}

#[test]
fn typed_target_too() {
    let stream = "--- &x 1\n---\n*x\n--- 3\n--- 4\n";
    let mut reader = std::io::Cursor::new(stream.as_bytes().to_vec());
    let got: Vec<String> = serde_saphyr::read::<_, i32>(&mut reader).take(10).map(|r| show(&r)).collect();
    assert!(
        got.len() == 4 && got[0] == "Ok(1)" && got[1].starts_with("Err(") && got[2] == "Ok(3)" && got[3] == "Ok(4)",
        "expected [Ok(1), Err(alias references unknown anchor ..), Ok(3), Ok(4)]; actual {got:?}"
    );
}
