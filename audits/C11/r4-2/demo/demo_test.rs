//! C11, clauses "a stream of documents deserializes as the list obtained by deserializing each
//! document separately" and "single-document entry points reject any stream with a second
//! document".
//!
//! The streaming `MapAccess` of the deserializer is not fused: it *consumes* the `MapEnd` event
//! when it reports the end (`Ok(None)`), and a further `next_key` call peeks at whatever comes
//! next in the event stream. For the root mapping of a document that is the first node of the
//! *next document*: it is captured whole as a "key", the document after it as its "value".
//! (The `SeqAccess` of the same deserializer is fused: it leaves `SeqEnd` in place and keeps
//! answering `None`.) Serde does not forbid asking again after `None`; a visitor that drains
//! its access defensively - and, as many do, stops at the first `Err` or `None` - works on every
//! document on its own, but in a stream it silently swallows the documents that follow.

use serde::de::{IgnoredAny, MapAccess, Visitor};
use serde::Deserialize;
use std::collections::BTreeMap;

#[derive(Debug, PartialEq)]
struct Doc(BTreeMap<String, i32>);

impl<'de> Deserialize<'de> for Doc {
    fn deserialize<D: serde::Deserializer<'de>>(d: D) -> Result<Self, D::Error> {
        struct V;
        impl<'de> Visitor<'de> for V {
            type Value = Doc;
            fn expecting(&self, f: &mut std::fmt::Formatter) -> std::fmt::Result {
                f.write_str("a mapping from strings to integers")
            }
            fn visit_map<A: MapAccess<'de>>(self, mut map: A) -> Result<Doc, A::Error> {
                let mut out = BTreeMap::new();
                while let Some((k, v)) = map.next_entry::<String, i32>()? {
                    out.insert(k, v);
                }
                // Defensive drain: make sure the access is exhausted before returning (bounded).
                let mut guard = 0;
                while let Ok(Some(_)) = map.next_entry::<IgnoredAny, IgnoredAny>() {
                    guard += 1;
                    if guard > 1000 {
                        break;
                    }
                }
                Ok(Doc(out))
            }
        }
        d.deserialize_map(V)
    }
}

fn doc(k: &str, v: i32) -> Doc {
    Doc(BTreeMap::from([(k.to_string(), v)]))
}

const STREAM: &str = "a: 1\n---\nb: 2\n---\nc: 3\n";

#[test]
fn batch_is_the_list_of_the_documents_each_on_its_own() {
    // each document on its own
    let separately: Vec<Doc> = ["a: 1\n", "b: 2\n", "c: 3\n"]
        .iter()
        .map(|d| serde_saphyr::from_str::<Doc>(d).expect("every document is fine on its own"))
        .collect();
    assert_eq!(separately, vec![doc("a", 1), doc("b", 2), doc("c", 3)]);

    let batch = serde_saphyr::from_multiple::<Doc>(STREAM).expect("no document fails");
    assert_eq!(
        batch, separately,
        "expected: the three documents; actual: documents 2 and 3 were consumed through the \
         MapAccess of document 1 after it had reported its end"
    );
}

#[test]
fn iterator_is_the_list_of_the_documents_each_on_its_own() {
    let mut reader = std::io::Cursor::new(STREAM.as_bytes());
    let mut items = Vec::new();
    for (i, r) in serde_saphyr::read::<_, Doc>(&mut reader).enumerate() {
        items.push(r.map_err(|e| e.to_string()));
        assert!(i < 100, "iterator does not terminate");
    }
    assert_eq!(
        items,
        vec![Ok(doc("a", 1)), Ok(doc("b", 2)), Ok(doc("c", 3))],
        "expected: three items; actual: the iterator ends after the first"
    );
}

#[test]
fn single_document_entry_point_rejects_a_second_document() {
    let r = serde_saphyr::from_str::<Doc>("a: 1\n---\nb: 2\n---\nc: 3\n");
    assert!(
        r.is_err(),
        "expected: Err(multiple documents) for a stream of three documents; actual: {r:?}"
    );
}
