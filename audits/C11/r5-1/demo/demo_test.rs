//! C11, clause "the streaming iterator ... ends after a syntax error".
//!
//! The parser reports an undeclared tag handle (`!e!x`) once, after it has consumed the tag, and
//! does not repeat the error on the next pull. The iterators decide whether to end by looking at
//! the error the *target type returned* (`Error::is_syntax_error`). A target that does not hand
//! the parser's error back unchanged (here: an element type that falls back to `None` when its
//! inner value fails, the classic "lenient field") makes the document fail with some other,
//! non-syntax error - and the iterator resynchronises on the next `---` and goes on, although
//! the parser has met a syntax error in the stream.

use serde::Deserialize;
use serde_json::Value;

/// `Some(value)` if the inner type can be read, `None` otherwise (errors are dropped).
#[derive(Debug, PartialEq)]
struct Lenient<T>(Option<T>);

impl<'de, T: Deserialize<'de>> Deserialize<'de> for Lenient<T> {
    fn deserialize<D: serde::Deserializer<'de>>(d: D) -> Result<Self, D::Error> {
        Ok(Lenient(T::deserialize(d).ok()))
    }
}

// document 1 has a syntax error (undeclared tag handle `!e!`), documents 2 and 3 are fine
const STREAM: &str = "- - !e!x\n    - 1\n  - 2\n- [7]\n---\n- [3]\n---\n- [4]\n";

fn run<T: serde::de::DeserializeOwned + std::fmt::Debug>() -> Vec<String> {
    let mut reader = std::io::Cursor::new(STREAM.as_bytes().to_vec());
    let mut items = Vec::new();
    for item in serde_saphyr::read::<_, T>(&mut reader).take(10) {
        items.push(match item {
            Ok(v) => format!("Ok({v:?})"),
            Err(e) => format!("Err({e})"),
        });
    }
    items
}

/// Control: with a target that propagates errors the iterator ends after the syntax error.
#[test]
fn control_strict_target_ends_after_the_syntax_error() {
    let items = run::<Vec<Value>>();
    assert_eq!(items.len(), 1, "expected exactly one item (the syntax error), got {items:#?}");
    assert!(items[0].contains("handle wasn't declared"), "got {items:#?}");
}

/// The same stream, a target whose elements swallow the error of their inner value.
#[test]
fn iterator_ends_after_a_syntax_error_the_target_swallowed() {
    // the batch function agrees that the stream is broken
    assert!(serde_saphyr::from_multiple::<Vec<Lenient<Value>>>(STREAM).is_err());

    let items = run::<Vec<Lenient<Value>>>();
    assert!(items[0].starts_with("Err("), "document 1 has a syntax error, got {items:#?}");
    assert_eq!(
        items.len(),
        1,
        "expected: the iterator ends after the document with the syntax error (1 item, as for \
         Vec<Value>); actual: it went on and yielded {} items: {items:#?}",
        items.len()
    );
}
