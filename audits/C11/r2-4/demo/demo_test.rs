//! C11 demo 4: a document whose root is an explicitly tagged node without (or with null-like)
//! content is dropped as a "null document", although the tag makes it a value: for an enum
//! target the tag selects the variant (`from_str::<E>("!A")` is `E::A`).
//!
//! Related to, but not the same as, the repaired `!!str null` case: `is_null_document` now
//! exempts the `!!str` tag only; every other explicit tag is still ignored.

use serde::Deserialize;

#[derive(Debug, Deserialize, PartialEq)]
enum Cmd {
    Start,
    Stop,
    Speed(i32),
    Note(String),
    Limit(Option<i32>),
}

#[test]
fn each_document_on_its_own() {
    assert_eq!(serde_saphyr::from_str::<Cmd>("--- !Start\n").unwrap(), Cmd::Start);
    assert_eq!(serde_saphyr::from_str::<Cmd>("--- !Speed 3\n").unwrap(), Cmd::Speed(3));
    assert_eq!(serde_saphyr::from_str::<Cmd>("--- !Note\n").unwrap(), Cmd::Note(String::new()));
    assert_eq!(serde_saphyr::from_str::<Cmd>("--- !Limit ~\n").unwrap(), Cmd::Limit(None));
    assert_eq!(serde_saphyr::from_str::<Cmd>("--- !Stop\n").unwrap(), Cmd::Stop);
}

const STREAM: &str = "--- !Start\n--- !Speed 3\n--- !Note\n--- !Limit ~\n--- !Stop\n";

fn expected() -> Vec<Cmd> {
    vec![Cmd::Start, Cmd::Speed(3), Cmd::Note(String::new()), Cmd::Limit(None), Cmd::Stop]
}

#[test]
fn batch_is_the_list_of_the_documents() {
    let got = serde_saphyr::from_multiple::<Cmd>(STREAM).map_err(|e| e.to_string());
    assert_eq!(got, Ok(expected()), "tag-selected variants without payload were dropped");
}

#[test]
fn iterator_is_the_list_of_the_documents() {
    let mut reader = std::io::Cursor::new(STREAM.as_bytes());
    let got: Result<Vec<Cmd>, String> = serde_saphyr::read::<_, Cmd>(&mut reader)
        .take(50)
        .map(|r| r.map_err(|e| e.to_string()))
        .collect();
    assert_eq!(got, Ok(expected()), "tag-selected variants without payload were dropped");
}
