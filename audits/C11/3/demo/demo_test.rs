//! C11 finding 3: a document whose root is a literal block scalar with its text in column 0
//! (legal YAML: `--- |` + lines that start in column 0, yaml-test-suite W4TN / M7A3) swallows
//! every following document: the `---` lines of the following documents become text.

fn show<T: std::fmt::Debug>(r: &Result<T, serde_saphyr::Error>) -> String {
    match r {
        Ok(v) => format!("Ok({v:?})"),
        Err(e) => format!("Err({})", e.to_string().lines().next().unwrap_or("")),
    }
}

const DOC1: &str = "--- |\nfirst\n";
const DOC2: &str = "--- second\n";

fn stream() -> String {
    format!("{DOC1}{DOC2}")
}

#[test]
fn batch_is_the_list_of_the_documents() {
    assert_eq!(serde_saphyr::from_str::<String>(DOC1).unwrap(), "first\n", "premise: document 1 on its own");
    assert_eq!(serde_saphyr::from_str::<String>(DOC2).unwrap(), "second", "premise: document 2 on its own");

    let got = serde_saphyr::from_multiple::<String>(&stream());
    assert_eq!(
        show(&got),
        r#"Ok(["first\n", "second"])"#,
        "from_multiple({:?})",
        stream()
    );
}

#[test]
fn iterator_is_the_list_of_the_documents() {
    let bytes = stream().into_bytes();
    let mut reader = std::io::Cursor::new(bytes);
    let items: Vec<String> = serde_saphyr::read::<_, String>(&mut reader)
        .take(10)
        .map(|r| show(&r))
        .collect();
    assert_eq!(
        items,
        vec![r#"Ok("first\n")"#.to_string(), r#"Ok("second")"#.to_string()],
        "read({:?})",
        stream()
    );
}

#[test]
fn single_document_entry_points_reject_the_second_document() {
    let got = serde_saphyr::from_str::<String>(&stream());
    assert!(
        got.is_err(),
        "from_str({:?}): expected Err(multiple documents); actual: {}",
        stream(),
        show(&got)
    );
    let got = serde_saphyr::from_reader::<_, String>(std::io::Cursor::new(stream().into_bytes()));
    assert!(
        got.is_err(),
        "from_reader({:?}): expected Err(multiple documents); actual: {}",
        stream(),
        show(&got)
    );
}

/// The empty literal scalar does it too: `--- |` directly followed by the next document.
#[test]
fn empty_literal_scalar_followed_by_a_document() {
    let stream = "--- |\n--- second\n--- third\n";
    let got = serde_saphyr::from_multiple::<String>(stream);
    assert_eq!(
        show(&got),
        r#"Ok(["", "second", "third"])"#,
        "from_multiple({stream:?})"
    );
}
