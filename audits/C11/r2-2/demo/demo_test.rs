//! C11 demo 2: after a type-level error the iterator must go on with the following document.
//! It does not when the failed document also contains, further down, an alias to an anchor
//! that is not defined - although that very alias, met first, is treated as a failure of this
//! document only (the iterator goes on after it).

use serde::Deserialize;

#[derive(Debug, Deserialize, PartialEq)]
struct P {
    a: i32,
    #[serde(default)]
    b: Option<i32>,
}

fn collect(yaml: &str) -> Vec<Result<P, String>> {
    let mut reader = std::io::Cursor::new(yaml.as_bytes());
    serde_saphyr::read::<_, P>(&mut reader)
        .take(50)
        .map(|r| r.map_err(|e| e.to_string()))
        .collect()
}

/// Control: the unknown alias comes first. The document fails, the iterator continues.
#[test]
fn control_unknown_alias_first_iterator_continues() {
    let items = collect("a: 1\n---\nb: *nope\na: x\n---\na: 3\n");
    assert_eq!(items.len(), 3, "{items:?}");
    assert!(items[1].is_err());
    assert_eq!(items[2], Ok(P { a: 3, b: None }));
}

/// The type error comes first, the unknown alias after it in the same document.
#[test]
fn type_error_then_unknown_alias_iterator_must_continue() {
    let items = collect("a: 1\n---\na: x\nb: *nope\n---\na: 3\n");
    assert_eq!(
        items.len(),
        3,
        "expected [Ok(a=1), Err(invalid i32), Ok(a=3)], actual: {items:?}"
    );
    assert_eq!(items[0], Ok(P { a: 1, b: None }));
    assert!(items[1].is_err());
    assert_eq!(items[2], Ok(P { a: 3, b: None }), "third document lost");
}

/// Same with a sequence target.
#[test]
fn type_error_then_unknown_alias_in_sequence() {
    let mut reader = std::io::Cursor::new("- 1\n---\n- x\n- *nope\n---\n- 3\n".as_bytes());
    let items: Vec<Result<Vec<i32>, String>> = serde_saphyr::read::<_, Vec<i32>>(&mut reader)
        .take(50)
        .map(|r| r.map_err(|e| e.to_string()))
        .collect();
    assert_eq!(
        items.len(),
        3,
        "expected [Ok([1]), Err(invalid i32), Ok([3])], actual: {items:?}"
    );
    assert_eq!(items[2], Ok(vec![3]));
}
