//! C11 finding 2: single-document entry points accept a stream that has a second document
//! when something unparsable stands between the (implicitly ended) first document and the
//! `---` of the second one. The scan error met while probing for a second document is
//! dropped as "trailing garbage after a document end marker" although there is no `...`
//! marker in the input, and with the error the rest of the stream (the second document)
//! disappears.

use serde_json::Value;

fn show<T: std::fmt::Debug>(r: &Result<T, serde_saphyr::Error>) -> String {
    match r {
        Ok(v) => format!("Ok({v:?})"),
        Err(e) => format!("Err({})", e.to_string().lines().next().unwrap_or("")),
    }
}

const STREAM: &str = "{a: 1}\nb: 2\n--- {c: 3}\n";

#[test]
fn from_str_must_reject_the_stream() {
    // the multi-document entry point sees that the stream is broken ...
    assert!(serde_saphyr::from_multiple::<Value>(STREAM).is_err(), "premise: from_multiple rejects the stream");
    // ... and without the stray line the second document is detected
    assert!(serde_saphyr::from_str::<Value>("{a: 1}\n--- {c: 3}\n").is_err(), "premise: second document detected");

    let got = serde_saphyr::from_str::<Value>(STREAM);
    assert!(
        got.is_err(),
        "from_str({STREAM:?}): expected Err (syntax error on line 2, or 'multiple documents' for line 3); actual: {}",
        show(&got)
    );
}

#[test]
fn from_reader_must_reject_the_stream() {
    let got = serde_saphyr::from_reader::<_, Value>(std::io::Cursor::new(STREAM.as_bytes()));
    assert!(got.is_err(), "from_reader({STREAM:?}): expected Err; actual: {}", show(&got));
}

#[test]
fn from_slice_and_with_deserializer_must_reject_the_stream() {
    let got = serde_saphyr::from_slice::<Value>(STREAM.as_bytes());
    assert!(got.is_err(), "from_slice: expected Err; actual: {}", show(&got));

    let got = serde_saphyr::with_deserializer_from_str(STREAM, |de| {
        <Value as serde::Deserialize>::deserialize(de)
    });
    assert!(got.is_err(), "with_deserializer_from_str: expected Err; actual: {}", show(&got));
}

/// Other shapes of the same thing: quoted scalar / flow sequence / block scalar as the root.
#[test]
fn other_roots() {
    for stream in [
        "\"abc\"\ndef\n--- second\n",
        "[1, 2]\nx\n--- second\n",
        "--- 'a'\n'b'\n--- second\n",
        "--- |\n a\nb\n--- second\n",
    ] {
        assert!(serde_saphyr::from_multiple::<Value>(stream).is_err(), "premise: from_multiple rejects {stream:?}");
        let got = serde_saphyr::from_str::<Value>(stream);
        assert!(got.is_err(), "from_str({stream:?}): expected Err; actual: {}", show(&got));
    }
}
