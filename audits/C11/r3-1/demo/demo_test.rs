//! C11: under the per-document budget policy of the streaming iterators the alias/anchor ratio
//! check runs only once, when the whole stream has ended, over the counters of the last document.
//! A document that every other entry point rejects on its own is therefore yielded as `Ok` by
//! `read` / `read_with_options` whenever any other document (even an empty one) follows it, and
//! when it is the last document its value is handed out first and the error comes afterwards.

use serde_json::Value;
use std::io::Cursor;

fn first_line(e: serde_saphyr::Error) -> String {
    e.to_string().lines().next().unwrap_or("").to_string()
}

/// One anchor, 150 aliases: over the default ratio (10 aliases per anchor once there are 100).
fn doc_a() -> String {
    let mut a = String::from("- &a 1\n");
    for _ in 0..150 {
        a.push_str("- *a\n");
    }
    a
}

fn iterate(stream: &str) -> Vec<Result<Value, String>> {
    let mut reader = Cursor::new(stream.as_bytes().to_vec());
    let mut out = Vec::new();
    for item in serde_saphyr::read::<_, Value>(&mut reader) {
        out.push(item.map_err(first_line));
        assert!(out.len() <= 10, "iterator does not end");
    }
    out
}

fn shape(items: &[Result<Value, String>]) -> Vec<String> {
    items
        .iter()
        .map(|r| match r {
            Ok(v) => format!("Ok(array of {})", v.as_array().map(|a| a.len()).unwrap_or(0)),
            Err(e) => format!("Err({e})"),
        })
        .collect()
}

/// The document on its own is rejected by every entry point that sees only it.
fn assert_rejected_on_its_own(a: &str) {
    assert!(serde_saphyr::from_str::<Value>(a).is_err(), "from_str accepts A");
    assert!(
        serde_saphyr::from_reader::<_, Value>(Cursor::new(a.as_bytes().to_vec())).is_err(),
        "from_reader accepts A"
    );
    assert!(serde_saphyr::from_multiple::<Value>(a).is_err(), "from_multiple accepts A");
}

#[test]
fn document_that_fails_on_its_own_is_accepted_when_another_document_follows() {
    let a = doc_a();
    assert_rejected_on_its_own(&a);

    let stream = format!("{a}---\n- 2\n");
    let items = iterate(&stream);
    // Each document on its own: A fails (budget: alias/anchor ratio), B is [2].
    assert!(
        items.len() == 2 && items[0].is_err() && items[1].is_ok(),
        "expected [Err(budget breached: AliasAnchorRatio ..), Ok([2])], actual {:?}",
        shape(&items)
    );
}

#[test]
fn document_that_fails_on_its_own_is_accepted_when_an_empty_document_follows() {
    let a = doc_a();
    assert_rejected_on_its_own(&a);

    let stream = format!("{a}---\n");
    let items = iterate(&stream);
    assert!(
        items.len() == 1 && items[0].is_err(),
        "expected [Err(budget breached: AliasAnchorRatio ..)], actual {:?}",
        shape(&items)
    );
}

#[test]
fn value_of_a_failing_last_document_is_not_handed_out() {
    let a = doc_a();
    assert_rejected_on_its_own(&a);

    // A is the only document: the iterator must yield its failure, not its value.
    let items = iterate(&a);
    assert!(
        items.len() == 1 && items[0].is_err(),
        "expected [Err(budget breached: AliasAnchorRatio ..)], actual {:?}",
        shape(&items)
    );
}

#[test]
fn verdict_does_not_depend_on_the_position_in_the_stream() {
    let a = doc_a();
    let first = iterate(&format!("{a}---\n- 2\n"));
    let last = iterate(&format!("---\n- 2\n---\n{a}"));
    let a_first_ok = first.first().map(|r| r.is_ok());
    let a_last_ok = last.get(1).map(|r| r.is_ok());
    let errors_first = first.iter().filter(|r| r.is_err()).count();
    let errors_last = last.iter().filter(|r| r.is_err()).count();
    assert!(
        errors_first == errors_last && a_first_ok == a_last_ok,
        "same two documents, other order: [A, B] gives {:?}, [B, A] gives {:?}",
        shape(&first),
        shape(&last)
    );
}
