//! C11 finding 5: with a reader that reports `ErrorKind::Interrupted` (which the `Read`
//! contract defines as "retry") the streaming iterator fails with an IO error on non-ASCII
//! text, although no document fails and the batch function returns all documents.
//! `ChunkedChars` retries an interrupted read for the first byte of a character only, not for
//! the continuation bytes of a multi-byte character.

use serde_json::Value;
use std::io::{self, Read};

/// Delivers at most `chunk` bytes per call and answers every `every`-th call with
/// `ErrorKind::Interrupted` (no data is lost: the next call continues where it stopped).
struct Interrupting {
    data: Vec<u8>,
    pos: usize,
    chunk: usize,
    every: usize,
    calls: usize,
}

impl Read for Interrupting {
    fn read(&mut self, buf: &mut [u8]) -> io::Result<usize> {
        self.calls += 1;
        if self.every > 0 && self.calls % self.every == 0 {
            return Err(io::Error::new(io::ErrorKind::Interrupted, "EINTR"));
        }
        let n = buf.len().min(self.chunk).min(self.data.len() - self.pos);
        buf[..n].copy_from_slice(&self.data[self.pos..self.pos + n]);
        self.pos += n;
        Ok(n)
    }
}

fn show(r: &Result<Value, serde_saphyr::Error>) -> String {
    match r {
        Ok(v) => format!("Ok({v})"),
        Err(e) => format!("Err({})", e.to_string().lines().next().unwrap_or("")),
    }
}

#[test]
fn iterator_equals_batch_with_an_interrupting_reader() {
    let stream = "--- é1\n--- ключ\n--- 日本語\n";
    let batch = serde_saphyr::from_multiple::<Value>(stream).expect("no document fails");
    assert_eq!(batch.len(), 3);

    // sanity: the same reader without interruptions is fine (1 byte per call)
    let mut plain = Interrupting { data: stream.as_bytes().to_vec(), pos: 0, chunk: 1, every: 0, calls: 0 };
    let ok: Vec<String> = serde_saphyr::read::<_, Value>(&mut plain).take(10).map(|r| show(&r)).collect();
    assert_eq!(ok.len(), 3, "premise: chunked reader without interruptions: {ok:?}");

    for every in [2usize, 3, 5, 7] {
        let mut reader = Interrupting { data: stream.as_bytes().to_vec(), pos: 0, chunk: 1, every, calls: 0 };
        let items: Vec<Result<Value, serde_saphyr::Error>> =
            serde_saphyr::read::<_, Value>(&mut reader).take(10).collect();
        let shown: Vec<String> = items.iter().map(show).collect();
        let values: Vec<Value> = items.into_iter().filter_map(|r| r.ok()).collect();
        assert_eq!(
            values, batch,
            "Interrupted on every {every}th read: expected the 3 documents of the batch function; actual items {shown:?}"
        );
    }
}
