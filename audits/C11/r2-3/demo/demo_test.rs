//! C11 demo 3: a byte-order mark at the start of a document other than the first.
//!
//! YAML 1.2.2 allows U+FEFF at the start of *every* document of a stream
//! (l-document-prefix ::= c-byte-order-mark? l-comment*; and l-yaml-stream allows a bare
//! c-byte-order-mark between documents). This is what `cat a.yaml b.yaml` produces for files
//! written by editors that emit a BOM. The crate strips the mark of the first document itself
//! (`LiveEvents::from_str`, the decoder for readers); the mark of a later document becomes part
//! of that document's content or a syntax error, so the stream is not the list of its documents.

use serde_json::{json, Value};

fn iter(yaml: &str) -> Vec<Result<Value, String>> {
    let mut reader = std::io::Cursor::new(yaml.as_bytes());
    serde_saphyr::read::<_, Value>(&mut reader)
        .take(50)
        .map(|r| r.map_err(|e| e.to_string()))
        .collect()
}

#[test]
fn each_document_on_its_own_is_fine() {
    assert_eq!(serde_saphyr::from_str::<Value>("\u{FEFF}a: 1\n").unwrap(), json!({"a": 1}));
    assert_eq!(serde_saphyr::from_str::<Value>("\u{FEFF}b: 2\n").unwrap(), json!({"b": 2}));
    assert_eq!(serde_saphyr::from_str::<Value>("\u{FEFF}---\nb: 2\n").unwrap(), json!({"b": 2}));
}

#[test]
fn bom_before_a_bare_document_after_end_marker() {
    let yaml = "\u{FEFF}a: 1\n...\n\u{FEFF}b: 2\n";
    let expected = vec![json!({"a": 1}), json!({"b": 2})];
    let batch = serde_saphyr::from_multiple::<Value>(yaml).map_err(|e| e.to_string());
    assert_eq!(batch, Ok(expected.clone()), "batch: the mark must not end up in the key");
    let items: Result<Vec<Value>, String> = iter(yaml).into_iter().collect();
    assert_eq!(items, Ok(expected), "iterator");
}

#[test]
fn bom_before_an_explicit_document() {
    // two files, each "BOM --- body", concatenated
    let yaml = "\u{FEFF}---\na: 1\n\u{FEFF}---\nb: 2\n";
    let expected = vec![json!({"a": 1}), json!({"b": 2})];
    let batch = serde_saphyr::from_multiple::<Value>(yaml).map_err(|e| e.to_string());
    assert_eq!(batch, Ok(expected.clone()), "batch");
    let items: Result<Vec<Value>, String> = iter(yaml).into_iter().collect();
    assert_eq!(items, Ok(expected), "iterator");
    // and the single-document entry point must see the second document
    let single = serde_saphyr::from_str::<Value>(yaml);
    assert!(
        matches!(&single, Err(e) if e.to_string().contains("multiple YAML documents")),
        "single-document entry point: expected the multiple-documents error, actual {:?}",
        single.map_err(|e| e.to_string())
    );
}
