//! C11 demo 1: a target whose `visit_map` stops before the mapping is exhausted leaves the rest
//! of its document in the event stream, and the multi-document functions / iterators / the
//! single-document entry points then take that remainder for further documents.
//!
//! (The same situation for sequences is already an error in `deserialize_seq`: "sequence has
//! more elements than the target type expects". serde_json reports "trailing characters" for it.)

use serde::de::{Deserializer, IgnoredAny, MapAccess, Visitor};
use serde::Deserialize;

/// Reads the first entry of a mapping and returns its key; does not look at the other entries.
#[derive(Debug, PartialEq)]
struct FirstKey(String);

impl<'de> Deserialize<'de> for FirstKey {
    fn deserialize<D: Deserializer<'de>>(d: D) -> Result<Self, D::Error> {
        struct V;
        impl<'de> Visitor<'de> for V {
            type Value = FirstKey;
            fn expecting(&self, f: &mut std::fmt::Formatter) -> std::fmt::Result {
                f.write_str("a mapping")
            }
            fn visit_map<A: MapAccess<'de>>(self, mut a: A) -> Result<FirstKey, A::Error> {
                let first: Option<(String, IgnoredAny)> = a.next_entry()?;
                Ok(FirstKey(first.map(|e| e.0).unwrap_or_default()))
            }
        }
        d.deserialize_map(V)
    }
}

const TWO_DOCS: &str = "a: 1\nb: 2\n---\nc: 3\nd: 4\n";

#[test]
fn iterator_yields_one_item_per_document() {
    let mut reader = std::io::Cursor::new(TWO_DOCS.as_bytes());
    let items: Vec<Result<FirstKey, String>> = serde_saphyr::read::<_, FirstKey>(&mut reader)
        .take(50)
        .map(|r| r.map_err(|e| e.to_string()))
        .collect();
    assert_eq!(
        items.len(),
        2,
        "the stream has 2 documents, expected 2 items (one per document), actual {} items: {:?}",
        items.len(),
        items
    );
}

#[test]
fn batch_does_not_take_the_rest_of_a_document_for_a_new_document() {
    // Whatever is decided for a visitor that stops early (value or error), the failure must
    // not be "expected mapping start" at the *second key of the first document*.
    match serde_saphyr::from_multiple::<FirstKey>(TWO_DOCS) {
        Ok(v) => assert_eq!(
            v,
            vec![FirstKey("a".into()), FirstKey("c".into())],
            "expected one value per document"
        ),
        Err(e) => {
            let msg = e.to_string();
            assert!(
                !msg.contains("expected mapping start"),
                "expected: 2 values, or an error about the unread entries; actual: the key `b` \
                 of document 1 was taken for the root of a further document: {msg}"
            );
        }
    }
}

#[test]
fn single_document_entry_point_does_not_invent_a_second_document() {
    let one_doc = "a: 1\nb: 2\n";
    let res = serde_saphyr::from_str::<FirstKey>(one_doc);
    if let Err(e) = &res {
        let msg = e.to_string();
        assert!(
            !msg.contains("multiple YAML documents"),
            "input has exactly one document; expected Ok(FirstKey(\"a\")) or an error about the \
             unread entries, actual: {msg}"
        );
    }
}

/// Second instance of the same gap, with silently wrong `Ok` items: a root type that falls back
/// to a default when its payload does not fit (a common "lenient" pattern). The failed inner
/// attempt has consumed only the `[` of document 1; the rest of that document is then handed
/// out as three further "documents".
#[derive(Debug, PartialEq)]
struct Lenient(Option<i32>);

impl<'de> Deserialize<'de> for Lenient {
    fn deserialize<D: Deserializer<'de>>(d: D) -> Result<Self, D::Error> {
        Ok(Lenient(i32::deserialize(d).ok()))
    }
}

#[test]
fn lenient_root_type_two_documents_give_two_items() {
    let yaml = "[1, 2]\n---\n5\n";
    let expected = vec![Lenient(None), Lenient(Some(5))];

    let batch = serde_saphyr::from_multiple::<Lenient>(yaml).map_err(|e| e.to_string());
    assert_eq!(batch, Ok(expected), "batch: one item per document expected");
}

#[test]
fn lenient_root_type_iterator() {
    let yaml = "[1, 2]\n---\n5\n";
    let mut reader = std::io::Cursor::new(yaml.as_bytes());
    let items: Vec<Result<Lenient, String>> = serde_saphyr::read::<_, Lenient>(&mut reader)
        .take(50)
        .map(|r| r.map_err(|e| e.to_string()))
        .collect();
    assert_eq!(
        items,
        vec![Ok(Lenient(None)), Ok(Lenient(Some(5)))],
        "iterator: one item per document expected"
    );
}
