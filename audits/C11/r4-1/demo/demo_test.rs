//! C11, clause "the streaming iterator ... ends after a syntax error".
//!
//! A parser error that the parser raises *after* it has consumed the offending token (an
//! undeclared tag handle: `!e!x` without a `%TAG !e! ...` directive in that document) does not
//! repeat on the next pull. `read` / `read_with_options` hand every failed document to
//! `LiveEvents::skip_to_next_document`, which cannot tell a syntax error from a type error and
//! relies on the parser repeating its error. When the tag stands in front of a nested block
//! sequence the parser resynchronises, the skip finds the next `---`, and the iterator goes on
//! yielding documents after a syntax error. With the same tag in front of a mapping value the
//! iterator ends. Whichever class the error is put in, one of the two outcomes breaks C11.

use serde_json::Value;

/// Drive the iterator with a bounded step counter; (is_parser_error, first line of message).
fn run(stream: &str) -> Vec<Result<Value, (bool, String)>> {
    let mut reader = std::io::Cursor::new(stream.as_bytes().to_vec());
    let mut out = Vec::new();
    for (i, item) in serde_saphyr::read::<_, Value>(&mut reader).enumerate() {
        out.push(item.map_err(|e| {
            let from_parser = matches!(
                e.without_snippet(),
                serde_saphyr::Error::ExternalMessage { .. }
            );
            (from_parser, e.to_string().lines().next().unwrap_or("").to_string())
        }));
        assert!(i < 100, "iterator does not terminate");
    }
    out
}

#[test]
fn iterator_ends_after_syntax_error_undeclared_tag_handle_before_nested_sequence() {
    // doc 1 declares !e! and uses it: fine. A %TAG directive holds for one document only, so in
    // doc 2 the handle is undeclared: the parser reports "the handle wasn't declared".
    // doc 3 is well-formed; after a syntax error it must not be yielded any more.
    let stream = "%TAG !e! tag:example.com,2000:\n---\n- !e!x\n  - 1\n---\n- !e!x\n  - 1\n  - 2\n---\nok: 3\n";

    // The batch function agrees that this is an error of the stream.
    let batch = serde_saphyr::from_multiple::<Value>(stream);
    assert!(batch.is_err(), "batch: {batch:?}");

    let items = run(stream);
    println!("items: {items:#?}");
    assert!(items[0].is_ok(), "doc 1 is fine: {:?}", items[0]);
    match &items[1] {
        Err((from_parser, msg)) => {
            assert!(*from_parser, "doc 2 fails with an error of the YAML parser: {msg}");
            assert!(msg.contains("handle wasn't declared"), "{msg}");
        }
        other => panic!("doc 2 must fail: {other:?}"),
    }
    assert_eq!(
        items.len(),
        2,
        "expected: the iterator ends after the syntax error in document 2 (2 items); \
         actual: {} items, it went on with {:?}",
        items.len(),
        &items[2..]
    );
}

#[test]
fn the_same_syntax_error_has_the_same_consequence_wherever_it_stands() {
    // Identical error, identical following documents; only the place of the tagged node differs.
    let as_mapping_value = run("k: !e!x\n  - 1\n---\nok: 2\n---\nok: 3\n");
    let as_sequence_entry = run("- !e!x\n  - 1\n---\nok: 2\n---\nok: 3\n");
    println!("mapping value : {as_mapping_value:?}");
    println!("sequence entry: {as_sequence_entry:?}");
    for r in [&as_mapping_value, &as_sequence_entry] {
        assert!(
            matches!(&r[0], Err((true, m)) if m.contains("handle wasn't declared")),
            "{r:?}"
        );
    }
    assert_eq!(
        as_mapping_value.len(),
        as_sequence_entry.len(),
        "expected: both streams end after the syntax error (1 item each); actual: \
         mapping value -> {as_mapping_value:?}, sequence entry -> {as_sequence_entry:?}"
    );
}
