//! C11, clause "the streaming iterator yields the same items as the batch function when no
//! document fails".
//!
//! A tag that consists of a handle only (`!!` or `!e!` with nothing behind it) is accepted when
//! the stream is read from a string (`from_multiple`, `from_slice_multiple`) and is a syntax
//! error when the same bytes come from a reader (`read`, `read_with_options`): the two entry
//! points sit on two different tag scanners of the parser (the borrowing one for `StrInput`
//! lacks the "did not find expected tag URI" check of the owning one used for readers).

use serde_json::Value;

fn iterate(stream: &str) -> Vec<Result<Value, String>> {
    let mut reader = std::io::Cursor::new(stream.as_bytes().to_vec());
    let mut out = Vec::new();
    for (i, item) in serde_saphyr::read::<_, Value>(&mut reader).enumerate() {
        out.push(item.map_err(|e| e.to_string().lines().next().unwrap_or("").to_string()));
        assert!(i < 100, "iterator does not terminate");
    }
    out
}

fn check(stream: &str) {
    let batch = serde_saphyr::from_multiple::<Value>(stream);
    let from_slice = serde_saphyr::from_slice_multiple::<Value>(stream.as_bytes());
    let actual = iterate(stream);
    println!("stream   {stream:?}\nbatch    {batch:?}\niterator {actual:?}");
    match (batch, from_slice) {
        (Ok(batch), Ok(from_slice)) => {
            // No document fails in the batch function: the iterator yields the same items.
            assert_eq!(batch, from_slice);
            let expected: Vec<Result<Value, String>> = batch.into_iter().map(Ok).collect();
            assert_eq!(
                actual, expected,
                "stream {stream:?}: expected the iterator to yield what the batch function returns"
            );
        }
        (batch, from_slice) => {
            // (what a repair that makes the string path as strict as the reader path leads to)
            assert!(batch.is_err() && from_slice.is_err());
            assert!(
                actual.iter().any(|r| r.is_err()),
                "stream {stream:?}: the batch function fails, the iterator yields only values: {actual:?}"
            );
        }
    }
}

#[test]
fn secondary_handle_without_suffix() {
    // batch: [{"a": 1}, {"k": "v"}, {"z": 3}]
    check("a: 1\n---\nk: !! v\n---\nz: 3\n");
}

#[test]
fn named_handle_without_suffix() {
    check("a: 1\n...\n%TAG !e! tag:example.com,2000:\n---\nk: !e! v\n---\nz: 3\n");
}

#[test]
fn bare_secondary_handle_document() {
    // batch: [null] (an explicitly tagged empty document is not skipped)
    check("--- !!\n");
}
