//! C11: a NUL character anywhere in the input is taken for the end of the stream. Everything
//! behind it - further documents included - is dropped without any error: the single-document
//! entry points accept a stream in which a second document follows, the batch function and the
//! iterator return a shortened list.

use std::io::Cursor;

fn first_line(e: serde_saphyr::Error) -> String {
    e.to_string().lines().next().unwrap_or("").to_string()
}

fn iterate(stream: &[u8]) -> Vec<Result<i64, String>> {
    let mut reader = Cursor::new(stream.to_vec());
    let mut out = Vec::new();
    for item in serde_saphyr::read::<_, i64>(&mut reader) {
        out.push(item.map_err(first_line));
        assert!(out.len() <= 10, "iterator does not end");
    }
    out
}

#[test]
fn single_document_entry_points_reject_a_second_document_behind_a_nul() {
    // Without the NUL all of them say "multiple YAML documents detected".
    let clean = "1\n--- 2\n";
    assert!(serde_saphyr::from_str::<i64>(clean).is_err());

    let input = "1\n\0--- 2\n";
    let r = serde_saphyr::from_str::<i64>(input).map_err(first_line);
    assert!(r.is_err(), "from_str({input:?}): expected Err (a second document follows / invalid character), actual {r:?}");
}

#[test]
fn from_reader_rejects_a_second_document_behind_a_nul() {
    let input = "1\n\0--- 2\n";
    let r = serde_saphyr::from_reader::<_, i64>(Cursor::new(input.as_bytes().to_vec())).map_err(first_line);
    assert!(r.is_err(), "from_reader({input:?}): expected Err, actual {r:?}");
}

#[test]
fn from_slice_and_closure_entry_points_reject_a_second_document_behind_a_nul() {
    let input = "k: 1 # comment\0\n--- 2\n";
    let r = serde_saphyr::from_slice::<serde_json::Value>(input.as_bytes()).map_err(first_line);
    assert!(r.is_err(), "from_slice({input:?}): expected Err, actual {r:?}");
    let r = serde_saphyr::with_deserializer_from_str(input, |de| {
        <serde_json::Value as serde::Deserialize>::deserialize(de)
    })
    .map_err(first_line);
    assert!(r.is_err(), "with_deserializer_from_str({input:?}): expected Err, actual {r:?}");
}

#[test]
fn batch_function_does_not_drop_the_documents_behind_a_nul() {
    let input = "--- 1\n\0--- 2\n--- 3\n";
    let r = serde_saphyr::from_multiple::<i64>(input).map_err(first_line);
    // Either the NUL is an error, or it is content / white space and three documents are read.
    let acceptable = match &r {
        Err(_) => true,
        Ok(v) => v.len() == 3,
    };
    assert!(acceptable, "from_multiple({input:?}): expected Err or [1, 2, 3], actual {r:?}");
}

#[test]
fn iterator_does_not_end_silently_at_a_nul() {
    let input = "--- 1\n\0--- 2\n--- 3\n";
    let items = iterate(input.as_bytes());
    let acceptable = items.iter().any(|r| r.is_err()) || items.len() == 3;
    assert!(acceptable, "read({input:?}): expected an Err item or three items, actual {items:?}");
}

#[test]
fn utf16_without_byte_order_mark_is_not_read_as_its_first_character() {
    // "a: 1\n---\nb: 2\n" in UTF-16LE without a byte-order mark: 'a', NUL, ':', NUL, ...
    let text = "a: 1\n---\nb: 2\n";
    let bytes: Vec<u8> = text.encode_utf16().flat_map(|u| u.to_le_bytes()).collect();
    let r = serde_saphyr::from_reader::<_, serde_json::Value>(Cursor::new(bytes)).map_err(first_line);
    assert!(r.is_err(), "from_reader(UTF-16LE without BOM): expected Err, actual {r:?}");
}
