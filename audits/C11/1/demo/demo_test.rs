//! C11 finding 1: an enum variant that is named by a bare scalar document and has a payload
//! (newtype / tuple / struct variant) takes its payload from the NEXT document of the stream.

use serde::Deserialize;

#[derive(Debug, Deserialize, PartialEq)]
enum Cmd {
    Stop,
    Wait(Option<u32>),
    Go(i32),
    Move { x: i32 },
    Pair(i32, i32),
}

fn show<T: std::fmt::Debug>(r: &Result<T, serde_saphyr::Error>) -> String {
    match r {
        Ok(v) => format!("Ok({v:?})"),
        Err(e) => format!("Err({})", e.to_string().lines().next().unwrap_or("")),
    }
}

fn iter_items(stream: &str) -> Vec<Result<Cmd, serde_saphyr::Error>> {
    let mut reader = std::io::Cursor::new(stream.as_bytes().to_vec());
    let mut out = Vec::new();
    for (i, item) in serde_saphyr::read::<_, Cmd>(&mut reader).enumerate() {
        out.push(item);
        assert!(i < 50, "iterator does not terminate");
    }
    out
}

/// Each document on its own: `Wait` is `Wait(None)`, `5` is not a `Cmd`.
/// So the stream [`Wait`, `5`] has a failing second document; the batch must fail and must
/// certainly not glue the two documents into one value.
#[test]
fn batch_must_not_take_the_payload_from_the_next_document() {
    assert_eq!(
        serde_saphyr::from_str::<Cmd>("--- Wait\n").unwrap(),
        Cmd::Wait(None),
        "premise: the document `Wait` on its own"
    );
    assert!(
        serde_saphyr::from_str::<Cmd>("--- 5\n").is_err(),
        "premise: the document `5` on its own is not a Cmd"
    );

    let got = serde_saphyr::from_multiple::<Cmd>("--- Wait\n--- 5\n");
    assert!(
        got.is_err(),
        "expected: Err (document 2 `5` is not a Cmd; document 1 is Wait(None)); actual: {}",
        show(&got)
    );
}

/// A single-document entry point must reject a stream with a second document.
#[test]
fn single_document_entry_points_must_reject_the_second_document() {
    let stream = "--- Wait\n--- 5\n";
    let got = serde_saphyr::from_str::<Cmd>(stream);
    assert!(
        got.is_err(),
        "from_str: expected Err(multiple documents); actual: {}",
        show(&got)
    );
    let got = serde_saphyr::from_reader::<_, Cmd>(std::io::Cursor::new(stream.as_bytes()));
    assert!(
        got.is_err(),
        "from_reader: expected Err(multiple documents); actual: {}",
        show(&got)
    );
    // struct variant / tuple variant: the same
    let got = serde_saphyr::from_str::<Cmd>("--- Move\n--- {x: 1}\n");
    assert!(
        got.is_err(),
        "from_str(Move / {{x: 1}}): expected Err; actual: {}",
        show(&got)
    );
    let got = serde_saphyr::from_str::<Cmd>("--- Pair\n--- [1, 2]\n");
    assert!(
        got.is_err(),
        "from_str(Pair / [1, 2]): expected Err; actual: {}",
        show(&got)
    );
}

/// No document fails: [`Wait`, `Stop`] is [Wait(None), Stop], document by document.
#[test]
fn stream_of_two_good_documents() {
    assert_eq!(serde_saphyr::from_str::<Cmd>("--- Wait\n").unwrap(), Cmd::Wait(None));
    assert_eq!(serde_saphyr::from_str::<Cmd>("--- Stop\n").unwrap(), Cmd::Stop);

    let stream = "--- Wait\n--- Stop\n";
    let batch = serde_saphyr::from_multiple::<Cmd>(stream);
    assert_eq!(
        show(&batch),
        "Ok([Wait(None), Stop])",
        "from_multiple: expected the list of the documents, each on its own"
    );
}

/// Iterator: [`Go`, `7`, `Stop`]: `Go` alone fails (no payload), `7` alone fails (not a Cmd),
/// `Stop` is fine: three items, Err, Err, Ok(Stop). Actual: Ok(Go(7)), Ok(Stop).
#[test]
fn iterator_items_are_the_documents_one_by_one() {
    assert!(serde_saphyr::from_str::<Cmd>("--- Go\n").is_err(), "premise: `Go` alone has no payload");
    assert!(serde_saphyr::from_str::<Cmd>("--- 7\n").is_err(), "premise: `7` alone is not a Cmd");

    let items = iter_items("--- Go\n--- 7\n--- Stop\n");
    let shown: Vec<String> = items.iter().map(show).collect();
    assert!(
        items.len() == 3 && items[0].is_err() && items[1].is_err() && items[2].as_ref().ok() == Some(&Cmd::Stop),
        "expected [Err(..), Err(..), Ok(Stop)]; actual {shown:?}"
    );
}
