//! C07, per-document enforcement (streaming iterator): a document that is within every limit is
//! never delivered when the document in front of it exceeds a limit with its *root* event.
//!
//! The same excess one level further down (`["aaaa"]` instead of `"aaaa"`) fails that document
//! only and the following document is delivered, so whether document 2 is accepted depends on
//! what was read before it, not on its own quantities.

use serde_saphyr::budget::BudgetBreach;
use serde_saphyr::{Budget, Error, Options};

fn unlimited() -> Budget {
    Budget {
        max_reader_input_bytes: None,
        max_events: usize::MAX,
        max_aliases: usize::MAX,
        max_anchors: usize::MAX,
        max_depth: usize::MAX,
        max_documents: usize::MAX,
        max_nodes: usize::MAX,
        max_total_scalar_bytes: usize::MAX,
        max_merge_keys: usize::MAX,
        enforce_alias_anchor_ratio: false,
        alias_anchor_min_aliases: usize::MAX,
        alias_anchor_ratio_multiplier: usize::MAX,
    }
}

/// Runs the streaming iterator and renders every item as "ok" / "budget:<kind>" / "other".
fn run(stream: &str, budget: Budget) -> Vec<String> {
    let mut options = Options::default();
    options.budget = Some(budget);
    let mut reader = std::io::Cursor::new(stream.as_bytes().to_vec());
    let mut out = Vec::new();
    for (n, item) in
        serde_saphyr::read_with_options::<_, serde::de::IgnoredAny>(&mut reader, options).enumerate()
    {
        out.push(match item {
            Ok(_) => "ok".to_string(),
            Err(e) => match e.without_snippet() {
                Error::Budget { breach, .. } => match breach {
                    BudgetBreach::ScalarBytes { .. } => "budget:ScalarBytes".to_string(),
                    BudgetBreach::Depth { .. } => "budget:Depth".to_string(),
                    BudgetBreach::Anchors { .. } => "budget:Anchors".to_string(),
                    other => format!("budget:{other:?}"),
                },
                other => format!("other: {other}"),
            },
        });
        assert!(n < 20, "iterator does not end");
    }
    out
}

#[test]
fn scalar_bytes_root_scalar_over_limit_then_small_document() {
    let budget = || Budget {
        max_total_scalar_bytes: 2,
        ..unlimited()
    };
    // document 2 alone: accepted
    assert_eq!(run("b\n", budget()), ["ok"], "document 2 alone");
    // reference: the excess sits one level below the root: document 1 fails, document 2 is delivered
    assert_eq!(
        run("[\"aaaa\"]\n---\nb\n", budget()),
        ["budget:ScalarBytes", "ok"],
        "excess below the root"
    );
    // the excess is the root scalar itself
    assert_eq!(
        run("\"aaaa\"\n---\nb\n", budget()),
        ["budget:ScalarBytes", "ok"],
        "expected: document 1 fails with its budget error, document 2 (1 scalar byte, limit 2) is \
         delivered; actual: the iterator ends after document 1"
    );
}

#[test]
fn depth_root_container_over_limit_then_scalar_document() {
    let budget = || Budget {
        max_depth: 1,
        ..unlimited()
    };
    assert_eq!(run("[b]\n", budget()), ["ok"], "document 3 alone");
    // reference: depth 2 is reached inside document 1
    assert_eq!(
        run("[[x]]\n---\n[b]\n", budget()),
        ["budget:Depth", "ok"],
        "excess below the root"
    );
    let budget0 = || Budget {
        max_depth: 0,
        ..unlimited()
    };
    assert_eq!(run("b\n", budget0()), ["ok"], "scalar document alone, max_depth 0");
    assert_eq!(
        run("a\n---\n[x]\n---\nb\n---\nc\n", budget0()),
        ["ok", "budget:Depth", "ok", "ok"],
        "expected: only document 2 (depth 1 > 0) fails; actual: documents 3 and 4 (depth 0) are \
         never delivered"
    );
}

#[test]
fn anchors_root_anchor_over_limit_then_plain_document() {
    let budget = || Budget {
        max_anchors: 0,
        ..unlimited()
    };
    assert_eq!(
        run("[&a x]\n---\nb\n", budget()),
        ["budget:Anchors", "ok"],
        "excess below the root"
    );
    assert_eq!(
        run("&a x\n---\nb\n", budget()),
        ["budget:Anchors", "ok"],
        "expected: document 2 (no anchors) is delivered; actual: the iterator ends after document 1"
    );
}
