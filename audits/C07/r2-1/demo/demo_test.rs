//! C07 audit, finding 1: a target type that reads nothing (`Deserialize` returns without touching
//! the deserializer) makes the multi-document entry points step over its document with
//! `LiveEvents::skip_to_next_document`, which pulls the raw parser events WITHOUT showing them to
//! the budget. Only the first event of every document (the one `peek()` fetched) is counted, and
//! under the whole-input policy the container it opened is never closed for the enforcer, so the
//! nesting depth drifts upwards by one per document.
//!
//! Run: cargo test --offline --test demo_test

use serde::de::{Deserialize, Deserializer, IgnoredAny};
use serde_saphyr::budget::{BudgetBreach, BudgetReport};
use serde_saphyr::{Budget, Error, Options};
use std::cell::RefCell;
use std::rc::Rc;

/// A target that is satisfied with the mere presence of a document.
#[derive(Debug)]
struct Noop;
impl<'de> Deserialize<'de> for Noop {
    fn deserialize<D: Deserializer<'de>>(_d: D) -> Result<Self, D::Error> {
        Ok(Noop)
    }
}

fn unlimited() -> Budget {
    Budget {
        max_reader_input_bytes: None,
        max_events: usize::MAX,
        max_aliases: usize::MAX,
        max_anchors: usize::MAX,
        max_depth: usize::MAX,
        max_documents: usize::MAX,
        max_nodes: usize::MAX,
        max_total_scalar_bytes: usize::MAX,
        max_merge_keys: usize::MAX,
        enforce_alias_anchor_ratio: false,
        alias_anchor_min_aliases: usize::MAX,
        alias_anchor_ratio_multiplier: usize::MAX,
    }
}

fn opts(b: Budget) -> (Options, Rc<RefCell<Option<BudgetReport>>>) {
    let cell = Rc::new(RefCell::new(None));
    let c2 = cell.clone();
    let o = Options {
        budget: Some(b),
        ..Options::default()
    }
    .with_budget_report(move |r| {
        *c2.borrow_mut() = Some(r);
    });
    (o, cell)
}

fn breach(e: &Error) -> Option<&BudgetBreach> {
    match e.without_snippet() {
        Error::Budget { breach, .. } => Some(breach),
        _ => None,
    }
}

/// Three documents, each `[1]`: raw parser events
///   StreamStart, 3 x (DocumentStart, SequenceStart, Scalar, SequenceEnd, DocumentEnd), StreamEnd
/// = 17 events, 6 nodes, nesting depth 1, 3 scalar bytes, 3 documents.
const STREAM: &str = "[1]\n---\n[1]\n---\n[1]\n";

#[test]
fn control_a_reading_target_sees_the_real_usage() {
    let (o, rep) = opts(unlimited());
    let v: Vec<IgnoredAny> = serde_saphyr::from_multiple_with_options(STREAM, o).unwrap();
    assert_eq!(v.len(), 3);
    let r = rep.borrow().clone().expect("report callback");
    assert_eq!(
        (r.events, r.nodes, r.max_depth, r.total_scalar_bytes, r.documents),
        (17, 6, 1, 3, 3)
    );
}

/// Clause: "never rejects an input all of whose quantities are within the limits".
#[test]
fn whole_input_policy_rejects_depth_1_stream_under_max_depth_2() {
    let mut b = unlimited();
    b.max_depth = 2; // the real nesting depth of the input is 1
    let (o, _rep) = opts(b);
    let r: Result<Vec<Noop>, Error> = serde_saphyr::from_multiple_with_options(STREAM, o);
    assert!(
        r.is_ok(),
        "expected: Ok (nesting depth of the input is 1, limit is 2); actual: {:?}",
        r.as_ref().err().map(|e| e.without_snippet())
    );
}

/// Clause: "deserialization succeeds only if every counted quantity of the input is within its limit".
#[test]
fn whole_input_policy_accepts_6_nodes_under_max_nodes_3() {
    let mut b = unlimited();
    b.max_nodes = 3; // the input has 6 nodes
    let (o, rep) = opts(b);
    let r: Result<Vec<Noop>, Error> = serde_saphyr::from_multiple_with_options(STREAM, o);
    match &r {
        Err(e) => assert!(
            matches!(breach(e), Some(BudgetBreach::Nodes { .. })),
            "expected a Nodes breach, got {:?}",
            e.without_snippet()
        ),
        Ok(v) => panic!(
            "expected: Err(Budget Nodes) - the input has 6 nodes, max_nodes is 3; actual: Ok with {} values, report {:?}",
            v.len(),
            rep.borrow()
        ),
    }
}

/// Clause: "deserialization succeeds only if ... documents ... is within its limit" (the breach
/// raised by the third DocumentStart is discarded with `let _ =` in skip_to_next_document).
#[test]
fn whole_input_policy_accepts_3_documents_under_max_documents_2() {
    let mut b = unlimited();
    b.max_documents = 2;
    let (o, rep) = opts(b);
    let r: Result<Vec<Noop>, Error> = serde_saphyr::from_multiple_with_options(STREAM, o);
    match &r {
        Err(e) => assert!(
            matches!(breach(e), Some(BudgetBreach::Documents { .. })),
            "expected a Documents breach, got {:?}",
            e.without_snippet()
        ),
        Ok(v) => panic!(
            "expected: Err(Budget Documents) - 3 documents, max_documents is 2; actual: Ok with {} values, report {:?}",
            v.len(),
            rep.borrow()
        ),
    }
}

/// Clause: "the usage report handed to the callback equals an independent count of the parser's
/// event stream".
#[test]
fn whole_input_policy_report_is_not_the_count_of_the_event_stream() {
    let (o, rep) = opts(unlimited());
    let v: Vec<Noop> = serde_saphyr::from_multiple_with_options(STREAM, o).unwrap();
    assert_eq!(v.len(), 3);
    let r = rep.borrow().clone().expect("report callback");
    assert_eq!(
        (r.events, r.nodes, r.max_depth, r.total_scalar_bytes, r.documents),
        (17, 6, 1, 3, 3),
        "expected (events, nodes, max_depth, scalar bytes, documents) = (17, 6, 1, 3, 3) as counted \
         from the parser's events; actual report: {r:?}"
    );
}

/// Same hole under per-document enforcement (streaming iterator): a document with 4 nodes is
/// accepted although max_nodes is 1.
#[test]
fn per_document_policy_accepts_4_nodes_under_max_nodes_1() {
    let y = "[1, 2, 3]\n";
    // control: a reading target is refused
    let mut b = unlimited();
    b.max_nodes = 1;
    let (o, _) = opts(b.clone());
    let mut rd = y.as_bytes();
    let control: Vec<Result<IgnoredAny, Error>> =
        serde_saphyr::read_with_options(&mut rd, o).collect();
    assert!(
        control.iter().any(|r| matches!(r, Err(e) if matches!(breach(e), Some(BudgetBreach::Nodes { .. })))),
        "control: expected a Nodes breach for a reading target"
    );

    let (o, rep) = opts(b);
    let mut rd = y.as_bytes();
    let res: Vec<Result<Noop, Error>> = serde_saphyr::read_with_options(&mut rd, o).collect();
    let refused = res
        .iter()
        .any(|r| matches!(r, Err(e) if matches!(breach(e), Some(BudgetBreach::Nodes { .. }))));
    assert!(
        refused,
        "expected: the document (4 nodes) is refused with a Nodes breach under max_nodes = 1; \
         actual items: {:?}, report {:?}",
        res.iter().map(|r| r.is_ok()).collect::<Vec<_>>(),
        rep.borrow()
    );
}
