//! C07 finding 3: a TAGGED `<<` key (`!!str <<`) is an ordinary string key - neither the budget
//! (for the raw parser event) nor the deserializer treat it as a merge key. But when such a scalar
//! is REPLAYED through an alias, `observe_budget_for_replay` rebuilds the event without its tag,
//! so the budget counts it as a merge key: the report over-counts `merge_keys` and a document
//! without any merge key is rejected by `max_merge_keys`.

use serde_saphyr::budget::BudgetReport;
use serde_saphyr::{Budget, Options};
use std::cell::RefCell;
use std::rc::Rc;

fn run(yaml: &str, max_merge_keys: usize) -> (Result<serde_json::Value, String>, Vec<BudgetReport>) {
    let reports: Rc<RefCell<Vec<BudgetReport>>> = Rc::default();
    let sink = reports.clone();
    let options = Options {
        budget: Some(Budget {
            max_merge_keys,
            ..Budget::default()
        }),
        ..Options::default()
    }
    .with_budget_report(move |r| sink.borrow_mut().push(r));
    let res = serde_saphyr::from_str_with_options::<serde_json::Value>(yaml, options)
        .map_err(|e| e.to_string());
    let reports = reports.borrow().clone();
    (res, reports)
}

// the tagged key written directly: not a merge key (this is what the crate does, and it is right)
const DIRECT: &str = "a: {!!str << : 1}\nb: {!!str << : 1}\n";
// the same mapping reached through an alias
const VIA_MAPPING_ALIAS: &str = "a: &m {!!str << : 1}\nb: *m\n";
// the tagged scalar itself reached through an alias in key position
const VIA_KEY_ALIAS: &str = "- &k !!str <<\n- {*k : 1}\n";

#[test]
fn report_counts_no_merge_key_for_replayed_tagged_key() {
    let (res, reports) = run(DIRECT, usize::MAX);
    assert_eq!(res.unwrap(), serde_json::json!({"a": {"<<": 1}, "b": {"<<": 1}}));
    assert_eq!(reports[0].merge_keys, 0, "direct form");

    let (res, reports) = run(VIA_MAPPING_ALIAS, usize::MAX);
    // the deserializer agrees that there is no merge: `<<` stays an ordinary key
    assert_eq!(res.unwrap(), serde_json::json!({"a": {"<<": 1}, "b": {"<<": 1}}));
    assert_eq!(
        reports[0].merge_keys, 0,
        "aliased mapping: expected merge_keys 0 (no untagged `<<` key in the event stream or in \
         the replayed events), report says {}",
        reports[0].merge_keys
    );
}

#[test]
fn document_without_merge_keys_is_accepted_with_max_merge_keys_zero() {
    let (res, _) = run(DIRECT, 0);
    assert!(res.is_ok(), "direct form expected Ok, got {res:?}");

    let (res, _) = run(VIA_MAPPING_ALIAS, 0);
    assert!(
        res.is_ok(),
        "aliased mapping: expected Ok (the input has 0 merge keys, limit 0), got {res:?}"
    );
}

#[test]
fn tagged_scalar_replayed_in_key_position() {
    let (res, reports) = run(VIA_KEY_ALIAS, usize::MAX);
    assert_eq!(res.unwrap(), serde_json::json!(["<<", {"<<": 1}]));
    assert_eq!(
        reports[0].merge_keys, 0,
        "alias key: expected merge_keys 0, report says {}",
        reports[0].merge_keys
    );
}
