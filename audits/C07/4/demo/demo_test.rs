//! C07 finding 4: an alias to an anchor that is still being deserialized (recursive structures,
//! `RcRecursive` / `RcRecursion`) is answered with a synthetic scalar that the budget never
//! sees, while the `Alias` event itself does not advance the budget's key/value bookkeeping
//! (`aliases_expanded`). After `k3: *a` the enforcer therefore believes it is still waiting for
//! the VALUE of `k3`, takes the following `<<` key for a value, and does not count the merge key.
//! `max_merge_keys` is not enforced and the report under-counts, depending only on key order.

use serde::Deserialize;
use serde_saphyr::budget::BudgetReport;
use serde_saphyr::{Budget, Options, RcRecursion, RcRecursive};
use std::cell::RefCell;
use std::rc::Rc;

#[derive(Deserialize, Debug)]
#[allow(dead_code)]
struct Foo {
    k1: String,
    k2: String,
    k3: RcRecursion<Foo>,
}

#[derive(Deserialize, Debug)]
#[allow(dead_code)]
struct Outer {
    foo: RcRecursive<Foo>,
}

fn run(yaml: &str, max_merge_keys: usize) -> (Result<(), String>, Vec<BudgetReport>) {
    let reports: Rc<RefCell<Vec<BudgetReport>>> = Rc::default();
    let sink = reports.clone();
    let options = Options {
        budget: Some(Budget {
            max_merge_keys,
            ..Budget::default()
        }),
        ..Options::default()
    }
    .with_budget_report(move |r| sink.borrow_mut().push(r));
    let res = serde_saphyr::from_str_with_options::<Outer>(yaml, options)
        .map(|outer| {
            // the merge really happened: k1 / k2 come from the merged mapping
            assert_eq!(outer.foo.borrow().k1, "One");
            assert_eq!(outer.foo.borrow().k2, "Two");
        })
        .map_err(|e| e.to_string());
    let reports = reports.borrow().clone();
    (res, reports)
}

const MERGE_FIRST: &str = "foo: &a\n  <<: {k1: One, k2: Two}\n  k3: *a\n";
const MERGE_AFTER_RECURSIVE_ALIAS: &str = "foo: &a\n  k3: *a\n  <<: {k1: One, k2: Two}\n";

#[test]
fn report_counts_the_merge_key_after_a_recursive_alias() {
    let (res, reports) = run(MERGE_FIRST, usize::MAX);
    res.unwrap();
    assert_eq!(reports[0].merge_keys, 1, "merge key first (control)");

    let (res, reports) = run(MERGE_AFTER_RECURSIVE_ALIAS, usize::MAX);
    res.unwrap();
    assert_eq!(
        reports[0].merge_keys, 1,
        "merge key after `k3: *a`: expected merge_keys 1 (one untagged plain `<<` in key \
         position), report says {}",
        reports[0].merge_keys
    );
}

#[test]
fn max_merge_keys_zero_rejects_the_merge_key_after_a_recursive_alias() {
    let (res, _) = run(MERGE_FIRST, 0);
    assert!(
        matches!(&res, Err(e) if e.contains("MergeKeys")),
        "control: expected MergeKeys breach, got {res:?}"
    );

    let (res, _) = run(MERGE_AFTER_RECURSIVE_ALIAS, 0);
    assert!(
        matches!(&res, Err(e) if e.contains("MergeKeys")),
        "expected `budget breached: MergeKeys {{ merge_keys: 1 }}` (1 merge key > limit 0), got {res:?}"
    );
}
