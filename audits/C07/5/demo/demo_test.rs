//! C07 finding 5: the report handed to the callback after a budget breach says `breached: None`
//! ("all budgets were respected"), although deserialization failed with that very breach.
//! `LiveEvents::finish` always goes through `BudgetEnforcer::finalize`, which only ever fills
//! `breached` for the alias/anchor ratio; the breach returned by `observe` is never stored.

use serde_saphyr::budget::BudgetReport;
use serde_saphyr::{Budget, Options};
use std::cell::RefCell;
use std::rc::Rc;

#[test]
fn report_after_a_breach_names_the_breach() {
    let reports: Rc<RefCell<Vec<BudgetReport>>> = Rc::default();
    let sink = reports.clone();
    let options = Options {
        budget: Some(Budget {
            max_depth: 0,
            ..Budget::default()
        }),
        ..Options::default()
    }
    .with_budget_report(move |r| sink.borrow_mut().push(r));

    let mut reader = std::io::Cursor::new(b"a: 1\n".to_vec());
    let items: Vec<Result<serde_json::Value, String>> =
        serde_saphyr::read_with_options::<_, serde_json::Value>(&mut reader, options)
            .map(|r| r.map_err(|e| e.to_string()))
            .collect();

    // the limit is enforced: depth 1 > max_depth 0
    assert_eq!(items.len(), 1, "{items:?}");
    assert!(
        matches!(&items[0], Err(e) if e.contains("Depth { depth: 1 }")),
        "expected a Depth breach, got {items:?}"
    );

    let reports = reports.borrow();
    assert_eq!(reports.len(), 1, "the callback is invoked once: {reports:?}");
    assert_eq!(reports[0].max_depth, 1);
    assert!(
        reports[0].breached.is_some(),
        "expected report.breached == Some(Depth {{ depth: 1 }}) (max_depth 1 > limit 0 and the \
         call failed with that breach), but the report handed to the callback says breached: {:?}; \
         full report: {:?}",
        reports[0].breached,
        reports[0]
    );
}
