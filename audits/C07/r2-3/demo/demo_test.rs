//! C07 audit, finding 3: under per-document enforcement (the streaming iterator) the usage report
//! handed to the callback always says `documents: 0`, whatever the stream contains. The
//! enforcer returns early for `DocumentStart` when the policy is `PerDocument` and never counts
//! the document (`BudgetReport::reset` deliberately keeps the document count across documents, so
//! the field was meant to keep counting). An independent count of the `DocumentStart` events of
//! the parser gives 3 for the stream below (and 1 for each single document); `from_multiple`
//! reports 3 for the very same input.
//!
//! Run: cargo test --offline --test demo_test

use serde::de::IgnoredAny;
use serde_saphyr::budget::BudgetReport;
use serde_saphyr::{Error, Options};
use std::cell::RefCell;
use std::rc::Rc;

fn opts() -> (Options, Rc<RefCell<Option<BudgetReport>>>) {
    let cell = Rc::new(RefCell::new(None));
    let c2 = cell.clone();
    let o = Options::default().with_budget_report(move |r| {
        *c2.borrow_mut() = Some(r);
    });
    (o, cell)
}

const STREAM: &str = "a: 1\n---\n[x, y]\n---\nlast\n";

#[test]
fn control_whole_input_policy_counts_three_documents() {
    let (o, rep) = opts();
    let v: Vec<IgnoredAny> = serde_saphyr::from_multiple_with_options(STREAM, o).unwrap();
    assert_eq!(v.len(), 3);
    assert_eq!(rep.borrow().as_ref().expect("report").documents, 3);
}

#[test]
fn streaming_iterator_reports_zero_documents() {
    let (o, rep) = opts();
    let mut rd = STREAM.as_bytes();
    let items: Vec<Result<IgnoredAny, Error>> =
        serde_saphyr::read_with_options(&mut rd, o).collect();
    assert_eq!(items.len(), 3);
    assert!(items.iter().all(|r| r.is_ok()));
    let report = rep.borrow().clone().expect("report callback invoked at the end of the stream");
    // The other fields describe the last document (`last`: 1 event, 1 node, 4 scalar bytes) ...
    assert_eq!((report.events, report.nodes, report.total_scalar_bytes), (1, 1, 4));
    // ... but the document count is neither the 3 documents of the stream nor the 1 of the last
    // document.
    assert!(
        report.documents == 3 || report.documents == 1,
        "expected: documents = 3 (DocumentStart events of the stream; what `reset` preserves) or \
         at least 1 (the document the other fields describe); actual: documents = {} in {report:?}",
        report.documents
    );
}

#[test]
fn single_document_stream_reports_zero_documents() {
    let (o, rep) = opts();
    let mut rd = "k: v\n".as_bytes();
    let items: Vec<Result<IgnoredAny, Error>> =
        serde_saphyr::read_with_options(&mut rd, o).collect();
    assert_eq!(items.len(), 1);
    let report = rep.borrow().clone().expect("report callback");
    assert_eq!(
        report.documents, 1,
        "expected: documents = 1 for a stream of one document; actual report: {report:?}"
    );
}
