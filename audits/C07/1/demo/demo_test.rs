//! C07 finding 1: `alias_anchor_min_aliases: 0` makes the alias/anchor ratio heuristic reject
//! every input that has no anchors at all (0 aliases, 0 anchors), although
//! `aliases > multiplier * anchors` (0 > 10 * 0) is false, i.e. every quantity is within limits.

use serde_saphyr::budget::{BudgetBreach, BudgetReport};
use serde_saphyr::{Budget, Options};
use std::cell::RefCell;
use std::rc::Rc;

fn run(yaml: &str, budget: Budget) -> (Result<serde_json::Value, String>, Vec<BudgetReport>) {
    let reports: Rc<RefCell<Vec<BudgetReport>>> = Rc::default();
    let sink = reports.clone();
    let options = Options {
        budget: Some(budget),
        ..Options::default()
    }
    .with_budget_report(move |r| sink.borrow_mut().push(r));
    let res = serde_saphyr::from_str_with_options::<serde_json::Value>(yaml, options)
        .map_err(|e| e.to_string());
    let reports = reports.borrow().clone();
    (res, reports)
}

#[test]
fn min_aliases_zero_must_not_reject_a_document_without_aliases() {
    // Default multiplier is 10; the documented breach condition is
    //   aliases >= alias_anchor_min_aliases  &&  aliases > multiplier * anchors
    let budget = Budget {
        alias_anchor_min_aliases: 0,
        ..Budget::default()
    };

    // control: one anchor, one alias: 1 > 10 * 1 is false -> accepted (this passes)
    let (res, _) = run("- &x 1\n- *x\n", budget.clone());
    assert!(res.is_ok(), "control (1 alias, 1 anchor) expected Ok, got {res:?}");
    // control: one anchor, no alias: 0 > 10 * 1 is false -> accepted (this passes)
    let (res, _) = run("a: &x 1\n", budget.clone());
    assert!(res.is_ok(), "control (0 aliases, 1 anchor) expected Ok, got {res:?}");

    // 0 aliases, 0 anchors: 0 > 10 * 0 is false -> must be accepted as well
    let (res, reports) = run("a: 1\n", budget);
    let breached = reports.first().and_then(|r| r.breached.clone());
    assert!(
        !matches!(breached, Some(BudgetBreach::AliasAnchorRatio { .. })),
        "report says the ratio was breached for a document with 0 aliases and 0 anchors: {breached:?}"
    );
    assert!(
        res.is_ok(),
        "expected Ok({{\"a\":1}}) (0 aliases is not more than 10 * 0 anchors), got {res:?}"
    );
}
