//! C07: for a recursive structure (`RcRecursive` / `RcRecursion`) the budget counts one event
//! and one node that are neither in the parser's event stream nor replayed from an anchor: the
//! stand-in scalar that answers an alias to the anchor under construction. The usage report is
//! one event / one node too high per such alias, and a document whose quantities are exactly
//! at the limits is rejected.

use std::cell::RefCell;
use std::rc::Rc;

use serde::Deserialize;
use serde_saphyr::budget::{BudgetBreach, BudgetReport, EnforcingPolicy, check_yaml_budget};
use serde_saphyr::{Budget, Error, Options, RcRecursion, RcRecursive};

#[derive(Deserialize)]
#[allow(dead_code)]
struct Foo {
    k1: String,
    k3: RcRecursion<Foo>,
}

#[derive(Deserialize)]
#[allow(dead_code)]
struct Outer {
    foo: RcRecursive<Foo>,
}

// parser events: StreamStart DocumentStart MappingStart "foo" MappingStart(&a) "k1" "One" "k3"
//                Alias(a) MappingEnd MappingEnd DocumentEnd StreamEnd            = 13 events
// nodes (MappingStart / SequenceStart / Scalar): 2 mappings + 4 scalars          = 6 nodes
// nothing is replayed: the alias refers to the anchor that is still being read.
const YAML: &str = "foo: &a\n  k1: One\n  k3: *a\n";
const EVENTS: usize = 13;
const NODES: usize = 6;

fn unlimited() -> Budget {
    Budget {
        max_reader_input_bytes: None,
        max_events: usize::MAX,
        max_aliases: usize::MAX,
        max_anchors: usize::MAX,
        max_depth: usize::MAX,
        max_documents: usize::MAX,
        max_nodes: usize::MAX,
        max_total_scalar_bytes: usize::MAX,
        max_merge_keys: usize::MAX,
        enforce_alias_anchor_ratio: false,
        alias_anchor_min_aliases: usize::MAX,
        alias_anchor_ratio_multiplier: usize::MAX,
    }
}

fn parse(budget: Budget) -> (Result<Outer, Error>, Option<BudgetReport>) {
    let sink: Rc<RefCell<Option<BudgetReport>>> = Rc::new(RefCell::new(None));
    let s = sink.clone();
    let mut options = Options::default();
    options.budget = Some(budget);
    let options = options.with_budget_report(move |r| *s.borrow_mut() = Some(r));
    let res = serde_saphyr::from_str_with_options::<Outer>(YAML, options);
    let rep = sink.borrow().clone();
    (res, rep)
}

#[test]
fn raw_event_stream_has_13_events_and_6_nodes() {
    // the crate's own counter over the raw parser events agrees with the count by hand
    let raw = check_yaml_budget(YAML, unlimited(), EnforcingPolicy::AllContent).unwrap();
    assert!(raw.breached.is_none());
    assert_eq!((raw.events, raw.nodes, raw.aliases), (EVENTS, NODES, 1));
}

#[test]
fn usage_report_equals_parser_events_plus_replayed_events() {
    let (res, rep) = parse(unlimited());
    assert!(res.is_ok(), "deserialization failed: {:?}", res.err());
    let rep = rep.expect("report callback not invoked");
    assert_eq!(
        (rep.events, rep.nodes),
        (EVENTS, NODES),
        "(events, nodes) of the usage report; expected the {EVENTS} parser events + 0 replayed \
         events and the {NODES} nodes of the document"
    );
}

#[test]
fn document_with_exactly_max_nodes_nodes_is_accepted() {
    let (res, _) = parse(Budget {
        max_nodes: NODES,
        ..unlimited()
    });
    match res {
        Ok(_) => {}
        Err(e) => match e.without_snippet() {
            Error::Budget {
                breach: BudgetBreach::Nodes { nodes },
                ..
            } => panic!(
                "the document has {NODES} nodes and max_nodes is {NODES}, expected: accepted; \
                 actual: rejected with BudgetBreach::Nodes {{ nodes: {nodes} }}"
            ),
            other => panic!("unexpected error: {other}"),
        },
    }
}

#[test]
fn document_with_exactly_max_events_events_is_accepted() {
    let (res, _) = parse(Budget {
        max_events: EVENTS,
        ..unlimited()
    });
    match res {
        Ok(_) => {}
        Err(e) => match e.without_snippet() {
            Error::Budget {
                breach: BudgetBreach::Events { events },
                ..
            } => panic!(
                "the parser emits {EVENTS} events, nothing is replayed and max_events is {EVENTS}, \
                 expected: accepted; actual: rejected with BudgetBreach::Events {{ events: {events} }}"
            ),
            other => panic!("unexpected error: {other}"),
        },
    }
}
