//! C07 finding 2: under per-document enforcement (`read_with_options`) the alias/anchor ratio is
//! evaluated only once, at the end of the stream, against the counters of the LAST document.
//! A document that exceeds the ratio is accepted silently when another document follows it, and
//! when it is the last one it is first yielded as `Ok(value)` and only then an error item follows.

use serde_saphyr::{Budget, Options};

fn verdicts(stream: &str, budget: &Budget) -> Vec<Result<serde_json::Value, String>> {
    let options = Options {
        budget: Some(budget.clone()),
        ..Options::default()
    };
    let mut reader = std::io::Cursor::new(stream.as_bytes().to_vec());
    serde_saphyr::read_with_options::<_, serde_json::Value>(&mut reader, options)
        .map(|r| r.map_err(|e| e.to_string()))
        .collect()
}

fn bad_doc() -> String {
    // 1 anchor, 12 aliases; with multiplier 2 and min_aliases 5 the ratio limit (2 * 1 = 2) is exceeded
    let mut doc = String::from("a: &x 1\n");
    for i in 0..12 {
        doc.push_str(&format!("k{i}: *x\n"));
    }
    doc
}

fn budget() -> Budget {
    Budget {
        alias_anchor_min_aliases: 5,
        alias_anchor_ratio_multiplier: 2,
        ..Budget::default()
    }
}

#[test]
fn ratio_breaching_document_followed_by_another_document_must_fail() {
    let stream = format!("{}---\nb: 2\n", bad_doc());
    let items = verdicts(&stream, &budget());
    // sanity: the very same document alone in a stream does produce the ratio error
    let alone = verdicts(&bad_doc(), &budget());
    assert!(
        alone.iter().any(|r| matches!(r, Err(e) if e.contains("AliasAnchorRatio"))),
        "sanity: the document alone should trip the ratio, got {alone:?}"
    );
    assert!(
        items.iter().any(|r| matches!(r, Err(e) if e.contains("AliasAnchorRatio"))),
        "expected an AliasAnchorRatio {{ aliases: 12, anchors: 1 }} error for document 1 \
         (12 aliases > 2 * 1 anchors), but the stream produced: {items:?}"
    );
}

#[test]
fn ratio_breaching_document_must_not_be_yielded_as_ok() {
    // Even when the document is the last one, its value is handed out as Ok(..) first and the
    // breach is reported afterwards as a separate item.
    let items = verdicts(&bad_doc(), &budget());
    assert!(
        !matches!(items.first(), Some(Ok(_))),
        "expected the first (and only) document to be rejected (12 aliases > 2 * 1 anchors), \
         but it was yielded as Ok; items: {items:?}"
    );
}
