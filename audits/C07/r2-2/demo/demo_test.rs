//! C07 audit, finding 2: a budget breach is reported exactly once, by the pull that observed the
//! offending event (which is consumed and dropped). Nothing remembers it: later pulls only
//! re-check the counters they bump themselves, and `LiveEvents::finish` / `BudgetEnforcer::finalize`
//! only evaluate the alias/anchor ratio. A best-effort `Deserialize` impl that skips the elements
//! it cannot read (the same kind of user type for which reader failures were made sticky in
//! `LiveEvents::io_error`) therefore turns an over-budget input into a successful
//! deserialization, under both enforcement policies, and the report handed to the callback shows
//! a usage above the limit with `breached: None`.
//!
//! Run: cargo test --offline --test demo_test

use serde::de::{Deserialize, Deserializer, SeqAccess, Visitor};
use serde_saphyr::budget::{BudgetBreach, BudgetReport};
use serde_saphyr::{Budget, Error, Options};
use std::cell::RefCell;
use std::rc::Rc;

/// "Keep what can be read": a sequence of strings that leaves out the elements that fail.
/// It gives up after 3 failures in a row, so it terminates whatever the deserializer does.
#[derive(Debug, PartialEq)]
struct BestEffort(Vec<String>);
impl<'de> Deserialize<'de> for BestEffort {
    fn deserialize<D: Deserializer<'de>>(d: D) -> Result<Self, D::Error> {
        struct V;
        impl<'de> Visitor<'de> for V {
            type Value = BestEffort;
            fn expecting(&self, f: &mut std::fmt::Formatter) -> std::fmt::Result {
                f.write_str("a sequence of strings")
            }
            fn visit_seq<A: SeqAccess<'de>>(self, mut a: A) -> Result<BestEffort, A::Error> {
                let mut out = Vec::new();
                let mut failures_in_a_row = 0;
                loop {
                    match a.next_element::<String>() {
                        Ok(Some(s)) => {
                            failures_in_a_row = 0;
                            out.push(s);
                        }
                        Ok(None) => break,
                        Err(e) => {
                            failures_in_a_row += 1;
                            if failures_in_a_row >= 3 {
                                return Err(e);
                            }
                        }
                    }
                }
                Ok(BestEffort(out))
            }
        }
        d.deserialize_seq(V)
    }
}

fn unlimited() -> Budget {
    Budget {
        max_reader_input_bytes: None,
        max_events: usize::MAX,
        max_aliases: usize::MAX,
        max_anchors: usize::MAX,
        max_depth: usize::MAX,
        max_documents: usize::MAX,
        max_nodes: usize::MAX,
        max_total_scalar_bytes: usize::MAX,
        max_merge_keys: usize::MAX,
        enforce_alias_anchor_ratio: false,
        alias_anchor_min_aliases: usize::MAX,
        alias_anchor_ratio_multiplier: usize::MAX,
    }
}

fn opts(b: Budget) -> (Options, Rc<RefCell<Option<BudgetReport>>>) {
    let cell = Rc::new(RefCell::new(None));
    let c2 = cell.clone();
    let o = Options {
        budget: Some(b),
        ..Options::default()
    }
    .with_budget_report(move |r| {
        *c2.borrow_mut() = Some(r);
    });
    (o, cell)
}

fn is_nodes_breach(e: &Error) -> bool {
    matches!(
        e.without_snippet(),
        Error::Budget {
            breach: BudgetBreach::Nodes { .. },
            ..
        }
    )
}
fn is_scalar_breach(e: &Error) -> bool {
    matches!(
        e.without_snippet(),
        Error::Budget {
            breach: BudgetBreach::ScalarBytes { .. },
            ..
        }
    )
}

/// 4 nodes (the sequence and three scalars), 3 scalar bytes.
const DOC: &str = "[a, b, c]\n";

#[test]
fn control_plain_vec_is_refused() {
    let mut b = unlimited();
    b.max_nodes = 2;
    let (o, _) = opts(b);
    let r: Result<Vec<String>, Error> = serde_saphyr::from_str_with_options(DOC, o);
    assert!(matches!(&r, Err(e) if is_nodes_breach(e)), "control: {r:?}");
}

/// Whole-input policy, `from_str_with_options`: 4 nodes under max_nodes = 2.
#[test]
fn from_str_succeeds_with_4_nodes_under_max_nodes_2() {
    let mut b = unlimited();
    b.max_nodes = 2;
    let (o, rep) = opts(b);
    let r: Result<BestEffort, Error> = serde_saphyr::from_str_with_options(DOC, o);
    match &r {
        Err(e) => assert!(is_nodes_breach(e), "expected a Nodes breach, got {e:?}"),
        Ok(v) => panic!(
            "expected: Err(Budget Nodes) - the input has 4 nodes and max_nodes is 2; \
             actual: Ok({v:?}), report handed to the callback: {:?}",
            rep.borrow()
        ),
    }
}

/// Same through a reader (`from_reader_with_options`), with the scalar-bytes limit.
#[test]
fn from_reader_succeeds_with_3_scalar_bytes_under_limit_1() {
    let mut b = unlimited();
    b.max_total_scalar_bytes = 1;
    let (o, rep) = opts(b);
    let r: Result<BestEffort, Error> = serde_saphyr::from_reader_with_options(DOC.as_bytes(), o);
    match &r {
        Err(e) => assert!(is_scalar_breach(e), "expected a ScalarBytes breach, got {e:?}"),
        Ok(v) => panic!(
            "expected: Err(Budget ScalarBytes) - 3 scalar bytes, limit 1; \
             actual: Ok({v:?}), report handed to the callback: {:?}",
            rep.borrow()
        ),
    }
}

/// Per-document policy (streaming iterator): every document of the stream exceeds max_nodes,
/// every item is Ok and the iterator ends without an error.
#[test]
fn streaming_iterator_accepts_documents_over_max_nodes() {
    let stream = "[a, b, c]\n---\n[d, e, f]\n";
    let mut b = unlimited();
    b.max_nodes = 2;
    let (o, rep) = opts(b);
    let mut rd = stream.as_bytes();
    let items: Vec<Result<BestEffort, Error>> =
        serde_saphyr::read_with_options(&mut rd, o).collect();
    let refused = items.iter().filter(|r| matches!(r, Err(e) if is_nodes_breach(e))).count();
    assert!(
        refused > 0,
        "expected: a Nodes breach for the documents (4 nodes each, max_nodes = 2); \
         actual items: {items:?}; report handed to the callback: {:?}",
        rep.borrow()
    );
}

/// The report of a *successful* deserialization shows a usage above the configured limit.
#[test]
fn successful_report_is_above_the_limit() {
    let mut b = unlimited();
    b.max_nodes = 2;
    let (o, rep) = opts(b);
    let r: Result<BestEffort, Error> = serde_saphyr::from_str_with_options(DOC, o);
    if r.is_ok() {
        let report = rep.borrow().clone().expect("report callback");
        assert!(
            report.nodes <= 2 || report.breached.is_some(),
            "deserialization succeeded under max_nodes = 2, yet the report says nodes = {} and \
             breached = {:?}",
            report.nodes,
            report.breached
        );
    }
}
