//! C01 finding 1: with the `robotics` feature and `angle_conversions: true`, a plain scalar that
//! starts with digits (or '.') and has a multi-byte character straddling byte offset +4 makes the
//! angle-expression parser slice a `&str` in the middle of a character and panic.
//!
//! Run with: cargo test --offline --features robotics --test demo_test
#![cfg(feature = "robotics")]

use std::panic::{catch_unwind, AssertUnwindSafe};

/// Runs `f`, turning a panic into `Err(panic message)`.
fn no_panic<T>(f: impl FnOnce() -> T) -> Result<T, String> {
    catch_unwind(AssertUnwindSafe(f)).map_err(|p| {
        p.downcast_ref::<String>()
            .cloned()
            .or_else(|| p.downcast_ref::<&str>().map(|s| s.to_string()))
            .unwrap_or_else(|| "<non-string panic payload>".to_string())
    })
}

fn opts() -> serde_saphyr::Options {
    serde_saphyr::options! { angle_conversions: true }
}

#[test]
fn f64_from_digits_followed_by_non_ascii_is_a_value_or_an_error() {
    // "180°": '°' is two bytes (C2 B0) at byte offsets 3..5, so offset 4 is inside it.
    let mut failures = Vec::new();
    for yaml in ["180°", "12€", "1.5µ", "100 €", "-123é", "[1, 2, 123°]"] {
        let r = no_panic(|| {
            if yaml.starts_with('[') {
                serde_saphyr::from_str_with_options::<Vec<f64>>(yaml, opts()).map(|_| ())
            } else {
                serde_saphyr::from_str_with_options::<f64>(yaml, opts()).map(|_| ())
            }
        });
        if let Err(msg) = r {
            failures.push(format!("input {yaml:?}: PANIC: {msg}"));
        }
    }
    assert!(
        failures.is_empty(),
        "expected Ok(value) or Err(serde_saphyr::Error) for every input, actual:\n{}",
        failures.join("\n")
    );
}

#[test]
fn untyped_tree_with_angle_conversions_is_a_value_or_an_error() {
    // `deserialize_any` tries the float parser on every plain scalar, so an ordinary string value
    // is enough when the target is an untyped tree.
    let yaml = "price: 100€\nangle: 180°\n";
    let r = no_panic(|| {
        serde_saphyr::from_str_with_options::<serde_json::Value>(yaml, opts()).map_err(|e| e.to_string())
    });
    assert!(
        r.is_ok(),
        "input {yaml:?}: expected Ok(value) or Err(serde_saphyr::Error), actual: PANIC: {}",
        r.unwrap_err()
    );
}

#[test]
fn reader_entry_point_is_total_too() {
    let yaml = "- 123°\n";
    let r = no_panic(|| {
        serde_saphyr::from_reader_with_options::<_, Vec<f32>>(yaml.as_bytes(), opts()).map_err(|e| e.to_string())
    });
    assert!(
        r.is_ok(),
        "input {yaml:?}: expected Ok(value) or Err(serde_saphyr::Error), actual: PANIC: {}",
        r.unwrap_err()
    );
}
