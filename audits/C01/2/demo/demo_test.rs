//! C01 finding 2: with the DEFAULT budget (max_depth = 2000) block-style nesting that stays within
//! the budget drives the recursive deserializer through more than 8 MiB of stack, so the process is
//! aborted by the stack-overflow guard (SIGABRT) instead of getting a value or an error.
//!
//! The flow-style forms (`[[[[`, `{a: {a:`) are stopped by the parser's own 255-level limit, the
//! block-style forms (`a:\n a:\n  a:` and `- - - -`) are limited by the depth budget only.
//!
//! Because a stack overflow kills the whole process, every case is run in a child process (this
//! same test binary, re-executed with an environment variable); the child parses on a thread
//! with exactly 8 MiB of stack.
//!
//! Run with: cargo test --offline --test demo_test
//! (the untyped-tree cases fail with the default dev profile; the `wide-struct` case also fails
//! with `--release`).

use serde::Deserialize;
use std::collections::BTreeMap;
use std::process::Command;

const CHILD_ENV: &str = "C01_DEEP_NESTING_CASE";
const STACK: usize = 8 * 1024 * 1024;

/// `a:\n a:\n  a:\n ...` - a block mapping nested `depth` levels (innermost value is null).
fn block_map(depth: usize) -> String {
    let mut s = String::with_capacity(depth * depth / 2 + 3 * depth);
    for i in 0..depth {
        for _ in 0..i {
            s.push(' ');
        }
        s.push_str("a:\n");
    }
    s
}

/// `- - - - ... 1` - a block sequence nested `depth` levels.
fn block_seq(depth: usize) -> String {
    format!("{}1\n", "- ".repeat(depth))
}

/// A recursive configuration type with many optional fields (think JSON-schema / OpenAPI).
#[derive(Debug, Deserialize)]
#[allow(dead_code)]
struct Wide {
    f00: Option<String>, f01: Option<String>, f02: Option<String>, f03: Option<String>,
    f04: Option<String>, f05: Option<String>, f06: Option<String>, f07: Option<String>,
    f08: Option<String>, f09: Option<String>, f10: Option<String>, f11: Option<String>,
    f12: Option<String>, f13: Option<String>, f14: Option<String>, f15: Option<String>,
    f16: Option<String>, f17: Option<String>, f18: Option<String>, f19: Option<String>,
    f20: Option<String>, f21: Option<String>, f22: Option<String>, f23: Option<String>,
    f24: Option<String>, f25: Option<String>, f26: Option<String>, f27: Option<String>,
    f28: Option<String>, f29: Option<String>,
    min: Option<f64>,
    max: Option<f64>,
    required: Option<Vec<String>>,
    properties: Option<BTreeMap<String, Wide>>,
    a: Option<Box<Wide>>,
}

/// Case names: `<target>-<shape>-<depth>`. The depth never exceeds 2000, the default `max_depth`.
const CASES: &[&str] = &[
    "control-map-300",   // sanity check of the harness: must pass
    "value-map-1000",    // serde_json::Value, 1000 nested block mappings (half the budget)
    "value-map-2000",    // ... exactly the budget
    "value-seq-2000",    // serde_json::Value, `- - - - ...`
    "ignored-map-2000",  // serde::de::IgnoredAny
    "wide-struct-2000",  // typed recursive struct with 35 fields (overflows in --release too)
];

fn run_case(case: &str) -> String {
    // All depths are <= 2000, the `max_depth` of `Budget::default()` at the time of writing. (If
    // the default is lowered, the deeper cases must simply come back as budget errors.)
    let depth: usize = case.rsplit('-').next().unwrap().parse().unwrap();
    let yaml = if case.contains("-seq-") { block_seq(depth) } else { block_map(depth) };
    let kind = case.split('-').next().unwrap().to_string();
    let handle = std::thread::Builder::new()
        .stack_size(STACK)
        .spawn(move || -> Result<(), String> {
            match kind.as_str() {
                "control" | "value" => serde_saphyr::from_str::<serde_json::Value>(&yaml)
                    .map(|_| ())
                    .map_err(|e| e.to_string()),
                "ignored" => serde_saphyr::from_str::<serde::de::IgnoredAny>(&yaml)
                    .map(|_| ())
                    .map_err(|e| e.to_string()),
                "wide" => serde_saphyr::from_str::<Wide>(&yaml)
                    .map(|_| ())
                    .map_err(|e| e.to_string()),
                other => panic!("unknown case kind {other}"),
            }
        })
        .unwrap();
    match handle.join().unwrap() {
        Ok(()) => "returned Ok(value)".to_string(),
        Err(e) => format!("returned Err: {}", e.lines().next().unwrap_or("")),
    }
}

/// Child entry point: does nothing unless the environment variable names a case.
#[test]
fn child_entry() {
    if let Ok(case) = std::env::var(CHILD_ENV) {
        println!("CHILD-RESULT {}", run_case(&case));
    }
}

#[test]
fn nesting_within_the_default_depth_budget_does_not_exhaust_an_8_mib_stack() {
    let exe = std::env::current_exe().unwrap();
    let mut failures = Vec::new();
    for case in CASES {
        let out = Command::new(&exe)
            .args(["--exact", "child_entry", "--nocapture", "--test-threads=1"])
            .env(CHILD_ENV, case)
            .output()
            .unwrap();
        let stdout = String::from_utf8_lossy(&out.stdout);
        let stderr = String::from_utf8_lossy(&out.stderr);
        let result = stdout.lines().find(|l| l.contains("CHILD-RESULT"));
        let line = match (out.status.success(), result) {
            (true, Some(r)) => {
                println!("{case}: ok ({})", r.trim());
                continue;
            }
            _ => format!(
                "{case}: expected the call to return Ok(value) or Err(error); actual: child process died with {:?}; stderr: {}",
                out.status,
                stderr
                    .lines()
                    .filter(|l| l.contains("overflow") || l.contains("panicked"))
                    .collect::<Vec<_>>()
                    .join(" | ")
            ),
        };
        println!("{line}");
        failures.push(line);
    }
    assert!(
        failures.is_empty(),
        "{} of {} cases aborted the process:\n{}",
        failures.len(),
        CASES.len(),
        failures.join("\n")
    );
}
