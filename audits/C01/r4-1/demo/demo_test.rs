//! C01 (totality): a budget-report callback that calls back into the crate with the very same
//! `Options` (clones of an `Options` share the callback) makes the *crate* panic with
//! "RefCell already borrowed" (src/live_events.rs, `LiveEvents::finish`), instead of returning a
//! value or an error value.
//!
//! The callback below is well behaved: it guards itself against re-entrancy with a flag, so it
//! would neither recurse without end nor do anything twice. It never gets the chance: the panic is
//! raised by the crate before the nested invocation reaches the closure.

use std::cell::{Cell, RefCell};
use std::panic::{catch_unwind, AssertUnwindSafe};
use std::rc::Rc;

use serde_saphyr::Options;

fn panic_text(p: Box<dyn std::any::Any + Send>) -> String {
    if let Some(s) = p.downcast_ref::<&str>() {
        (*s).to_string()
    } else if let Some(s) = p.downcast_ref::<String>() {
        s.clone()
    } else {
        "<non-string panic payload>".to_string()
    }
}

/// An application-wide `Options` value with a metrics callback; the callback loads a small YAML
/// text of its own with the same application-wide options.
fn shared_options(calls: Rc<Cell<u32>>) -> Options {
    let slot: Rc<RefCell<Option<Options>>> = Rc::new(RefCell::new(None));
    let busy = Rc::new(Cell::new(false));
    let (slot2, busy2) = (slot.clone(), busy.clone());
    let options = Options::default().with_budget_report(move |_report| {
        calls.set(calls.get() + 1);
        if busy2.get() {
            // nested report (of the parse made below): nothing to do
            return;
        }
        busy2.set(true);
        let same_options = slot2.borrow().clone().expect("options are set");
        let nested: Result<i32, _> = serde_saphyr::from_str_with_options("1", same_options);
        assert_eq!(nested.expect("nested parse"), 1);
        busy2.set(false);
    });
    *slot.borrow_mut() = Some(options.clone());
    options
}

#[test]
fn from_str_with_reentrant_budget_report_callback_does_not_panic() {
    let calls = Rc::new(Cell::new(0));
    let options = shared_options(calls.clone());

    let outcome = catch_unwind(AssertUnwindSafe(|| {
        serde_saphyr::from_str_with_options::<i32>("2", options)
    }));

    match outcome {
        Ok(result) => {
            // Any value or error *value* satisfies the property.
            let _ = result.map_err(|e| e.to_string());
        }
        Err(p) => panic!(
            "expected: from_str_with_options returns Ok(2) or an Err value; \
             actual: it panicked with {:?} (callback entered {} time(s))",
            panic_text(p),
            calls.get()
        ),
    }
}

#[test]
fn read_iterator_with_reentrant_budget_report_callback_does_not_panic() {
    let calls = Rc::new(Cell::new(0));
    let options = shared_options(calls.clone());

    let outcome = catch_unwind(AssertUnwindSafe(|| {
        let mut reader = std::io::Cursor::new(b"2\n---\n3\n".to_vec());
        let items: Vec<Result<i32, String>> =
            serde_saphyr::read_with_options::<_, i32>(&mut reader, options)
                .map(|r| r.map_err(|e| e.to_string()))
                .collect();
        items
    }));

    match outcome {
        Ok(items) => assert_eq!(items.len(), 2, "two documents: {items:?}"),
        Err(p) => panic!(
            "expected: the iterator yields Ok(2), Ok(3) and ends; \
             actual: Iterator::next panicked with {:?} (callback entered {} time(s))",
            panic_text(p),
            calls.get()
        ),
    }
}
