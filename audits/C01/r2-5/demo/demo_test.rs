//! C01 / termination: a map visitor that returns after reading the entry it needs (the usual way
//! to hand-write `{ name: value }` single-entry mappings: one `next_entry()` call) leaves the
//! mapping's end marker in the event stream. `deserialize_map` does not notice (unlike
//! `deserialize_seq`), and `Option<T>` / `()` elements "succeed" on that marker without consuming
//! it - so the enclosing sequence never ends: `Vec<Option<Single>>` loops for ever and grows.
//!
//! Run with: cargo test --offline --test demo_test

use serde::de::{Deserialize, Deserializer, IgnoredAny, MapAccess, SeqAccess, Visitor};
use std::fmt;
use std::marker::PhantomData;
use std::sync::mpsc;
use std::time::Duration;

/// `{ name: value }`: a mapping with one entry, read with a single `next_entry` call.
#[derive(Debug, PartialEq)]
struct Single {
    name: String,
    value: i32,
}

impl<'de> Deserialize<'de> for Single {
    fn deserialize<D: Deserializer<'de>>(d: D) -> Result<Self, D::Error> {
        struct V;
        impl<'de> Visitor<'de> for V {
            type Value = Single;
            fn expecting(&self, f: &mut fmt::Formatter) -> fmt::Result {
                f.write_str("a mapping with one entry")
            }
            fn visit_map<A: MapAccess<'de>>(self, mut map: A) -> Result<Single, A::Error> {
                let (name, value) = map
                    .next_entry::<String, i32>()?
                    .ok_or_else(|| serde::de::Error::custom("empty mapping"))?;
                Ok(Single { name, value })
            }
        }
        d.deserialize_map(V)
    }
}

/// Like `Vec<T>`, but gives up (with an error) after `LIMIT` elements instead of growing for ever.
#[derive(Debug)]
struct AtMost<T>(Vec<T>);
const LIMIT: usize = 100_000;

impl<'de, T: Deserialize<'de>> Deserialize<'de> for AtMost<T> {
    fn deserialize<D: Deserializer<'de>>(d: D) -> Result<Self, D::Error> {
        struct V<T>(PhantomData<T>);
        impl<'de, T: Deserialize<'de>> Visitor<'de> for V<T> {
            type Value = AtMost<T>;
            fn expecting(&self, f: &mut fmt::Formatter) -> fmt::Result {
                f.write_str("a sequence")
            }
            fn visit_seq<A: SeqAccess<'de>>(self, mut seq: A) -> Result<AtMost<T>, A::Error> {
                let mut out = Vec::new();
                while let Some(item) = seq.next_element::<T>()? {
                    out.push(item);
                    if out.len() > LIMIT {
                        return Err(serde::de::Error::custom(format!(
                            "STEP LIMIT: the sequence access has yielded more than {LIMIT} elements"
                        )));
                    }
                }
                Ok(AtMost(out))
            }
        }
        d.deserialize_seq(V(PhantomData))
    }
}

const YAML: &str = "- a: 1\n- b: 2\n";

#[test]
fn sequence_of_optional_single_entry_mappings_ends() {
    // reference: the type is fine by serde's rules - serde_json reads it, inside Vec<Option<_>> too
    let json: Vec<Option<Single>> = serde_json::from_str("[{\"a\": 1}, {\"b\": 2}]").unwrap();
    assert_eq!(json.len(), 2);
    assert_eq!(json[1], Some(Single { name: "b".into(), value: 2 }));

    let res = serde_saphyr::from_str::<AtMost<Option<Single>>>(YAML);
    match res {
        Ok(AtMost(items)) => assert_eq!(
            items.len(),
            2,
            "expected the 2 elements of the document, got {} : {:?}",
            items.len(),
            &items[..items.len().min(5)]
        ),
        Err(e) => {
            let text = e.to_string();
            assert!(
                !text.contains("STEP LIMIT"),
                "input {YAML:?} (2 elements): expected 2 elements (as serde_json) or an error about the \
                 mapping; actual: the sequence never ends - {}",
                text.lines().next().unwrap_or_default()
            );
        }
    }
}

/// The same with the standard `Vec`, observed from outside. The element type carries no data, so
/// that the run-away vector grows by one byte per round only while the watchdog waits.
#[derive(Debug, PartialEq)]
struct Marker;

impl<'de> Deserialize<'de> for Marker {
    fn deserialize<D: Deserializer<'de>>(d: D) -> Result<Self, D::Error> {
        struct V;
        impl<'de> Visitor<'de> for V {
            type Value = Marker;
            fn expecting(&self, f: &mut fmt::Formatter) -> fmt::Result {
                f.write_str("a mapping with one entry")
            }
            fn visit_map<A: MapAccess<'de>>(self, mut map: A) -> Result<Marker, A::Error> {
                map.next_entry::<IgnoredAny, IgnoredAny>()?
                    .ok_or_else(|| serde::de::Error::custom("empty mapping"))?;
                Ok(Marker)
            }
        }
        d.deserialize_map(V)
    }
}

#[test]
fn from_str_into_vec_of_options_terminates() {
    let (tx, rx) = mpsc::channel();
    std::thread::spawn(move || {
        let r = serde_saphyr::from_str::<Vec<Option<Marker>>>(YAML);
        let _ = tx.send(r.map(|v| v.len()).map_err(|e| e.to_string()));
    });
    match rx.recv_timeout(Duration::from_secs(3)) {
        Ok(r) => println!("terminated with {r:?}"),
        Err(_) => panic!(
            "from_str::<Vec<Option<Marker>>>({YAML:?}) has not returned after 3 s: expected a value or an \
             error value, actual: endless loop (the vector keeps growing with `None`)"
        ),
    }
}
