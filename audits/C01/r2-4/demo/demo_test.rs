//! C01 / no panic: a target type whose map visitor asks for a value although `next_key` returned
//! `None` (or without asking for a key at all) gets an error value from every map source of the
//! deserializer - except when the YAML node is null-like (`~`, `null`, empty), where the stand-in
//! `EmptyMap` runs into `unreachable!()`.
//!
//! Run with: cargo test --offline --test demo_test

use serde::de::{Deserialize, Deserializer, IgnoredAny, MapAccess, Visitor};
use std::fmt;
use std::panic::catch_unwind;

/// "The first entry of a mapping" - written without checking that there is one.
#[derive(Debug)]
#[allow(dead_code)]
struct FirstEntry {
    key: Option<String>,
}

impl<'de> Deserialize<'de> for FirstEntry {
    fn deserialize<D: Deserializer<'de>>(d: D) -> Result<Self, D::Error> {
        struct V;
        impl<'de> Visitor<'de> for V {
            type Value = FirstEntry;
            fn expecting(&self, f: &mut fmt::Formatter) -> fmt::Result {
                f.write_str("a mapping")
            }
            fn visit_map<A: MapAccess<'de>>(self, mut map: A) -> Result<FirstEntry, A::Error> {
                let key: Option<String> = map.next_key()?;
                let _value: IgnoredAny = map.next_value()?; // sloppy: also when `key` is None
                while map.next_entry::<IgnoredAny, IgnoredAny>()?.is_some() {}
                Ok(FirstEntry { key })
            }
        }
        d.deserialize_map(V)
    }
}

fn outcome(yaml: &'static str) -> Result<Result<FirstEntry, String>, String> {
    catch_unwind(move || serde_saphyr::from_str::<FirstEntry>(yaml).map_err(|e| e.to_string())).map_err(|p| {
        p.downcast_ref::<String>()
            .cloned()
            .or_else(|| p.downcast_ref::<&str>().map(|s| s.to_string()))
            .unwrap_or_else(|| "<non-string panic payload>".to_string())
    })
}

#[test]
fn value_requested_without_key_is_an_error_value_for_every_kind_of_mapping() {
    // controls: a filled mapping works, an empty `{}` mapping yields an error value
    let ok = outcome("a: 1\nb: 2\n").expect("no panic").expect("value");
    assert_eq!(ok.key.as_deref(), Some("a"));
    let empty = outcome("{}\n").expect("no panic for `{}`");
    assert!(
        matches!(&empty, Err(msg) if msg.contains("value requested before key")),
        "`{{}}`: expected the error 'value requested before key', got {empty:?}"
    );

    // the violation: the same type, the same mistake, a null-like node instead of `{}`
    for yaml in ["~\n", "null\n", "", "# only a comment\n", "--- !!null\n"] {
        let r = outcome(yaml);
        assert!(
            matches!(&r, Ok(Err(_))),
            "input {yaml:?}: expected an error value (as for `{{}}`: 'value requested before key'), \
             actual: {}",
            match &r {
                Ok(Ok(v)) => format!("a value: {v:?}"),
                Ok(Err(e)) => format!("error {e}"),
                Err(p) => format!("from_str PANICKED: {p}"),
            }
        );
    }
}
