//! C01 / error rendering: a report built by `serde_saphyr::miette::to_miette_report` panics when it
//! is printed, if the error sits beyond column 65535 of its line (default options).
//!
//! Run with: cargo test --offline --features miette --test demo_test
#![cfg(feature = "miette")]

use serde::Deserialize;
use std::panic::{catch_unwind, AssertUnwindSafe};

#[derive(Debug, Deserialize)]
#[allow(dead_code)]
struct Cfg {
    pad: String,
    port: u16,
}

/// A one-line document (what a JSON minifier produces): `pad` chars of filler, then a type error.
fn one_line_doc(pad: usize) -> String {
    format!(
        "{{\"pad\": \"{}\", \"port\": \"not a number\"}}\n",
        "a".repeat(pad)
    )
}

fn panic_text(p: Box<dyn std::any::Any + Send>) -> String {
    p.downcast_ref::<String>()
        .cloned()
        .or_else(|| p.downcast_ref::<&str>().map(|s| s.to_string()))
        .unwrap_or_else(|| "<non-string panic payload>".to_string())
}

/// Render the way the crate's own documentation and its `serde-saphyr` binary do: `{report:?}`.
fn render(err: &serde_saphyr::Error, yaml: &str) -> Result<String, String> {
    catch_unwind(AssertUnwindSafe(|| {
        let report = serde_saphyr::miette::to_miette_report(err, yaml, "config.yaml");
        format!("{report:?}")
    }))
    .map_err(panic_text)
}

#[test]
fn miette_report_for_an_error_far_to_the_right_of_a_long_line_from_str() {
    // control: the same document with a short filler renders fine
    let short = one_line_doc(100);
    let err = serde_saphyr::from_str::<Cfg>(&short).expect_err("port is not a number");
    let text = render(&err, &short).expect("control case must render");
    assert!(text.contains("invalid"), "control rendering looks wrong: {text}");

    // the violation: 70 000 columns of filler in front of the offending value
    let long = one_line_doc(70_000);
    let err = serde_saphyr::from_str::<Cfg>(&long).expect_err("port is not a number");
    // (the error itself and its own Display are fine)
    let loc = err.location().expect("error has a location");
    assert!(loc.column() > 65_535, "test setup: column is {}", loc.column());
    let _ = err.to_string();

    let rendered = render(&err, &long);
    assert!(
        rendered.is_ok(),
        "expected: the miette report of a returned error can be turned into text; \
         actual: printing it panicked with: {:?} (error was at line {} column {})",
        rendered.err(),
        loc.line(),
        loc.column()
    );
}

#[test]
fn miette_report_for_an_error_far_to_the_right_of_a_long_line_from_reader() {
    let long = one_line_doc(70_000);
    let err = serde_saphyr::from_reader::<_, Cfg>(long.as_bytes()).expect_err("port is not a number");
    let rendered = render(&err, &long);
    assert!(
        rendered.is_ok(),
        "expected: the miette report of a returned error can be turned into text; \
         actual: printing it panicked with: {:?}",
        rendered.err()
    );
}
