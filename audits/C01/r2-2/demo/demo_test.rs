//! C01 / error rendering: `Display` of a returned error panics when `Options::crop_radius` is
//! 65536 or more and the error carries a second ("defined here") location beyond column 65535.
//!
//! Run with: cargo test --offline --test demo_test

use serde::Deserialize;
use std::panic::{catch_unwind, AssertUnwindSafe};

#[derive(Debug, Deserialize)]
#[allow(dead_code)]
struct S {
    pad: String,
    k: String,
    v: i32,
}

/// One line: filler, an anchored string, and an alias to it where an integer is expected.
/// The error has two locations: the alias (`*x`, use site) and the anchored scalar (definition).
fn doc(pad: usize) -> String {
    format!("{{ pad: \"{}\", k: &x foo, v: *x }}\n", "a".repeat(pad))
}

fn display(yaml: &str, crop_radius: usize) -> Result<String, String> {
    let opts = serde_saphyr::options! { crop_radius: crop_radius };
    let err = serde_saphyr::from_str_with_options::<S>(yaml, opts).expect_err("v is not an integer");
    catch_unwind(AssertUnwindSafe(|| err.to_string())).map_err(|p| {
        p.downcast_ref::<String>()
            .cloned()
            .or_else(|| p.downcast_ref::<&str>().map(|s| s.to_string()))
            .unwrap_or_else(|| "<non-string panic payload>".to_string())
    })
}

#[test]
fn display_with_a_crop_radius_that_means_do_not_crop() {
    // controls: short line with a huge radius, long line with the default radius - both render
    let text = display(&doc(100), usize::MAX).expect("control 1 must render");
    assert!(text.contains("defined here"), "control 1 looks wrong:\n{text}");
    let text = display(&doc(70_000), 64).expect("control 2 must render");
    assert!(text.contains("defined here"), "control 2 looks wrong:\n{text}");

    // the violation: long line, and a radius chosen to keep lines whole
    for radius in [65_536usize, 100_000, usize::MAX] {
        let rendered = display(&doc(70_000), radius);
        assert!(
            rendered.is_ok(),
            "crop_radius = {radius}: expected the returned error to be turned into text, \
             actual: Display panicked with {:?}",
            rendered.err()
        );
    }
}
