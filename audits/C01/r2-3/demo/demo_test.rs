//! C01 / termination: `from_reader` reads the caller's reader again AFTER it has reported end of
//! input (`Ok(0)`), whenever it is about to return an error (to collect text for the snippet).
//! A reader for which a read behind end-of-input blocks - a terminal after Ctrl-D, a FIFO, any
//! "wait for the next writer" source; all of them abide by the `Read` contract - makes the call
//! hang although the document has ended and the error is already known.
//!
//! Run with: cargo test --offline --test demo_test

use std::io::Read;
use std::sync::atomic::{AtomicUsize, Ordering};
use std::sync::mpsc;
use std::sync::Arc;
use std::time::Duration;

/// Delivers `data`, then `Ok(0)` once. What a later `read` does is up to `block_after_eof`:
/// count it and report end of input again, or block (as a terminal does until more is typed).
struct TerminalLike {
    data: Vec<u8>,
    pos: usize,
    eof_reported: bool,
    reads_after_eof: Arc<AtomicUsize>,
    block_after_eof: bool,
}

impl Read for TerminalLike {
    fn read(&mut self, buf: &mut [u8]) -> std::io::Result<usize> {
        if buf.is_empty() {
            return Ok(0);
        }
        if self.eof_reported {
            self.reads_after_eof.fetch_add(1, Ordering::SeqCst);
            if self.block_after_eof {
                loop {
                    std::thread::sleep(Duration::from_secs(3600)); // nobody types anything any more
                }
            }
            return Ok(0);
        }
        let n = buf.len().min(self.data.len() - self.pos);
        buf[..n].copy_from_slice(&self.data[self.pos..self.pos + n]);
        self.pos += n;
        if n == 0 {
            self.eof_reported = true;
        }
        Ok(n)
    }
}

fn reader(doc: &str, block_after_eof: bool) -> (TerminalLike, Arc<AtomicUsize>) {
    let counter = Arc::new(AtomicUsize::new(0));
    (
        TerminalLike {
            data: doc.as_bytes().to_vec(),
            pos: 0,
            eof_reported: false,
            reads_after_eof: counter.clone(),
            block_after_eof,
        },
        counter,
    )
}

/// Unterminated flow sequence: a syntax error that is detected *because* the input has ended.
const DOC: &str = "name: demo\nports: [80, 443\n";

#[test]
fn from_reader_does_not_read_behind_end_of_input() {
    // control: a document without error is read up to Ok(0) and not any further
    let (rd, count) = reader("name: demo\nports: [80, 443]\n", false);
    let v: serde_json::Value = serde_saphyr::from_reader(rd).expect("valid document");
    assert_eq!(v["ports"][1], 443);
    assert_eq!(count.load(Ordering::SeqCst), 0, "control: reads behind end of input");

    // the violation, observed without blocking
    let (rd, count) = reader(DOC, false);
    let err = serde_saphyr::from_reader::<_, serde_json::Value>(rd).expect_err("unclosed bracket");
    println!("error: {}", err.to_string().lines().next().unwrap_or_default());
    assert_eq!(
        count.load(Ordering::SeqCst),
        0,
        "expected: 0 reads after the reader has reported end of input; actual: {} (from_reader went back \
         to the reader for snippet context although the input had ended)",
        count.load(Ordering::SeqCst)
    );
}

#[test]
fn from_reader_terminates_on_a_reader_that_blocks_behind_end_of_input() {
    let (tx, rx) = mpsc::channel();
    std::thread::spawn(move || {
        let (rd, _count) = reader(DOC, true);
        let res = serde_saphyr::from_reader::<_, serde_json::Value>(rd);
        let _ = tx.send(res.map_err(|e| e.to_string()));
    });
    // the whole input is 27 bytes; ten seconds are ample
    match rx.recv_timeout(Duration::from_secs(10)) {
        Ok(res) => {
            assert!(res.is_err(), "the document is invalid, got {res:?}");
        }
        Err(_) => panic!(
            "expected: from_reader returns the error (the reader has delivered the whole document and reported \
             end of input); actual: no result after 10 s - from_reader is blocked in a further read() on the reader"
        ),
    }
}
