//! C01 finding 3: nested merge keys make the deserializer copy the remaining subtree once per
//! nesting level (and keep every copy alive), so memory grows with depth x size. A 120 KB document
//! that is far inside every limit of the DEFAULT budget (200 levels of 2000, ~10 000 nodes of
//! 250 000) needs about 700 MiB of heap; documents the default budget still accepts (depth 2000,
//! 120 000 entries, about 3 MB of text) need tens of GiB. On any machine / container with less
//! memory the allocation fails and Rust aborts the process ("memory allocation of N bytes failed",
//! SIGABRT) - the call neither returns a value nor an error.
//!
//! The crate forbids `unsafe`, so the memory limit is not emulated with a custom allocator: every
//! case runs in a child process (this same test binary, re-executed through `sh` with
//! `ulimit -v 524288`, i.e. a 512 MiB address-space limit; Linux). The same document with an
//! ordinary key (`m:`) instead of `<<:` is the control case: it must pass, and does, under the
//! same limit.
//!
//! Run with: cargo test --offline --test demo_test

use std::process::Command;

const CHILD_ENV: &str = "C01_MERGE_MEMORY_CASE";
const LIMIT_KIB: usize = 512 * 1024;
const DEPTH: usize = 200;
const ENTRIES: usize = 10_000;

/// `key:` nested `DEPTH` levels in block style, the innermost value being a flow mapping with
/// `ENTRIES` entries:
///
/// ```yaml
/// <<:
///  <<:
///   <<:
///    {k0: 1, k1: 1, ..., z: 1}
/// ```
fn document(key: &str) -> String {
    let mut s = String::new();
    for i in 0..DEPTH {
        for _ in 0..i {
            s.push(' ');
        }
        s.push_str(key);
        s.push_str(":\n");
    }
    for _ in 0..DEPTH {
        s.push(' ');
    }
    s.push('{');
    for i in 0..ENTRIES {
        s.push_str(&format!("k{i}: 1, "));
    }
    s.push_str("z: 1}\n");
    s
}

/// Peak resident set size of this process, from /proc (Linux); 0 if unavailable.
fn peak_rss_mib() -> usize {
    std::fs::read_to_string("/proc/self/status")
        .ok()
        .and_then(|s| {
            s.lines()
                .find(|l| l.starts_with("VmHWM:"))
                .and_then(|l| l.split_whitespace().nth(1).and_then(|n| n.parse::<usize>().ok()))
        })
        .map(|kib| kib / 1024)
        .unwrap_or(0)
}

/// Child entry point: does nothing unless the environment variable names a case.
#[test]
fn child_entry() {
    let Ok(case) = std::env::var(CHILD_ENV) else {
        return;
    };
    // Parse on a thread with a roomy stack: stack depth is not what this test is about.
    std::thread::Builder::new()
        .stack_size(64 * 1024 * 1024)
        .spawn(move || child_main(&case))
        .unwrap()
        .join()
        .unwrap();
}

fn child_main(case: &str) {
    let yaml = document(case);
    let report: std::rc::Rc<std::cell::RefCell<Option<serde_saphyr::budget::BudgetReport>>> =
        Default::default();
    let sink = report.clone();
    let options = serde_saphyr::Options::default().with_budget_report(move |r| {
        *sink.borrow_mut() = Some(r);
    });
    let started = std::time::Instant::now();
    let result = serde_saphyr::from_str_with_options::<serde_json::Value>(&yaml, options);
    let outcome = match &result {
        Ok(_) => "Ok(value)".to_string(),
        Err(e) => format!("Err({})", e.to_string().lines().next().unwrap_or("")),
    };
    let r = report.borrow();
    let r = r.as_ref();
    println!(
        "CHILD-RESULT key `{case}`: returned {outcome} after {:?}; input {} bytes; peak RSS {} MiB; budget report: nodes {:?} (default max 250000), depth {:?} (default max 2000), events {:?} (default max 1000000)",
        started.elapsed(),
        yaml.len(),
        peak_rss_mib(),
        r.map(|r| r.nodes),
        r.map(|r| r.max_depth),
        r.map(|r| r.events),
    );
}

fn run_child(key: &str, limit_kib: Option<usize>) -> Result<String, String> {
    let exe = std::env::current_exe().unwrap();
    let script = match limit_kib {
        Some(kib) => format!("ulimit -v {kib} || exit 97; exec \"$0\" \"$@\""),
        None => "exec \"$0\" \"$@\"".to_string(),
    };
    let out = Command::new("sh")
        .arg("-c")
        .arg(script)
        .arg(&exe)
        .args(["--exact", "child_entry", "--nocapture", "--test-threads=1"])
        .env(CHILD_ENV, key)
        .output()
        .unwrap();
    let stdout = String::from_utf8_lossy(&out.stdout);
    let stderr = String::from_utf8_lossy(&out.stderr);
    match stdout.lines().find(|l| l.contains("CHILD-RESULT")) {
        Some(line) if out.status.success() => Ok(line.trim().to_string()),
        _ => Err(format!(
            "child process died with {:?}; stderr: {}",
            out.status,
            stderr
                .lines()
                .filter(|l| l.contains("memory allocation") || l.contains("panicked") || l.contains("overflow") || l.contains("ulimit"))
                .collect::<Vec<_>>()
                .join(" | ")
        )),
    }
}

#[test]
fn control_same_document_with_an_ordinary_key_fits_in_512_mib() {
    let r = run_child("m", Some(LIMIT_KIB));
    println!("{r:?}");
    assert!(r.is_ok(), "control case failed: {}", r.unwrap_err());
}

#[test]
fn nested_merge_keys_within_the_default_budget_do_not_exhaust_512_mib() {
    let r = run_child("<<", Some(LIMIT_KIB));
    println!("{r:?}");
    if let Err(died) = r {
        // For the record: what the same call needs when nothing limits it.
        let unlimited = run_child("<<", None);
        panic!(
            "a {} KB document ({DEPTH} nested `<<:` levels around a {ENTRIES}-entry mapping, well inside the default budget): \
             expected the call to return Ok(value) or Err(error) under `ulimit -v {LIMIT_KIB}`; actual: {died}\n\
             without the limit: {unlimited:?}",
            document("<<").len() / 1024,
        );
    }
}
