//! C01 finding 4: the multi-document entry points assume that a successful `T::deserialize`
//! consumed the document. For a target type whose `Deserialize` impl returns a value without
//! reading from the deserializer (perfectly legal for Serde: a marker / unit-like type, a type
//! that takes everything from defaults, ...), nothing is consumed, the one-item look-ahead still
//! holds the same event, and
//!   * `from_multiple` / `from_multiple_with_options` / `from_slice_multiple` loop forever
//!     (never return, for ANY non-empty input), and
//!   * the `read` / `read_with_options` iterators yield `Ok(value)` for ever from a finite,
//!     one-document input (so `.collect()`, `.count()`, `for` loops never end).
//! The single-document entry points handle the same type fine (they report "multiple documents").
//!
//! Run with: cargo test --offline --test demo_test

use serde::Deserialize;
use std::sync::mpsc;
use std::time::Duration;

/// A target type that does not need anything from the input.
#[derive(Debug, Default, PartialEq)]
struct Marker;

impl<'de> Deserialize<'de> for Marker {
    fn deserialize<D: serde::Deserializer<'de>>(_deserializer: D) -> Result<Self, D::Error> {
        Ok(Marker)
    }
}

const YAML: &str = "a: 1\n";

/// Runs `f` on a helper thread and waits at most `secs` seconds for it.
fn within<T: Send + 'static>(secs: u64, f: impl FnOnce() -> T + Send + 'static) -> Option<T> {
    let (tx, rx) = mpsc::channel();
    std::thread::spawn(move || {
        let _ = tx.send(f());
    });
    rx.recv_timeout(Duration::from_secs(secs)).ok()
}

#[test]
fn single_document_entry_point_terminates_for_this_type() {
    // Control: the type is not a problem for `from_str` (returns an error, which is fine).
    let r = within(10, || serde_saphyr::from_str::<Marker>(YAML).map_err(|e| e.to_string()));
    assert!(r.is_some(), "from_str did not return within 10 s");
    println!("from_str -> {:?}", r.unwrap());
}

#[test]
fn from_multiple_terminates() {
    let r = within(10, || {
        serde_saphyr::from_multiple::<Marker>(YAML)
            .map(|v| v.len())
            .map_err(|e| e.to_string())
    });
    assert!(
        r.is_some(),
        "from_multiple::<Marker>({YAML:?}): expected Ok(values) or Err(error); actual: no result after 10 s (the call never returns)"
    );
}

#[test]
fn from_slice_multiple_terminates() {
    let r = within(10, || {
        serde_saphyr::from_slice_multiple::<Marker>(YAML.as_bytes())
            .map(|v| v.len())
            .map_err(|e| e.to_string())
    });
    assert!(
        r.is_some(),
        "from_slice_multiple::<Marker>({YAML:?}): expected Ok(values) or Err(error); actual: no result after 10 s (the call never returns)"
    );
}

#[test]
fn read_iterator_over_a_finite_input_is_finite() {
    let mut reader: &[u8] = YAML.as_bytes();
    // Bounded step counter instead of a watchdog: a one-document input cannot yield more
    // than one item (an error item would also be acceptable).
    let items = serde_saphyr::read::<_, Marker>(&mut reader).take(100_000).count();
    assert!(
        items <= 1,
        "read::<_, Marker>({YAML:?}): expected the iterator to end after at most 1 item; actual: it is still yielding after {items} items"
    );
}

#[test]
fn read_with_options_iterator_over_a_finite_input_is_finite() {
    let mut reader: &[u8] = YAML.as_bytes();
    let items = serde_saphyr::read_with_options::<_, Marker>(&mut reader, serde_saphyr::Options::default())
        .take(100_000)
        .count();
    assert!(
        items <= 1,
        "read_with_options::<_, Marker>({YAML:?}): expected the iterator to end after at most 1 item; actual: it is still yielding after {items} items"
    );
}
