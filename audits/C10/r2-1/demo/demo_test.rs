//! C10 - iterator entry point: a reader failure is never reported when the target's
//! `Deserialize` impl falls back to a default on error at the ROOT of a document.
//!
//! `from_reader` on the same input / reader / type returns the I/O error (the earlier repair:
//! the failure is re-reported by every later pull and by `finish`). The iterator returned by
//! `read` / `read_with_options` instead yields `Ok(<fallback>)` and then ends with `None`:
//! the consumer never sees any error although the reader failed.

use std::io::{self, Read};

/// Serves `data[..fail_after]` (at most `chunk` bytes per call), then fails every call with a
/// hard (non-Interrupted) error.
struct FailingReader {
    data: Vec<u8>,
    pos: usize,
    chunk: usize,
    fail_after: usize,
    failed_calls: usize,
}

impl Read for FailingReader {
    fn read(&mut self, buf: &mut [u8]) -> io::Result<usize> {
        if buf.is_empty() {
            return Ok(0);
        }
        let limit = self.fail_after.min(self.data.len());
        if self.pos >= limit {
            self.failed_calls += 1;
            return Err(io::Error::new(io::ErrorKind::Other, "disk on fire"));
        }
        let n = buf.len().min(self.chunk).min(limit - self.pos);
        buf[..n].copy_from_slice(&self.data[self.pos..self.pos + n]);
        self.pos += n;
        Ok(n)
    }
}

/// A "lenient" string: any error while reading it yields a placeholder instead.
#[derive(Debug, PartialEq)]
struct LenientString(String);

impl<'de> serde::Deserialize<'de> for LenientString {
    fn deserialize<D: serde::Deserializer<'de>>(d: D) -> Result<Self, D::Error> {
        Ok(match <String as serde::Deserialize>::deserialize(d) {
            Ok(s) => LenientString(s),
            Err(_) => LenientString("<fallback>".to_string()),
        })
    }
}

const INPUT: &[u8] = b"abc\n---\ndef\n";

fn reader(fail_after: usize, chunk: usize) -> FailingReader {
    FailingReader {
        data: INPUT.to_vec(),
        pos: 0,
        chunk,
        fail_after,
        failed_calls: 0,
    }
}

/// Control: the single-document entry point reports the failure for the very same type.
#[test]
fn control_from_reader_reports_the_failure() {
    for fail_after in 3..=INPUT.len() {
        let r = reader(fail_after, usize::MAX);
        let res: Result<LenientString, _> = serde_saphyr::from_reader(r);
        assert!(
            res.is_err(),
            "from_reader, reader fails after byte {fail_after}: expected Err, got {res:?}"
        );
    }
}

/// Control: without a fault both documents arrive.
#[test]
fn control_fault_free_iterator() {
    let mut r = std::io::Cursor::new(INPUT.to_vec());
    let items: Vec<_> = serde_saphyr::read::<_, LenientString>(&mut r)
        .map(|x| x.map_err(|e| e.to_string()))
        .collect();
    assert_eq!(
        items,
        vec![
            Ok(LenientString("abc".into())),
            Ok(LenientString("def".into()))
        ]
    );
}

/// The violation: the reader reported an error, the iterator never does.
#[test]
fn iterator_never_reports_reader_failure() {
    let mut failures = Vec::new();
    for chunk in [1usize, usize::MAX] {
        for fail_after in 3..=INPUT.len() {
            let mut r = reader(fail_after, chunk);
            let items: Vec<Result<LenientString, String>> =
                serde_saphyr::read::<_, LenientString>(&mut r)
                    .take(10)
                    .map(|x| x.map_err(|e| e.to_string()))
                    .collect();
            let reader_failed = r.failed_calls > 0;
            let any_err = items.iter().any(|i| i.is_err());
            if reader_failed && !any_err {
                failures.push(format!(
                    "chunk={chunk} fail_after={fail_after}: reader failed {} time(s); \
                     expected at least one Err item, actual items = {items:?}",
                    r.failed_calls
                ));
            }
        }
    }
    assert!(
        failures.is_empty(),
        "reader failure swallowed by the `read` iterator:\n{}",
        failures.join("\n")
    );
}

/// Same with the input-size cap: the cap is exceeded, the iterator yields Ok and ends.
#[test]
fn iterator_never_reports_exceeded_cap() {
    let opts = serde_saphyr::options! {
        budget: serde_saphyr::budget! { max_reader_input_bytes: Some(2) },
    };
    let mut r = std::io::Cursor::new(INPUT.to_vec());
    let items: Vec<Result<LenientString, String>> =
        serde_saphyr::read_with_options::<_, LenientString>(&mut r, opts)
            .take(10)
            .map(|x| x.map_err(|e| e.to_string()))
            .collect();
    assert!(
        items.iter().any(|i| i.is_err()),
        "input of {} bytes, cap 2 bytes: expected an Err item (FileTooLarge), actual items = {items:?}",
        INPUT.len()
    );
}

/// Related (same cause, same fix): when the lenient impl has consumed something before it
/// swallowed the error, the iterator hands out the value built from the truncated prefix as an
/// `Ok` item and reports the failure only on the following call.
#[derive(Debug, PartialEq)]
struct LenientMap(Vec<(String, i64)>);

impl<'de> serde::Deserialize<'de> for LenientMap {
    fn deserialize<D: serde::Deserializer<'de>>(d: D) -> Result<Self, D::Error> {
        struct V;
        impl<'de> serde::de::Visitor<'de> for V {
            type Value = LenientMap;
            fn expecting(&self, f: &mut std::fmt::Formatter) -> std::fmt::Result {
                f.write_str("a mapping")
            }
            fn visit_map<A: serde::de::MapAccess<'de>>(self, mut a: A) -> Result<LenientMap, A::Error> {
                let mut out = Vec::new();
                // best effort: keep what could be read
                while let Ok(Some(entry)) = a.next_entry::<String, i64>() {
                    out.push(entry);
                }
                Ok(LenientMap(out))
            }
        }
        d.deserialize_map(V)
    }
}

#[test]
fn iterator_yields_value_built_from_truncated_prefix() {
    let input = b"a: 1\nb: 2\nc: 3\n---\nd: 4\n";
    let full = LenientMap(vec![("a".into(), 1), ("b".into(), 2), ("c".into(), 3)]);
    let mut failures = Vec::new();
    for fail_after in 0..=input.len() {
        let mut r = FailingReader {
            data: input.to_vec(),
            pos: 0,
            chunk: usize::MAX,
            fail_after,
            failed_calls: 0,
        };
        let items: Vec<Result<LenientMap, String>> = serde_saphyr::read::<_, LenientMap>(&mut r)
            .take(10)
            .map(|x| x.map_err(|e| e.to_string()))
            .collect();
        if r.failed_calls == 0 {
            continue;
        }
        // Whatever is handed out as Ok for the first document must be the whole first document.
        if let Some(Ok(first)) = items.first() {
            if *first != full {
                failures.push(format!(
                    "fail_after={fail_after}: expected first item Err(..) or Ok({full:?}), actual items = {items:?}"
                ));
            }
        }
    }
    assert!(
        failures.is_empty(),
        "values built from a truncated prefix were handed out:\n{}",
        failures.join("\n")
    );
}
