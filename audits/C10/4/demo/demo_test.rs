//! C10 finding 4: the character source is not fused after a failure.  After it has stored an
//! error (input cap exceeded / the reader's error) and signalled "end of input" to the parser
//! ONCE, `ChunkedChars::next` goes on reading from the reader and hands later characters to the
//! parser (after a cap breach: every later character that is small enough to still fit).  Inside
//! a block scalar the scanner then meets ordinary text where it has just been told the input
//! ended and trips over `debug_assert!(is_break(c))` (saphyr-parser scanner.rs, skip_break):
//! with debug assertions on (every `cargo build` / `cargo test` without --release) the call
//! PANICS instead of returning the error.  (Without debug assertions the stored error is
//! returned at the next event.)

use std::io::{self, Read};
use std::panic::{catch_unwind, AssertUnwindSafe};

type Value = serde_json::Value;

fn opts(cap: usize) -> serde_saphyr::Options {
    serde_saphyr::options! {
        budget: serde_saphyr::budget! { max_reader_input_bytes: Some(cap), },
    }
}

fn outcome<T: std::fmt::Debug>(r: std::thread::Result<Result<T, String>>) -> String {
    match r {
        Ok(Ok(v)) => format!("Ok({v:?})"),
        Ok(Err(e)) => format!("Err({e})"),
        Err(p) => format!(
            "PANIC({})",
            p.downcast_ref::<String>().cloned().or_else(|| p.downcast_ref::<&str>().map(|s| s.to_string())).unwrap_or_default()
        ),
    }
}

/// The cap is exceeded by the 4-byte character; the 1-byte 'b' behind it still fits.
#[test]
fn cap_breach_inside_a_block_scalar_returns_an_error() {
    let yaml = "- |\n  aaaa😀b\n  cc\n"; // 20 bytes
    let mut violations = Vec::new();
    for cap in 0..yaml.len() {
        let single = catch_unwind(|| {
            serde_saphyr::from_reader_with_options::<_, Value>(yaml.as_bytes(), opts(cap))
                .map_err(|e| e.to_string())
        });
        if !matches!(single, Ok(Err(_))) {
            violations.push(format!(
                "from_reader_with_options, input {} bytes, max_reader_input_bytes = {cap}: expected Err(input size limit exceeded), actual {}",
                yaml.len(),
                outcome(single)
            ));
        }
        let iter = catch_unwind(|| {
            let mut rd = yaml.as_bytes();
            let items: Vec<Result<Value, String>> = serde_saphyr::read_with_options(&mut rd, opts(cap))
                .map(|r| r.map_err(|e| e.to_string()))
                .collect();
            if items.iter().any(|i| i.is_err()) { Err("some Err item".to_string()) } else { Ok(items) }
        });
        if !matches!(iter, Ok(Err(_))) {
            violations.push(format!(
                "read_with_options, input {} bytes, max_reader_input_bytes = {cap}: expected an Err item, actual {}",
                yaml.len(),
                outcome(iter)
            ));
        }
    }
    assert!(violations.is_empty(), "cap exceeded, no error returned:\n{}", violations.join("\n"));
}

/// A reader whose `fail_read`-th read call fails once (a socket read time-out); every other read
/// delivers the next bytes.
struct TimesOutOnce<'a> {
    data: &'a [u8],
    pos: usize,
    fail_at: usize,
    failed: bool,
}
impl Read for TimesOutOnce<'_> {
    fn read(&mut self, buf: &mut [u8]) -> io::Result<usize> {
        if buf.is_empty() {
            return Ok(0);
        }
        if self.pos >= self.fail_at && !self.failed {
            self.failed = true;
            return Err(io::Error::new(io::ErrorKind::TimedOut, "read timed out"));
        }
        let lim = if self.failed { usize::MAX } else { self.fail_at - self.pos };
        let n = buf.len().min(lim).min(self.data.len() - self.pos);
        buf[..n].copy_from_slice(&self.data[self.pos..self.pos + n]);
        self.pos += n;
        Ok(n)
    }
}

#[test]
fn one_failed_read_inside_a_block_scalar_returns_an_error() {
    let yaml = "- |\n  abc\n  def\n";
    let mut violations = Vec::new();
    for k in 0..yaml.len() {
        let mut reader = TimesOutOnce { data: yaml.as_bytes(), pos: 0, fail_at: k, failed: false };
        let res = catch_unwind(AssertUnwindSafe(|| {
            serde_saphyr::from_reader::<_, Value>(&mut reader).map_err(|e| e.to_string())
        }));
        if !matches!(res, Ok(Err(_))) {
            violations.push(format!(
                "read after byte {k} of {} failed with TimedOut: expected Err(IOError), actual {}",
                yaml.len(),
                outcome(res)
            ));
        }
    }
    assert!(violations.is_empty(), "reader reported an error, no error returned:\n{}", violations.join("\n"));
}
