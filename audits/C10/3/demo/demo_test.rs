//! C10 finding 3: the input-byte cap does not count the bytes of a byte-order mark that the
//! decoder strips (the 3 bytes of a UTF-8 BOM; a UTF-16 BOM when nothing follows it; a second
//! UTF-16 BOM).  An input that is up to 3 bytes LARGER than `max_reader_input_bytes` is read to
//! its end from the reader and accepted, instead of failing with "input size limit exceeded".

use std::collections::BTreeMap;
use std::io::Read;

/// Counts what is pulled from it.
struct Counting<'a> {
    data: &'a [u8],
    pulled: usize,
}
impl Read for Counting<'_> {
    fn read(&mut self, buf: &mut [u8]) -> std::io::Result<usize> {
        let n = buf.len().min(self.data.len() - self.pulled);
        buf[..n].copy_from_slice(&self.data[self.pulled..self.pulled + n]);
        self.pulled += n;
        Ok(n)
    }
}

fn opts(cap: usize) -> serde_saphyr::Options {
    serde_saphyr::options! {
        budget: serde_saphyr::budget! { max_reader_input_bytes: Some(cap), },
    }
}

/// For every cap smaller than the input, both entry points must fail.
fn check(name: &str, input: &[u8]) -> Vec<String> {
    let mut violations = Vec::new();
    for cap in 0..input.len() {
        let mut r = Counting { data: input, pulled: 0 };
        let single: Result<Option<BTreeMap<String, i32>>, _> =
            serde_saphyr::from_reader_with_options(&mut r, opts(cap));
        if let Ok(v) = &single {
            violations.push(format!(
                "{name}: input of {} bytes ({} pulled from the reader), max_reader_input_bytes = {cap}: \
                 from_reader_with_options expected Err(input size limit exceeded), actual Ok({v:?})",
                input.len(),
                r.pulled
            ));
        }
        let mut r = Counting { data: input, pulled: 0 };
        let items: Vec<Result<BTreeMap<String, i32>, String>> =
            serde_saphyr::read_with_options(&mut r, opts(cap))
                .map(|x| x.map_err(|e| e.to_string()))
                .collect();
        if !items.iter().any(|x| x.is_err()) {
            violations.push(format!(
                "{name}: input of {} bytes ({} pulled from the reader), max_reader_input_bytes = {cap}: \
                 read_with_options expected an Err item, actual {items:?}",
                input.len(),
                r.pulled
            ));
        }
    }
    violations
}

#[test]
fn control_without_bom_every_smaller_cap_fails() {
    let v = check("utf-8, no BOM", b"a: 1\n");
    assert!(v.is_empty(), "{}", v.join("\n"));
    // UTF-16LE with BOM and content: the BOM is charged together with the first character.
    let v = check("utf-16le", b"\xFF\xFEa\0:\0 \x001\0\n\0");
    assert!(v.is_empty(), "{}", v.join("\n"));
}

#[test]
fn utf8_bom_is_not_counted() {
    let v = check("utf-8 with BOM", b"\xEF\xBB\xBFa: 1\n");
    assert!(v.is_empty(), "cap exceeded but no error:\n{}", v.join("\n"));
}

#[test]
fn second_utf16_bom_is_not_counted() {
    // FF FE (BOM) FF FE (U+FEFF again, dropped by the decoder) "a: 1\n"
    let v = check("utf-16le, two BOMs", b"\xFF\xFE\xFF\xFEa\0:\0 \x001\0\n\0");
    assert!(v.is_empty(), "cap exceeded but no error:\n{}", v.join("\n"));
}

#[test]
fn lone_bom_is_not_counted() {
    let mut v = check("utf-8 BOM only", b"\xEF\xBB\xBF");
    v.extend(check("utf-16le BOM only", b"\xFF\xFE"));
    // the iterator yields nothing for an empty stream, so only look at the single-document results
    let v: Vec<_> = v.into_iter().filter(|s| s.contains("from_reader_with_options")).collect();
    assert!(v.is_empty(), "cap exceeded but no error:\n{}", v.join("\n"));
}
