//! C10 demo: on a live (blocking) reader, `from_reader_with_options` does not return the error
//! for a breached input-byte cap / a reader failure: before returning it polls the reader again
//! (read-ahead of up to 1024 bytes for an error snippet that such an error cannot even carry) and
//! blocks until the peer sends that much more or closes the stream.
//!
//! The reader below behaves like a socket or pipe whose peer has sent some bytes and is now
//! waiting for the answer: it hands out what it has and then blocks in `read` (until the test
//! releases it). A watchdog turns the hang into a test failure.

use std::io::{self, Read};
use std::sync::atomic::{AtomicUsize, Ordering};
use std::sync::mpsc::{self, Receiver, RecvTimeoutError};
use std::sync::Arc;
use std::time::Duration;

use serde_json::Value;

/// What the peer does once everything it has sent so far has been handed out.
enum Then {
    /// Report a hard error once; if polled again after that, block (nothing more is coming).
    FailOnceThenBlock,
    /// Block (the peer is waiting for our answer and keeps the connection open).
    Block,
}

struct LiveStream {
    sent: Vec<u8>,
    pos: usize,
    then: Then,
    failed: bool,
    /// Released by the test at its very end so that the worker thread can finish.
    release: Receiver<()>,
    /// Number of times the reader was polled although it had nothing left to hand out
    /// (after the error, if it reports one). Each such poll blocks.
    blocking_polls: Arc<AtomicUsize>,
}

impl Read for LiveStream {
    fn read(&mut self, buf: &mut [u8]) -> io::Result<usize> {
        if buf.is_empty() {
            return Ok(0);
        }
        if self.pos < self.sent.len() {
            let n = buf.len().min(self.sent.len() - self.pos);
            buf[..n].copy_from_slice(&self.sent[self.pos..self.pos + n]);
            self.pos += n;
            return Ok(n);
        }
        if matches!(self.then, Then::FailOnceThenBlock) && !self.failed {
            self.failed = true;
            return Err(io::Error::new(io::ErrorKind::ConnectionReset, "injected fault"));
        }
        // Nothing more to hand out: a blocking reader blocks here.
        self.blocking_polls.fetch_add(1, Ordering::SeqCst);
        let _ = self.release.recv();
        Ok(0)
    }
}

fn yaml_of(len: usize) -> Vec<u8> {
    let mut s = String::new();
    let mut i = 0;
    while s.len() < len {
        s.push_str(&format!("k{i}: v{i}\n"));
        i += 1;
    }
    s.into_bytes()
}

enum Entry {
    FromReader,
    ReadIter,
}

/// Runs the entry point on its own thread; returns what it returned within two seconds (as text),
/// or `None` when it is still blocked, together with the number of blocking polls.
fn run(entry: Entry, sent: Vec<u8>, then: Then, cap: Option<usize>) -> (Option<Result<String, String>>, usize) {
    let (release_tx, release_rx) = mpsc::channel::<()>();
    let (result_tx, result_rx) = mpsc::channel::<Result<String, String>>();
    let blocking_polls = Arc::new(AtomicUsize::new(0));
    let mut stream = LiveStream {
        sent,
        pos: 0,
        then,
        failed: false,
        release: release_rx,
        blocking_polls: blocking_polls.clone(),
    };
    let worker = std::thread::spawn(move || {
        let opts = serde_saphyr::options! {
            budget: serde_saphyr::budget! { max_reader_input_bytes: cap, },
        };
        let r: Result<String, String> = match entry {
            Entry::FromReader => serde_saphyr::from_reader_with_options::<_, Value>(&mut stream, opts)
                .map(|v| v.to_string())
                .map_err(|e| e.to_string()),
            Entry::ReadIter => {
                let mut last = Ok(String::from("<no item>"));
                for item in serde_saphyr::read_with_options::<_, Value>(&mut stream, opts).take(100) {
                    last = item.map(|v| v.to_string()).map_err(|e| e.to_string());
                }
                last
            }
        };
        let _ = result_tx.send(r);
    });
    let got = match result_rx.recv_timeout(Duration::from_secs(2)) {
        Ok(r) => Some(r),
        Err(RecvTimeoutError::Timeout) | Err(RecvTimeoutError::Disconnected) => None,
    };
    let polls = blocking_polls.load(Ordering::SeqCst);
    // Let the worker go (the blocked read returns end of input) and wait for it.
    drop(release_tx);
    let _ = worker.join();
    (got, polls)
}

/// The peer has sent 100 bytes; the cap is 64. The breach is known after the 65th byte, and the
/// iterator entry point reports it at once. `from_reader_with_options` must do the same.
#[test]
fn cap_breach_is_returned_without_waiting_for_more_input() {
    let (iter_got, iter_polls) = run(Entry::ReadIter, yaml_of(100), Then::Block, Some(64));
    assert!(
        matches!(&iter_got, Some(Err(e)) if e.contains("input size limit of 64 bytes exceeded")),
        "control (read_with_options): expected the cap error, got {iter_got:?}"
    );
    assert_eq!(iter_polls, 0, "control (read_with_options): blocking polls");

    let (got, polls) = run(Entry::FromReader, yaml_of(100), Then::Block, Some(64));
    assert!(
        matches!(&got, Some(Err(e)) if e.contains("input size limit of 64 bytes exceeded")),
        "from_reader_with_options, cap 64, 100 bytes available on a live stream: \
         expected Err(input size limit of 64 bytes exceeded) within 2 s, \
         actual: {got:?} (None = still blocked in Read::read); blocking polls after the breach: {polls}"
    );
    assert_eq!(polls, 0, "the reader was polled again after the cap had been breached");
}

/// The reader reports a hard error after 40 bytes. That error is the outcome; the reader must not
/// be asked again before it is returned (here the second poll blocks, as on a dead peer).
#[test]
fn reader_failure_is_returned_without_polling_the_reader_again() {
    let (iter_got, iter_polls) = run(Entry::ReadIter, yaml_of(40), Then::FailOnceThenBlock, None);
    assert!(
        matches!(&iter_got, Some(Err(e)) if e.contains("injected fault")),
        "control (read_with_options): expected the injected fault, got {iter_got:?}"
    );
    assert_eq!(iter_polls, 0, "control (read_with_options): blocking polls");

    let (got, polls) = run(Entry::FromReader, yaml_of(40), Then::FailOnceThenBlock, None);
    assert!(
        matches!(&got, Some(Err(e)) if e.contains("injected fault")),
        "from_reader_with_options, reader fails after 40 bytes: expected Err(injected fault) \
         within 2 s, actual: {got:?} (None = still blocked in Read::read); \
         polls after the reader had reported its error: {polls}"
    );
    assert_eq!(polls, 0, "the reader was polled again after it had reported an error");
}
