//! C10 finding 2 (writer side): `to_io_writer` looks at the remembered I/O error only when
//! `value.serialize(..)` returned `Err`.  When the `Err` of the failed write is dropped on the way
//! up (a "best effort" `Serialize` impl that skips elements it cannot serialize), `to_io_writer`
//! returns `Ok(())` although a write failed, and - because the adapter keeps writing after a
//! failed write - what reached the writer is NOT a prefix of the fault-free output.

use serde::ser::{Serialize, SerializeSeq, Serializer};
use std::io::{self, Write};

/// Accepts every write except the `fail_write`-th one (1-based), which fails.
struct FailNth {
    /// when set, every write from the `fail_write`-th on fails (a hard, persistent failure)
    persistent: bool,
    out: Vec<u8>,
    writes: usize,
    fail_write: usize,
    failed: bool,
    writes_after_failure: usize,
}

impl FailNth {
    fn new(fail_write: usize) -> Self {
        FailNth { persistent: false, out: Vec::new(), writes: 0, fail_write, failed: false, writes_after_failure: 0 }
    }
}

impl Write for FailNth {
    fn write(&mut self, buf: &[u8]) -> io::Result<usize> {
        self.writes += 1;
        if self.failed {
            self.writes_after_failure += 1;
        }
        if self.writes == self.fail_write || (self.persistent && self.writes > self.fail_write) {
            self.failed = true;
            return Err(io::Error::new(io::ErrorKind::TimedOut, "peer too slow"));
        }
        self.out.extend_from_slice(buf);
        Ok(buf.len())
    }
    fn flush(&mut self) -> io::Result<()> {
        Ok(())
    }
}

/// A list that is serialized on a best-effort basis: an element that cannot be serialized is
/// skipped (think of elements whose `Serialize` may fail, e.g. a poisoned `Mutex`).
struct BestEffort(Vec<i32>);

impl Serialize for BestEffort {
    fn serialize<S: Serializer>(&self, s: S) -> Result<S::Ok, S::Error> {
        let mut seq = s.serialize_seq(Some(self.0.len()))?;
        for x in &self.0 {
            let _ = seq.serialize_element(x);
        }
        seq.end()
    }
}

#[test]
fn failed_write_is_reported_and_output_is_a_prefix() {
    let value = BestEffort(vec![1, 2, 3, 4]);

    let mut clean = FailNth::new(usize::MAX);
    serde_saphyr::to_io_writer(&mut clean, &value).unwrap();
    let full = clean.out.clone();
    assert_eq!(String::from_utf8_lossy(&full), "- 1\n- 2\n- 3\n- 4\n");

    let mut violations = Vec::new();
    for k in 1..=clean.writes {
        let mut w = FailNth::new(k);
        let res = serde_saphyr::to_io_writer(&mut w, &value);
        assert!(w.failed, "write #{k} did fail");
        let is_io_err = matches!(&res, Err(serde_saphyr::ser_error::Error::IO { .. }));
        let is_prefix = full.starts_with(&w.out);
        if !is_io_err || !is_prefix {
            violations.push(format!(
                "write #{k} of {} failed: result expected Err(IO), actual {:?}; written expected a prefix of {:?}, actual {:?} (prefix: {is_prefix}); {} more write calls after the failure",
                clean.writes,
                res.as_ref().map_err(|e| e.to_string()),
                String::from_utf8_lossy(&full),
                String::from_utf8_lossy(&w.out),
                w.writes_after_failure,
            ));
        }
    }
    assert!(
        violations.is_empty(),
        "to_io_writer swallowed a writer failure:\n{}",
        violations.join("\n")
    );
}

/// The writer is dead for good from write #k on: nothing of this may be reported as success.
#[test]
fn persistent_writer_failure_is_reported() {
    let value = BestEffort(vec![1, 2, 3, 4]);
    let mut violations = Vec::new();
    for k in 1..=12 {
        let mut w = FailNth::new(k);
        w.persistent = true;
        let res = serde_saphyr::to_io_writer(&mut w, &value);
        if !matches!(&res, Err(serde_saphyr::ser_error::Error::IO { .. })) {
            violations.push(format!(
                "every write from #{k} on failed ({} failed writes): expected Err(IO), actual {:?}, written {:?}",
                w.writes - k + 1,
                res.as_ref().map_err(|e| e.to_string()),
                String::from_utf8_lossy(&w.out)
            ));
        }
    }
    assert!(violations.is_empty(), "to_io_writer reported success on a dead writer:\n{}", violations.join("\n"));
}
