//! C10 finding 1: a reader error (or a breach of the input-byte cap) is lost for good once a
//! `Deserialize` impl has looked at it and decided to go on.
//!
//! `LiveEvents::io_error()` *takes* the stored I/O error out of the shared cell when it reports
//! it from `next()` / `peek()`.  A lenient `Deserialize` impl (the pattern of
//! `serde_with::DefaultOnError`: "if the inner value cannot be deserialized use the default")
//! drops that `Err`.  From then on nothing remembers that the reader failed: the final
//! `finish()` finds an empty cell and `from_reader` returns `Ok(value)` - a value built from the
//! truncated prefix of the input.

use serde::de::Deserializer;
use serde::Deserialize;
use std::io::{self, Read};

/// Delivers `data` in chunks of at most `chunk` bytes; once `fail_at` bytes have been delivered
/// every further read fails with a hard error.
struct Faulty<'a> {
    data: &'a [u8],
    pos: usize,
    chunk: usize,
    fail_at: usize,
    errors_reported: usize,
}

impl<'a> Faulty<'a> {
    fn new(data: &'a [u8], chunk: usize, fail_at: usize) -> Self {
        Faulty { data, pos: 0, chunk, fail_at, errors_reported: 0 }
    }
}

impl Read for Faulty<'_> {
    fn read(&mut self, buf: &mut [u8]) -> io::Result<usize> {
        if buf.is_empty() {
            return Ok(0);
        }
        if self.pos >= self.fail_at {
            self.errors_reported += 1;
            return Err(io::Error::new(io::ErrorKind::Other, "disk on fire"));
        }
        let n = buf
            .len()
            .min(self.chunk)
            .min(self.fail_at - self.pos)
            .min(self.data.len() - self.pos);
        buf[..n].copy_from_slice(&self.data[self.pos..self.pos + n]);
        self.pos += n;
        Ok(n)
    }
}

/// `T`, or `T::default()` when `T` cannot be deserialized (what `serde_with::DefaultOnError` does).
#[derive(Debug, PartialEq, Default)]
struct Lenient<T>(T);

impl<'de, T: Deserialize<'de> + Default> Deserialize<'de> for Lenient<T> {
    fn deserialize<D: Deserializer<'de>>(d: D) -> Result<Self, D::Error> {
        Ok(Lenient(T::deserialize(d).unwrap_or_default()))
    }
}

const YAML: &str = "- 1\n- 2\n- 3\n- 4\n";

/// Control: with an ordinary element type every fault position yields an error.
#[test]
fn control_plain_elements_always_fail() {
    for k in 0..YAML.len() {
        for chunk in [1usize, 3, 4096] {
            let res: Result<Vec<i32>, _> =
                serde_saphyr::from_reader(Faulty::new(YAML.as_bytes(), chunk, k));
            assert!(res.is_err(), "k={k} chunk={chunk}: expected Err, got {res:?}");
        }
    }
}

#[test]
fn reader_error_seen_by_a_lenient_element_is_lost() {
    let mut violations = Vec::new();
    for k in 0..YAML.len() {
        for chunk in [1usize, 3, 4096] {
            let mut reader = Faulty::new(YAML.as_bytes(), chunk, k);
            let res: Result<Vec<Lenient<i32>>, _> = serde_saphyr::from_reader(&mut reader);
            assert!(reader.errors_reported > 0, "the reader did report an error");
            if let Ok(v) = res {
                violations.push(format!(
                    "reader failed after {k} of {} bytes (chunk {chunk}, {} read errors reported): \
                     expected Err(IOError), actual Ok({v:?})",
                    YAML.len(),
                    reader.errors_reported
                ));
            }
        }
    }
    assert!(
        violations.is_empty(),
        "from_reader returned a value although the reader reported an error:\n{}",
        violations.join("\n")
    );
}

#[test]
fn input_cap_breach_seen_by_a_lenient_element_is_lost() {
    // 16 bytes of input, cap of 6 bytes.
    let opts = serde_saphyr::options! {
        budget: serde_saphyr::budget! { max_reader_input_bytes: Some(6), },
    };
    let res: Result<Vec<Lenient<i32>>, _> =
        serde_saphyr::from_reader_with_options(YAML.as_bytes(), opts);
    assert!(
        res.is_err(),
        "input of {} bytes, max_reader_input_bytes = 6: expected Err(input size limit exceeded), actual {res:?}",
        YAML.len()
    );
}

#[test]
fn iterator_entry_point_loses_it_too() {
    // Two documents; the reader dies inside the first one.
    let yaml = "- 1\n- 2\n- 3\n---\n- 4\n";
    let mut reader = Faulty::new(yaml.as_bytes(), 4096, 6);
    let items: Vec<Result<Vec<Lenient<i32>>, String>> = serde_saphyr::read(&mut reader)
        .map(|r| r.map_err(|e| e.to_string()))
        .collect();
    assert!(reader.errors_reported > 0);
    assert!(
        items.iter().any(|r| r.is_err()),
        "reader failed after 6 of {} bytes: expected the iterator to yield an Err, actual items {items:?}",
        yaml.len()
    );
}
