//! C10 / input-size cap: in UTF-16 reader input, a U+FEFF that directly follows the byte-order
//! mark is swallowed by the transcoding layer (the BOM is stripped twice: once by the BOM peeker
//! because of `strip_bom(true)`, once more by the decoder, which is always built "with BOM
//! removal"). The character never reaches `ChunkedChars`, so its two raw bytes are never charged
//! to `max_reader_input_bytes`: an input that is 1 or 2 bytes LARGER than the cap is accepted and
//! a value is returned, where the statement requires an error.

use serde_json::Value;

fn utf16le(with_second_bom: bool, text: &str) -> Vec<u8> {
    let mut raw = vec![0xFF, 0xFE]; // the byte-order mark
    if with_second_bom {
        raw.extend_from_slice(&[0xFF, 0xFE]); // U+FEFF as first character of the text
    }
    for unit in text.encode_utf16() {
        raw.extend_from_slice(&unit.to_le_bytes());
    }
    raw
}

fn capped(cap: usize) -> serde_saphyr::Options {
    serde_saphyr::options! {
        budget: serde_saphyr::budget! { max_reader_input_bytes: Some(cap), },
    }
}

/// Control: without the extra U+FEFF the cap is exact (this part passes).
#[test]
fn control_single_bom_cap_is_exact() {
    let raw = utf16le(false, "a: 1\n");
    let len = raw.len(); // 12
    let ok: Result<Value, _> = serde_saphyr::from_reader_with_options(&raw[..], capped(len));
    assert!(ok.is_ok(), "cap == len must not affect the input: {ok:?}");
    let err: Result<Value, _> = serde_saphyr::from_reader_with_options(&raw[..], capped(len - 1));
    assert!(err.is_err(), "cap == len-1 must fail, got {err:?}");
}

#[test]
fn from_reader_accepts_utf16_input_larger_than_the_cap() {
    let raw = utf16le(true, "a: 1\n");
    let len = raw.len(); // 14 raw bytes
    for cap in [len - 2, len - 1] {
        let res: Result<Value, _> = serde_saphyr::from_reader_with_options(&raw[..], capped(cap));
        assert!(
            res.is_err(),
            "input of {len} raw bytes, max_reader_input_bytes = {cap}: expected an error \
             (cap exceeded), actual {res:?}"
        );
    }
}

#[test]
fn read_iterator_accepts_utf16_input_larger_than_the_cap() {
    let raw = utf16le(true, "a: 1\n---\nb: 2\n");
    let len = raw.len();
    for cap in [len - 2, len - 1] {
        let mut reader = &raw[..];
        let items: Vec<Result<Value, String>> =
            serde_saphyr::read_with_options::<_, Value>(&mut reader, capped(cap))
                .map(|r| r.map_err(|e| e.to_string()))
                .collect();
        assert!(
            items.iter().any(|r| r.is_err()),
            "input of {len} raw bytes, max_reader_input_bytes = {cap}: expected the iterator to \
             report the exceeded cap, actual items {items:?}"
        );
    }
}
