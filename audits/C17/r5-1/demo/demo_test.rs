//! C17 / reader snippets: when the retained window of recent bytes happens to begin (after the
//! partial first line has been left out) with a line whose first character is U+FEFF, that
//! character is taken for a stream byte-order mark and stripped from the snippet text, while the
//! parser counted it as column 1 of its line. The marker is drawn one column too far right.
//!
//! U+FEFF in the middle of a stream is legal YAML (YAML 1.2 allows a byte-order mark in front of
//! every document of a stream - think `cat a.yaml b.yaml` of two files saved with a BOM - and a
//! plain scalar may contain it); the string entry points render the very same document correctly.

use std::collections::BTreeMap;

type Target = BTreeMap<String, Vec<u32>>;

/// Character of the numbered source line `line_no` that stands above the `^` of the marker line
/// (zero-width U+FEFF in the shown line is skipped; everything else here is ASCII).
fn char_above_caret(rendered: &str, line_no: usize) -> Option<char> {
    let lines: Vec<&str> = rendered.lines().collect();
    let prefix = format!("{line_no} | ");
    let i = lines.iter().position(|l| l.trim_start().starts_with(&prefix))?;
    let src = lines[i];
    let bar = src.find(" | ")? + 3;
    let marker = lines.get(i + 1)?;
    let caret = marker.find('^')?;
    if caret < bar {
        return None;
    }
    let display_col = marker[bar..caret].chars().count();
    src[bar..]
        .chars()
        .filter(|c| *c != '\u{feff}')
        .nth(display_col)
}

fn document() -> String {
    // line 1, line 2 (a long comment: the retained window will begin somewhere inside it),
    // line 3 begins with U+FEFF and carries the error (`x` is not a u32) in column 9.
    let mut y = String::from("a: [1]\n");
    y.push_str(&format!("# {}\n", "c".repeat(200)));
    y.push_str("\u{feff}k: [1, x]\n");
    while y.len() < 3170 {
        y.push_str("# pad pad pad pad pad\n");
    }
    // The ring keeps the last 3072 bytes: it must start inside line 2.
    assert!(y.len() - 3072 > 7 && y.len() - 3072 < 209, "layout: len {}", y.len());
    y
}

#[test]
fn reader_snippet_puts_the_marker_under_the_reported_column() {
    let y = document();

    // Control: the string entry point renders this document correctly.
    let err = serde_saphyr::from_str::<Target>(&y).unwrap_err();
    let loc = err.location().expect("location");
    assert_eq!((loc.line(), loc.column()), (3, 9));
    let rendered = err.to_string();
    assert_eq!(
        char_above_caret(&rendered, 3),
        Some('x'),
        "from_str: marker not under column 9 (`x`):\n{rendered}"
    );

    // The reader entry point: same document, same location, snippet cut from the ring.
    let err =
        serde_saphyr::from_reader::<_, Target>(std::io::Cursor::new(y.as_bytes())).unwrap_err();
    let loc = err.location().expect("location");
    // U+FEFF is column 1, `k` 2, `:` 3, ` ` 4, `[` 5, `1` 6, `,` 7, ` ` 8, `x` 9.
    assert_eq!((loc.line(), loc.column()), (3, 9));
    let rendered = err.to_string();
    assert!(
        rendered.contains("3 | "),
        "expected a snippet with line 3 from the reader's recent-bytes window:\n{rendered}"
    );
    assert_eq!(
        char_above_caret(&rendered, 3),
        Some('x'),
        "from_reader: the reported location is line 3 column 9, i.e. `x`; expected the marker \
         under `x` (left = character actually above the marker):\n{rendered}"
    );
}
