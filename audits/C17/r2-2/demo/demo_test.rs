//! C17, "snippet on / off" x "string and reader entry points": with snippets switched off in the
//! options the report must not carry a source window. `from_reader_with_options` attaches the
//! window from its recent-bytes ring regardless of `Options::with_snippet`.
//!
//! run: cargo test --offline --test demo_test

use std::collections::BTreeMap;
use std::io::Cursor;

type Doc = BTreeMap<String, i32>;

const YAML: &str = "a: 1\nb: \"\\e[31mred\"\nc: 3\n";

fn has_source_window(rendered: &str) -> bool {
    rendered.lines().any(|l| l.trim_start().starts_with("2 | ")) || rendered.contains("-->")
}

#[test]
fn string_entry_point_honours_with_snippet_false() {
    // Reference behaviour: the string entry point renders the plain message.
    let opts = serde_saphyr::options! { with_snippet: false };
    let err = serde_saphyr::from_str_with_options::<Doc>(YAML, opts).unwrap_err();
    let rendered = err.to_string();
    assert_eq!(rendered, "invalid i32 at line 2, column 4");
    assert!(matches!(err, serde_saphyr::Error::Message { .. }) || !has_source_window(&rendered));
}

#[test]
fn reader_entry_point_honours_with_snippet_false() {
    let opts = serde_saphyr::options! { with_snippet: false };
    let err = serde_saphyr::from_reader_with_options::<_, Doc>(Cursor::new(YAML.as_bytes()), opts)
        .unwrap_err();
    let rendered = err.to_string();
    assert!(
        !has_source_window(&rendered),
        "with_snippet: false - expected the plain message `invalid i32 at line 2, column 4` \
         (as from_str_with_options gives), actual report carries a source window:\n{rendered}"
    );
}

#[test]
fn reader_error_is_not_wrapped_when_snippets_are_off() {
    let opts = serde_saphyr::options! { with_snippet: false };
    let err = serde_saphyr::from_reader_with_options::<_, Doc>(Cursor::new(YAML.as_bytes()), opts)
        .unwrap_err();
    assert!(
        !matches!(err, serde_saphyr::Error::WithSnippet { .. }),
        "with_snippet: false - expected the unwrapped error, actual: Error::WithSnippet holding \
         the source text {:?}",
        match &err {
            serde_saphyr::Error::WithSnippet { regions, .. } =>
                regions.iter().map(|r| r.text.clone()).collect::<Vec<_>>(),
            _ => vec![],
        }
    );
}
