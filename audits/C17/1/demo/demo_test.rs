//! C17 finding 1: a stored source window that was cropped horizontally for ONE location is reused
//! for ANOTHER location on a neighbouring line (regions are picked by line number only).
//! With a line > 4 KiB in the window ("storage-time" cropping in `crop_source_window`) the second
//! location's window is either lost or shows its marker under the wrong text.

use serde::Deserialize;

#[derive(Debug, Deserialize)]
#[allow(dead_code)]
struct Doc {
    a: Vec<String>,
    b: (String, i32),
}

/// Returns (source text of the numbered line `line_no`, char under the caret) found in `window`.
fn line_and_char_under_caret(window: &str, line_no: usize) -> Option<(String, Option<char>)> {
    let lines: Vec<&str> = window.lines().collect();
    let prefix = format!("{line_no} | ");
    for (i, l) in lines.iter().enumerate() {
        let t = l.trim_start();
        if let Some(rest) = t.strip_prefix(&prefix) {
            let gutter = l.len() - t.len() + prefix.len();
            let caret_line = lines.get(i + 1)?;
            let cpos = caret_line.find('^')?;
            if cpos < gutter {
                return None;
            }
            // all text used here is ASCII, so display column == char index
            return Some((rest.to_string(), rest.chars().nth(cpos - gutter)));
        }
    }
    None
}

fn secondary_window(rendered: &str) -> &str {
    let idx = rendered
        .find("comes indirectly from the anchor")
        .expect("dual-location rendering expected");
    &rendered[idx..]
}

fn short(rendered: &str) -> String {
    rendered
        .lines()
        .map(|l| l.chars().take(100).collect::<String>())
        .collect::<Vec<_>>()
        .join("\n")
}

/// The anchor is defined at line 1, column 8 (`abc`); the alias is used on line 2 at column 109.
/// Line 1 is longer than 4 KiB, so the window stored for the alias location keeps only columns
/// 45..=173 of line 1. That window is then also used for the definition location (1:8).
#[test]
fn defined_here_marker_is_under_the_anchor_text() {
    let long = "x".repeat(5000);
    let pad = "y".repeat(100);
    let yaml = format!("a: [&x abc, \"{long}\"]\nb: [\"{pad}\", *x]\n");
    let err = serde_saphyr::from_str::<Doc>(&yaml).expect_err("abc is not an i32");

    let locs = err.locations().expect("two locations");
    assert_eq!((locs.defined_location.line(), locs.defined_location.column()), (1, 8));

    let rendered = err.to_string();
    let sec = secondary_window(&rendered);
    let found = line_and_char_under_caret(sec, 1);
    let (line, under) = found.unwrap_or_else(|| {
        panic!(
            "expected: the 'defined here' window shows line 1 with a marker\nactual:\n{}",
            short(&rendered)
        )
    });
    assert!(
        line.starts_with("a: [&x abc") && under == Some('a'),
        "expected: line 1 shown from its start (`a: [&x abc, ...`) with the marker under column 8 (`a` of `abc`)\n\
         actual: line shown as {:?}, marker under {:?}\nfull report:\n{}",
        line.chars().take(40).collect::<String>(),
        under,
        short(&rendered)
    );
}

/// Same shape, but now the definition is at the far right of the long line (1:5012) and the alias
/// at 2:4. The window stored for the alias keeps columns 1..=68 of line 1, and it is that window
/// that is used for 1:5012: the column does not exist in it, so nothing at all is printed after
/// "This value comes indirectly from the anchor at line 1 column 5012:".
#[test]
fn defined_here_window_is_not_lost() {
    #[derive(Debug, Deserialize)]
    #[allow(dead_code)]
    struct Doc2 {
        a: Vec<String>,
        b: i32,
    }
    let long = "x".repeat(5000);
    let yaml = format!("a: [\"{long}\", &x abc]\nb: *x\n");
    let err = serde_saphyr::from_str::<Doc2>(&yaml).expect_err("abc is not an i32");
    let locs = err.locations().expect("two locations");
    assert_eq!((locs.defined_location.line(), locs.defined_location.column()), (1, 5012));

    let rendered = err.to_string();
    let sec = secondary_window(&rendered);
    let found = line_and_char_under_caret(sec, 1);
    assert!(
        matches!(found, Some((_, Some('a')))),
        "expected: a 'defined here' window with line 1 cropped around column 5012 and the marker under `a` of `abc`\n\
         actual: {:?}\nfull report:\n{}",
        found.map(|(l, c)| (l.chars().take(40).collect::<String>(), c)),
        short(&rendered)
    );

    // Control: the same document with a short line renders the second window fine.
    let yaml = format!("a: [\"{}\", &x abc]\nb: *x\n", "x".repeat(500));
    let err = serde_saphyr::from_str::<Doc2>(&yaml).expect_err("abc is not an i32");
    let rendered = err.to_string();
    assert!(
        matches!(line_and_char_under_caret(secondary_window(&rendered), 1), Some((_, Some('a')))),
        "control failed:\n{}",
        short(&rendered)
    );
}

/// The same mechanism with a validation report (needs `--features garde`): the second issue
/// (line 2, column 217) is rendered from the window that was cropped for the first issue
/// (line 1, column 4) and loses its snippet.
#[cfg(feature = "garde")]
#[test]
fn every_validation_issue_keeps_its_window() {
    use garde::Validate;
    #[derive(Debug, Deserialize, Validate)]
    struct Inner {
        #[garde(skip)]
        #[allow(dead_code)]
        pad: String,
        #[garde(length(max = 3))]
        c: String,
    }
    #[derive(Debug, Deserialize, Validate)]
    struct Top {
        #[garde(length(max = 10))]
        a: String,
        #[garde(dive)]
        b: Inner,
    }
    let yaml = format!(
        "a: \"{}\"\nb: {{pad: \"{}\", c: \"zzzzzz\"}}\n",
        "x".repeat(5000),
        "y".repeat(200)
    );
    let err = serde_saphyr::from_str_valid::<Top>(&yaml).expect_err("two issues");
    let rendered = err.to_string();
    let second = &rendered[rendered.find("`b.c`").expect("second issue")..];
    assert!(
        second.contains("zzzzzz") && second.contains('^'),
        "expected: the issue for `b.c` (2:217) is shown with its source line and a marker\nactual:\n{}",
        short(&rendered)
    );
}
