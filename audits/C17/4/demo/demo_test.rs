//! C17 finding 4: the miette adapter drops the label (and with it the whole source window) for an
//! error whose location is the end of the input - e.g. an unterminated quoted scalar or a last
//! line without its colon, two of the most common YAML mistakes.
//!
//! Needs `--features miette`.
#![cfg(feature = "miette")]

use miette::{GraphicalReportHandler, GraphicalTheme};

type Target = serde::de::IgnoredAny;

fn render(report: &miette::Report) -> String {
    let mut out = String::new();
    GraphicalReportHandler::new_themed(GraphicalTheme::unicode_nocolor())
        .render_report(&mut out, report.as_ref())
        .expect("render");
    out
}

fn check(err: &serde_saphyr::Error, yaml: &str, entry: &str, last_line: &str) {
    let loc = err.location().expect("the error has a location");
    assert!(loc.line() > 0 && loc.column() > 0, "known location");
    // The location is the end of the input: the (empty) line behind the final line break.
    assert_eq!(
        (loc.line() as usize, loc.column()),
        (yaml.matches('\n').count() + 1, 1),
        "[{entry}] location"
    );
    // Display rendering of the same error does show a source window with a marker.
    let display = err.to_string();
    assert!(display.contains(last_line) && display.contains('^'), "[{entry}] control (Display):\n{display}");

    let report = serde_saphyr::miette::to_miette_report(err, yaml, "config.yaml");
    let labels: Vec<miette::LabeledSpan> = report.labels().map(|l| l.collect()).unwrap_or_default();
    let rendered = render(&report);
    assert!(
        !labels.is_empty(),
        "[{entry}] expected: one label at byte offset {} (line {} column {})\nactual: no label at all; miette report:\n{rendered}",
        yaml.len(),
        loc.line(),
        loc.column()
    );
    assert_eq!(labels[0].offset(), yaml.len(), "[{entry}] label offset");
    assert!(
        rendered.contains(last_line),
        "[{entry}] expected: the miette report shows the source around the location\nactual:\n{rendered}"
    );
}

#[test]
fn unterminated_quote_from_str() {
    let yaml = "id: 7\nname: \"demo\n";
    let err = serde_saphyr::from_str::<Target>(yaml).expect_err("unterminated quote");
    check(&err, yaml, "from_str", "name: \"demo");
}

#[test]
fn unterminated_quote_from_reader() {
    let yaml = "id: 7\nname: \"demo\n";
    let err = serde_saphyr::from_reader::<_, Target>(yaml.as_bytes()).expect_err("unterminated quote");
    check(&err, yaml, "from_reader", "name: \"demo");
}

#[test]
fn missing_colon_on_the_last_line_from_str() {
    let yaml = "id: 7\nname\n";
    let err = serde_saphyr::from_str::<Target>(yaml).expect_err("`name` has no colon");
    check(&err, yaml, "from_str", "name");
}

#[test]
fn second_document_marker_at_the_end_from_reader() {
    let yaml = "id: 7\n---\n";
    let err = serde_saphyr::from_reader::<_, Target>(yaml.as_bytes()).expect_err("single document expected");
    check(&err, yaml, "from_reader", "---");
}

/// Control: one character earlier everything works (the label is there).
#[test]
fn control_location_before_the_end_has_a_label() {
    let yaml = "items: [a, @b]\n";
    let err = serde_saphyr::from_str::<Target>(yaml).expect_err("@ cannot start a token");
    let report = serde_saphyr::miette::to_miette_report(&err, yaml, "config.yaml");
    assert_eq!(report.labels().map(|l| l.count()), Some(1));
    assert!(render(&report).contains("items: [a, @b]"));
}
