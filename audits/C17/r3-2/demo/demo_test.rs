//! C17 finding 2: the miette adapter does not crop. A report built with
//! `serde_saphyr::miette::to_miette_report` prints every line it shows in full, however long,
//! while the statement bounds every rendering - "for the miette adapter" included - to lines
//! "cropped to the configured radius around the error column".
//!
//! features: miette

use serde::Deserialize;

#[derive(Debug, Deserialize)]
#[allow(dead_code)]
struct Doc {
    values: Vec<u32>,
}

fn render(report: &miette::Report) -> String {
    let handler =
        miette::GraphicalReportHandler::new_themed(miette::GraphicalTheme::unicode_nocolor());
    let mut out = String::new();
    handler
        .render_report(&mut out, report.as_ref())
        .expect("miette renders the report");
    out
}

/// A minified one-line document (40 000 columns) with one wrong element at column ~20 000.
#[test]
fn miette_report_of_an_error_on_a_very_long_line_is_cropped() {
    let radius = 64usize; // the default `Options::crop_radius`
    let mut yaml = String::from("{values: [");
    yaml.push_str(&"1, ".repeat(6_600));
    yaml.push_str("oops, ");
    yaml.push_str(&"2, ".repeat(6_600));
    yaml.push_str("3]}\n");
    assert!(yaml.len() > 39_000);

    let err = serde_saphyr::from_str::<Doc>(&yaml).unwrap_err();
    let loc = err.location().expect("location");
    assert_eq!(loc.line(), 1);
    assert!(loc.column() > 19_000 && loc.column() < 21_000, "{loc:?}");

    // The crate's own rendering is bounded: the line is cropped to the radius.
    let plain = err.to_string();
    let longest_plain = plain.lines().map(|l| l.chars().count()).max().unwrap_or(0);
    assert!(
        longest_plain <= 2 * radius + 40,
        "Display: longest line has {longest_plain} columns"
    );
    assert!(plain.contains("oops"), "{plain}");

    // The miette adapter: same error, same source.
    let report = serde_saphyr::miette::to_miette_report(&err, &yaml, "config.yaml");
    let rendered = render(&report);
    assert!(rendered.contains("oops"), "the report shows the offending element");
    let longest = rendered.lines().map(|l| l.chars().count()).max().unwrap_or(0);
    assert!(
        longest <= 2 * radius + 40,
        "expected every line of the miette report cropped to the radius ({radius}) around the \
         error column, i.e. at most about {} columns; actual: the longest line has {longest} \
         columns, the report {} bytes (Display of the same error: {} bytes)",
        2 * radius + 40,
        rendered.len(),
        plain.len()
    );
}

/// Context lines are not cropped either: the error sits on a short line, its neighbours are
/// 50 000 columns long (base64 blobs, say).
#[test]
fn miette_report_crops_long_context_lines() {
    let radius = 64usize;
    let blob = "A".repeat(50_000);
    let yaml = format!("before: {blob}\nvalues: [1, oops]\nafter: {blob}\n");

    let err = serde_saphyr::from_str::<Doc>(&yaml).unwrap_err();
    let loc = err.location().expect("location");
    assert_eq!((loc.line(), loc.column()), (2, 13));

    let plain = err.to_string();
    let longest_plain = plain.lines().map(|l| l.chars().count()).max().unwrap_or(0);
    assert!(
        longest_plain <= 2 * radius + 40,
        "Display: longest line has {longest_plain} columns"
    );

    let report = serde_saphyr::miette::to_miette_report(&err, &yaml, "config.yaml");
    let rendered = render(&report);
    let longest = rendered.lines().map(|l| l.chars().count()).max().unwrap_or(0);
    assert!(
        longest <= 2 * radius + 40,
        "expected the context lines of the miette report cropped like the error line (at most \
         about {} columns); actual: the longest line has {longest} columns, the report {} bytes \
         (Display of the same error: {} bytes)",
        2 * radius + 40,
        rendered.len(),
        plain.len()
    );
}
