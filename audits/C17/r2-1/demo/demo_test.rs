//! C17 (miette adapter): the label must sit on the line / column the error's location reports.
//!
//! `to_miette_report` places the label by the parser's *character index* whenever the location
//! carries no byte offsets (every error from a reader, and every scan error). That index is not
//! always consistent with the line / column of the same location, so the label lands on another
//! line, or is dropped, while `Display` (which uses line / column) points at the right place.
//!
//! run: cargo test --offline --features miette --test demo_test

use std::collections::BTreeMap;
use std::io::Cursor;

type Doc = BTreeMap<String, i32>;

/// (line, column) - 1-based, column in characters - of a byte offset of `src`.
fn line_col_of(src: &str, off: usize) -> (u64, u64) {
    let pre = &src[..off];
    let line = pre.matches('\n').count() as u64 + 1;
    let start = pre.rfind('\n').map(|i| i + 1).unwrap_or(0);
    (line, pre[start..].chars().count() as u64 + 1)
}

fn label_positions(err: &serde_saphyr::Error, yaml: &str) -> Vec<(u64, u64)> {
    let report = serde_saphyr::miette::to_miette_report(err, yaml, "input.yaml");
    report
        .labels()
        .map(|it| it.map(|l| line_col_of(yaml, l.offset())).collect())
        .unwrap_or_default()
}

fn render(err: &serde_saphyr::Error, yaml: &str) -> String {
    let report = serde_saphyr::miette::to_miette_report(err, yaml, "input.yaml");
    let mut out = String::new();
    miette::GraphicalReportHandler::new_themed(miette::GraphicalTheme::unicode_nocolor())
        .with_width(100)
        .render_report(&mut out, report.as_ref())
        .unwrap();
    out
}

/// Legal YAML: a reserved directive (to be ignored) whose line carries non-ASCII text, then an
/// ordinary document with one value of the wrong type. Read through `from_reader`.
#[test]
fn reader_error_after_directive_line_with_non_ascii_text_is_labelled_on_its_line() {
    let yaml = "%FOO 日本語日本語日本語\n---\na: 1\nb: 2\nc: x\nd: 4\ne: 5\nf: 6\ng: 7\nh: 8\n";
    let err = serde_saphyr::from_reader::<_, Doc>(Cursor::new(yaml.as_bytes())).unwrap_err();
    let loc = err.location().expect("location");
    assert_eq!((loc.line(), loc.column()), (5, 4), "the reported location is the `x`");

    let labels = label_positions(&err, yaml);
    assert_eq!(
        labels,
        vec![(5, 4)],
        "expected: one miette label at the reported location 5:4; actual labels at {labels:?}\n\
         Display output:\n{err}\nmiette output:\n{}",
        render(&err, yaml)
    );
}

/// The string entry point is affected as well when the error is a syntax (scan) error: those
/// never carry byte offsets.
#[test]
fn scan_error_after_directive_line_with_non_ascii_text_is_labelled_on_its_line() {
    let yaml = "%FOO 日本語日本語日本語\n---\na: 1\nb: 2\nc: @\nd: 4\ne: 5\nf: 6\ng: 7\nh: 8\n";
    let err = serde_saphyr::from_str::<Doc>(yaml).unwrap_err();
    let loc = err.location().expect("location");
    assert_eq!((loc.line(), loc.column()), (5, 4), "the reported location is the `@`");

    let labels = label_positions(&err, yaml);
    assert_eq!(
        labels,
        vec![(5, 4)],
        "expected: one miette label at the reported location 5:4; actual labels at {labels:?}\n\
         Display output:\n{err}\nmiette output:\n{}",
        render(&err, yaml)
    );
}

/// A document carrying a control character (NUL) in a key; string entry point.
#[test]
fn scan_error_in_document_with_nul_is_labelled_on_its_line() {
    let yaml = "k: 1\nj\0: x\nl: 3\nm: 4\n";
    let err = serde_saphyr::from_str::<Doc>(yaml).unwrap_err();
    let loc = err.location().expect("location");
    let reported = (loc.line(), loc.column());
    // Display puts the marker at the reported location (line 3, column 1).
    let shown = err.to_string();
    assert!(shown.contains("3 | l: 3\n  | ^"), "Display marks line 3 column 1:\n{shown}");
    assert_eq!(reported, (3, 1));

    let labels = label_positions(&err, yaml);
    assert_eq!(
        labels,
        vec![reported],
        "expected: one miette label at the reported location {reported:?}; actual labels at {labels:?}\n\
         miette output:\n{}",
        render(&err, yaml)
    );
}
