//! C17: the marker of a location inside *moderate* indentation (7..=20 columns) is drawn into
//! the line-number gutter as soon as one line of the window is wider than annotate-snippets'
//! terminal width (140 columns).
//!
//! The repair "the marker of a location inside deep indentation is not drawn into the gutter"
//! only routes windows whose lines share MORE than 20 columns of indentation to the crate's own
//! renderer. annotate-snippets has a second left-trimming rule (`Margin::compute`): when a line
//! of the window does not fit the terminal width it cuts `shared indentation - 6` columns from
//! the left of every line - for any shared indentation of 7 columns and more - and still takes
//! it for granted that no marker points into what it cut.

use serde_json::Value;

/// Returns (column of the gutter bar `|` in the numbered source lines, the marker line).
fn gutter_and_marker(rendered: &str) -> (usize, String) {
    let mut bar = None;
    let mut marker = None;
    for l in rendered.lines() {
        let t = l.trim_start();
        // numbered source line: "<digits> | text"
        if bar.is_none() && t.chars().next().is_some_and(|c| c.is_ascii_digit()) {
            bar = l.find('|');
        }
        if marker.is_none() && l.contains('^') {
            marker = Some(l.to_string());
        }
    }
    (
        bar.expect("a numbered source line"),
        marker.expect("a marker line"),
    )
}

fn assert_marker_right_of_gutter(rendered: &str) {
    let (bar, marker) = gutter_and_marker(rendered);
    let caret = marker.find('^').unwrap();
    assert!(
        marker.find('|') == Some(bar) && caret > bar + 1,
        "the marker must stand in the text area, right of the gutter bar (bar at byte {bar} of the \
         source lines, so `^` expected at byte {} or later of a line that has its own `|` at byte \
         {bar}); actual marker line: {marker:?} (first `^` at byte {caret})\nfull report:\n{rendered}",
        bar + 2
    );
}

/// Default options (crop radius 64). A double-quoted scalar is continued on a line that is
/// indented with a tab ("tab cannot be used as indentation", reported at column 1 of that line);
/// the neighbouring line holds a quoted scalar with 40 literal tabs (legal YAML, 56 characters,
/// so it is not cropped, but 175 columns wide once tabs are shown as four spaces).
#[test]
fn marker_in_moderate_indentation_default_options() {
    let tabs = "\t".repeat(40);
    let yaml = format!(
        "root:\n          k1: 1\n          k2: 2\n          k3: \"abc\n\t      def\"\n          k4: \"{tabs}\"\n          k5: 5\n"
    );
    let err = serde_saphyr::from_str::<Value>(&yaml).expect_err("tab used as indentation");
    let loc = err.location().expect("location");
    assert_eq!((loc.line(), loc.column()), (5, 1), "precondition: reported location");
    assert_marker_right_of_gutter(&err.to_string());
}

/// Same document shape, nothing but ASCII letters, with a crop radius above 70 ("huge" in the
/// quantifier of C17): the long line is then simply 214 characters wide.
#[test]
fn marker_in_moderate_indentation_radius_200() {
    let long = "x".repeat(200);
    let yaml = format!(
        "root:\n          k1: 1\n          k2: 2\n          k3: \"abc\n\t      def\"\n          k4: {long}\n          k5: 5\n"
    );
    let opts = serde_saphyr::options! { crop_radius: 200 };
    let err = serde_saphyr::from_str_with_options::<Value>(&yaml, opts)
        .expect_err("tab used as indentation");
    let loc = err.location().expect("location");
    assert_eq!((loc.line(), loc.column()), (5, 1), "precondition: reported location");
    assert_marker_right_of_gutter(&err.to_string());
}
