//! C17 finding 1: the marker of the primary snippet window is drawn in the line-number gutter
//! (left of the `|`), not under the reported column, when the reported column lies in what is
//! white space *after sanitising* and the line starts with 27 or more such columns.
//!
//! Control characters are replaced by blanks (C1 by NBSP) before the window is handed to
//! annotate-snippets; annotate-snippets removes "useless" leading white space (> 20 columns) from
//! the window and assumes no annotation points into it.

use serde::Deserialize;
use std::io::Cursor;

#[derive(Debug, Deserialize)]
#[allow(dead_code)]
struct Cfg {
    a: u32,
}

/// Checks the primary window of `rendered`: the numbered line `line_no` must be followed by a
/// marker line whose `^` stands right of the gutter bar, `col - 1` display columns behind it
/// (all characters used in these tests are one column wide).
fn assert_marker_under_column(rendered: &str, line_no: usize, col: usize) {
    let lines: Vec<&str> = rendered.lines().collect();
    let prefix = format!("{line_no} |");
    let idx = lines
        .iter()
        .position(|l| l.trim_start().starts_with(&prefix))
        .unwrap_or_else(|| panic!("line {line_no} is not shown in:\n{rendered}"));
    let src = lines[idx];
    let marker = lines
        .get(idx + 1)
        .unwrap_or_else(|| panic!("no marker line behind line {line_no} in:\n{rendered}"));
    let bar_src = src.chars().position(|c| c == '|').unwrap();
    let caret = marker
        .chars()
        .position(|c| c == '^')
        .unwrap_or_else(|| panic!("no `^` in the marker line {marker:?} of:\n{rendered}"));
    let bar_marker = marker.chars().position(|c| c == '|');
    assert_eq!(
        bar_marker,
        Some(bar_src),
        "expected the marker line to start with the same gutter as the source line \
         (`|` in column {bar_src}), actual marker line: {marker:?}\nrendered:\n{rendered}"
    );
    assert!(
        caret > bar_src,
        "expected the `^` right of the gutter bar (column > {bar_src}), under column {col} of \
         the source line; actual: `^` in column {caret} of {marker:?}\nrendered:\n{rendered}"
    );
    // `N | text`: the text starts two columns behind the bar. If the renderer cut the line on
    // the left it shows `...` instead of the first three shown columns, the caret must still
    // stand under the character of the reported column; with an uncut line that is col - 1.
    if !src.chars().skip(bar_src + 2).collect::<String>().starts_with("...") {
        assert_eq!(
            caret - (bar_src + 2),
            col - 1,
            "expected the `^` {} columns behind the gutter, actual {}\nrendered:\n{rendered}",
            col - 1,
            caret - (bar_src + 2)
        );
    }
}

fn no_control_chars(rendered: &str) {
    assert!(
        !rendered.chars().any(|c| {
            let u = c as u32;
            (u < 0x20 && c != '\n' && c != '\t') || u == 0x7f || (0x80..=0x9f).contains(&u)
        }),
        "control characters in {rendered:?}"
    );
}

/// Only legal characters: a document nested 14 levels deep (28 columns of indentation) whose
/// double-quoted value is continued on a line that is indented with tabs. The scanner reports
/// `tab cannot be used as indentation` at line N, column 1 (the first tab).
#[test]
fn marker_for_a_tab_indented_continuation_line_in_a_deeply_nested_mapping() {
    let mut yaml = String::new();
    for level in 0..14 {
        yaml.push_str(&format!("{}l{level}:\n", "  ".repeat(level)));
    }
    let ind = " ".repeat(28);
    yaml.push_str(&format!("{ind}name: x\n"));
    yaml.push_str(&format!("{ind}title: y\n"));
    yaml.push_str(&format!("{ind}text: \"first\n"));
    yaml.push_str("\t\t\t\t\t\t\tsecond\"\n"); // line 18: 7 tabs
    yaml.push_str(&format!("{ind}more: z\n"));

    let err = serde_saphyr::from_str::<serde::de::IgnoredAny>(&yaml).unwrap_err();
    let loc = err.location().expect("location");
    assert_eq!((loc.line(), loc.column()), (18, 1), "{err}");
    for rendered in [
        err.to_string(),
        err.render_with_formatter(&serde_saphyr::UserMessageFormatter),
    ] {
        no_control_chars(&rendered);
        assert_marker_under_column(&rendered, 18, 1);
    }
}

/// A plain scalar that starts with ESC and goes on after a run of blanks: `<ESC>` + 30 blanks + `x`.
/// It is no mapping: the error is reported at line 1, column 1 (the ESC).
#[test]
fn marker_for_a_column_that_was_a_control_character_string_input() {
    let yaml = format!("\u{1b}{}x\n", " ".repeat(30));
    let err = serde_saphyr::from_str::<Cfg>(&yaml).unwrap_err();
    let loc = err.location().expect("location");
    assert_eq!((loc.line(), loc.column()), (1, 1));
    for rendered in [
        err.to_string(),
        err.render_with_formatter(&serde_saphyr::UserMessageFormatter),
    ] {
        no_control_chars(&rendered);
        assert_marker_under_column(&rendered, 1, 1);
    }
}

/// The same through the reader entry point (snippet cut from the recent-bytes window).
#[test]
fn marker_for_a_column_that_was_a_control_character_reader_input() {
    let yaml = format!("\u{1b}{}x\n", " ".repeat(30));
    let err = serde_saphyr::from_reader::<_, Cfg>(Cursor::new(yaml.into_bytes())).unwrap_err();
    let loc = err.location().expect("location");
    assert_eq!((loc.line(), loc.column()), (1, 1));
    let rendered = err.to_string();
    no_control_chars(&rendered);
    assert_marker_under_column(&rendered, 1, 1);
}

/// A value made of control characters only in front of its text (a run of BEL, as a broken
/// terminal paste leaves it), further down in a document whose neighbouring lines are blank.
#[test]
fn marker_for_a_run_of_control_characters_in_a_value() {
    let yaml = format!("a:\n\n\n  {}7\n\n\nb: 1\n", "\u{7}".repeat(40));
    let err = serde_saphyr::from_str::<Cfg>(&yaml).unwrap_err();
    let loc = err.location().expect("location");
    assert_eq!((loc.line(), loc.column()), (4, 3), "{err}");
    let rendered = err.to_string();
    no_control_chars(&rendered);
    assert_marker_under_column(&rendered, 4, 3);
}

/// No control character at all: NO-BREAK SPACE (U+00A0) is an ordinary printable character
/// for YAML (it is not YAML white space, a plain scalar may start with it) but white space for
/// the renderer.
#[test]
fn marker_for_a_scalar_that_starts_with_no_break_spaces() {
    let yaml = format!("{}x\n", "\u{a0}".repeat(30));
    let err = serde_saphyr::from_str::<Cfg>(&yaml).unwrap_err();
    let loc = err.location().expect("location");
    assert_eq!((loc.line(), loc.column()), (1, 1));
    let rendered = err.to_string();
    assert_marker_under_column(&rendered, 1, 1);
}

/// Control: with fewer than 27 leading blank columns the same input is rendered correctly (this
/// test passes on the unmodified crate and shows what the checks above expect).
#[test]
fn control_short_run_is_rendered_with_the_marker_under_the_column() {
    let yaml = format!("\u{1b}{}x\n", " ".repeat(10));
    let err = serde_saphyr::from_str::<Cfg>(&yaml).unwrap_err();
    let loc = err.location().expect("location");
    assert_eq!((loc.line(), loc.column()), (1, 1));
    let rendered = err.to_string();
    no_control_chars(&rendered);
    assert_marker_under_column(&rendered, 1, 1);
}
