//! C17: the rendered report must show the line the error's location refers to.
//!
//! `with_deserializer_from_str*` hands a `Deserializer` to a closure that returns
//! `Result<_, serde_saphyr::Error>`. Whatever error the closure returns is (re)wrapped with a
//! snippet cut from the *outer* input: an error that already carries its own snippet (because
//! it comes from parsing another text inside the closure, propagated with `?`) loses it, and its
//! line / column are looked up in the outer text. The report then shows an unrelated line of
//! the outer document with the marker under unrelated text.
//!
//! run: cargo test --offline --test demo_test

use serde::Deserialize;

#[derive(Debug, Deserialize)]
#[allow(dead_code)]
struct Outer {
    name: String,
    replicas_and_other_settings: u32,
    /// A YAML document embedded as a string, parsed in a second step.
    embedded: String,
}

#[derive(Debug, Deserialize)]
#[allow(dead_code)]
struct Inner {
    host: String,
    port: u16,
}

const OUTER: &str = "\
name: service
replicas_and_other_settings: 12345
embedded: |
  host: example.org
  port: http
";

fn load(outer: &str) -> Result<(Outer, Inner), serde_saphyr::Error> {
    serde_saphyr::with_deserializer_from_str(outer, |de| {
        let outer = Outer::deserialize(de)?;
        // Second step: the embedded document. Its error is a complete serde_saphyr::Error
        // (with its own snippet) and is propagated as is.
        let inner: Inner = serde_saphyr::from_str(&outer.embedded)?;
        Ok((outer, inner))
    })
}

#[test]
fn inner_error_alone_is_rendered_against_its_own_text() {
    // Reference: what the inner error looks like before it passes through the closure.
    let err = serde_saphyr::from_str::<Inner>("host: example.org\nport: http\n").unwrap_err();
    let rendered = err.to_string();
    assert!(rendered.contains("2 | port: http\n  |       ^ invalid"), "{rendered}");
}

#[test]
fn error_returned_by_the_closure_is_not_rendered_against_the_outer_text() {
    let err = load(OUTER).unwrap_err();
    let loc = err.location().expect("location");
    // The location is the one of the inner document: `http` in line 2, column 7.
    assert_eq!((loc.line(), loc.column()), (2, 7));

    let rendered = err.to_string();
    let marked_line = rendered
        .lines()
        .zip(rendered.lines().skip(1))
        .find(|(_, next)| next.trim_start().starts_with('|') && next.contains('^'))
        .map(|(line, _)| line.to_string());

    // Either no source window at all, or the window of the text the location belongs to.
    if let Some(marked) = marked_line {
        assert!(
            marked.contains("port: http"),
            "expected: the marked line is the one the location refers to (`port: http` of the \
             embedded document), or no window at all\nactual: the marker sits under line 2 of \
             the OUTER document: {marked:?}\nfull report:\n{rendered}"
        );
    }
}
