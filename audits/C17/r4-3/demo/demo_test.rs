//! C17: in a deeply nested document (all lines of the window indented by more than 20 columns)
//! the marker of the PRIMARY window no longer stands under the reported column when wide (CJK,
//! emoji) or zero-width (combining) characters precede it on the line.
//!
//! This is a regression of the repair "the marker of a location inside deep indentation is not
//! drawn into the gutter" (33c0f31): it hands every such window to the renderer of the second
//! ("defined here") window, which places the caret by counting characters (tab = 4, everything
//! else = 1), whereas annotate-snippets - which drew these windows before the repair, and still
//! draws them for an indentation of 20 columns and less - places it by display width.

use std::collections::BTreeMap;

type Doc = BTreeMap<String, BTreeMap<String, Vec<u32>>>;

/// Terminal display width of the characters used below.
fn width(c: char) -> usize {
    match c as u32 {
        0x0300..=0x036F => 0,                         // combining diacritical marks
        0x2E80..=0xA4CF | 0xAC00..=0xD7A3 | 0xFF00..=0xFF60 | 0x1F300..=0x1FAFF => 2, // CJK, emoji
        _ => 1,
    }
}

/// Renders the error of `yaml` and returns (display column of `zz` in the shown error line,
/// display column of the `^`), both counted from the start of the source text area.
fn columns(yaml: &str, line_no: usize) -> (usize, usize, String) {
    let err = serde_saphyr::from_str::<Doc>(yaml).expect_err("zz is not a u32");
    let loc = err.location().expect("location");
    let src_line = yaml.lines().nth(line_no - 1).unwrap();
    let zz_col = src_line[..src_line.find("zz").unwrap()].chars().count() + 1;
    assert_eq!(
        (loc.line() as usize, loc.column() as usize),
        (line_no, zz_col),
        "precondition: the error is reported at the `zz`"
    );
    let rendered = err.to_string();
    let lines: Vec<&str> = rendered.lines().collect();
    let prefix = format!("{line_no} | ");
    let idx = lines
        .iter()
        .position(|l| l.starts_with(&prefix))
        .unwrap_or_else(|| panic!("line {line_no} not shown:\n{rendered}"));
    let shown = &lines[idx][prefix.len()..];
    let expected: usize = shown[..shown.find("zz").expect("zz shown")]
        .chars()
        .map(width)
        .sum();
    let marker = lines[idx + 1];
    assert!(marker.starts_with("  | "), "marker line: {marker:?}\n{rendered}");
    let caret = marker["  | ".len()..].find('^').expect("caret");
    (expected, caret, rendered)
}

#[test]
fn marker_under_column_after_wide_characters_in_deep_indentation() {
    let ind = " ".repeat(24);
    let yaml = format!(
        "root:\n{ind}a: [1]\n{ind}b: [2]\n{ind}c: [3]\n{ind}'日本語日本語': [1, zz]\n"
    );
    let (expected, caret, rendered) = columns(&yaml, 5);
    assert_eq!(
        caret, expected,
        "the `^` must stand under the `zz` (display column {expected} of the text area), it stands \
         at display column {caret}:\n{rendered}"
    );
}

#[test]
fn marker_under_column_after_combining_characters_in_deep_indentation() {
    let ind = " ".repeat(24);
    let key = "e\u{301}".repeat(6); // six times e + COMBINING ACUTE ACCENT: 12 chars, 6 columns
    let yaml = format!("root:\n{ind}a: [1]\n{ind}b: [2]\n{ind}c: [3]\n{ind}'{key}': [1, zz]\n");
    let (expected, caret, rendered) = columns(&yaml, 5);
    assert_eq!(
        caret, expected,
        "the `^` must stand under the `zz` (display column {expected} of the text area), it stands \
         at display column {caret}:\n{rendered}"
    );
}
