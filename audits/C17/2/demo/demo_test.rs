//! C17 finding 2: a lone CR is a YAML line break (the parser counts it as one: the reported
//! line numbers say so), but the snippet code splits the source on '\n' only. The report then
//! shows a different line than the one the location refers to, with the marker under unrelated
//! text - or no source line at all.

use std::collections::BTreeMap;

/// Text of the source line the marker line follows, and the char above the marker.
fn marked_line(rendered: &str) -> Option<(String, Option<char>)> {
    let lines: Vec<&str> = rendered.lines().collect();
    for (i, l) in lines.iter().enumerate() {
        // marker lines look like "  |    ^ message"
        let t = l.trim_start();
        if i > 0 && t.starts_with('|') && t.contains('^') {
            let cpos = l.find('^')?;
            let src = lines[i - 1];
            let bar = src.find(" | ")?;
            let text = &src[bar + 3..];
            let col0 = cpos.checked_sub(bar + 3)?;
            return Some((text.to_string(), text.chars().nth(col0)));
        }
    }
    None
}

const DOC: &str = "a: 1\rb: 2\nc: 3\nd: x\ne: 5\nf: 6\n";

fn check(rendered: &str, entry: &str) {
    let found = marked_line(rendered);
    assert_eq!(
        found,
        Some(("d: x".to_string(), Some('x'))),
        "[{entry}] expected: the marker under `x` of the line `d: x` (the location is line 4, column 4)\n\
         actual: {found:?}\nfull report:\n{rendered}"
    );
}

#[test]
fn str_input_shows_the_line_the_location_refers_to() {
    let err = serde_saphyr::from_str::<BTreeMap<String, i32>>(DOC).expect_err("x is not an i32");
    let loc = err.location().expect("location");
    // The crate itself says the offending scalar is on line 4 (CR counted as a line break).
    assert_eq!((loc.line(), loc.column()), (4, 4));
    check(&err.to_string(), "from_str");
}

#[test]
fn reader_input_shows_the_line_the_location_refers_to() {
    let err = serde_saphyr::from_reader::<_, BTreeMap<String, i32>>(DOC.as_bytes())
        .expect_err("x is not an i32");
    let loc = err.location().expect("location");
    assert_eq!((loc.line(), loc.column()), (4, 4));
    check(&err.to_string(), "from_reader");
}

/// With CR as the only line break (classic Mac line ends) no source line is shown at all,
/// although the location is known and the snippet option is on.
#[test]
fn cr_only_document_gets_a_snippet() {
    let doc = "a: 1\rb: x\rc: 3\r";
    let err = serde_saphyr::from_str::<BTreeMap<String, i32>>(doc).expect_err("x is not an i32");
    let loc = err.location().expect("location");
    assert_eq!((loc.line(), loc.column()), (2, 4));
    let rendered = err.to_string();
    let found = marked_line(&rendered);
    assert_eq!(
        found,
        Some(("b: x".to_string(), Some('x'))),
        "expected: a snippet with line 2 (`b: x`) and the marker under column 4\nactual: {found:?}\nfull report:\n{rendered}"
    );
}
