//! C17 (miette adapter): the report for an error located at the START of a long multi-line
//! scalar (a base64 block of 900 short lines, ~70 KB) carries no label at all - and with it no
//! source line, no marker and no line/column information whatsoever.
//!
//! The repair "a miette report for an error beyond column 60000 of its line goes without label"
//! sums up the columns of the WHOLE span (from the start of the line the span begins on to the
//! end of the span, across all the lines it covers) and drops the label when that sum exceeds
//! 60000. No line of this document is wider than 78 columns and the location is line 3 column 3.
//!
//! run with: cargo test --offline --features miette --test demo_test
#![cfg(feature = "miette")]

use miette::Diagnostic;
use serde::Deserialize;

#[derive(Debug, Deserialize)]
#[allow(dead_code)]
struct Doc {
    name: String,
    #[serde(with = "serde_bytes")]
    blob: Vec<u8>,
    after: u32,
}

#[derive(Debug, Deserialize)]
#[allow(dead_code)]
struct Doc2 {
    name: String,
    count: u32,
    after: u32,
}

fn labels_of(report: &miette::Report) -> Vec<(usize, usize)> {
    let d: &dyn Diagnostic = report.as_ref();
    d.labels()
        .map(|it| it.map(|l| (l.offset(), l.len())).collect())
        .unwrap_or_default()
}

fn render(report: &miette::Report) -> String {
    let d: &dyn Diagnostic = report.as_ref();
    let mut out = String::new();
    miette::GraphicalReportHandler::new_themed(miette::GraphicalTheme::none())
        .with_context_lines(1)
        .render_report(&mut out, d)
        .expect("render");
    out
}

fn body(lines: usize) -> String {
    (0..lines).map(|_| format!("  {}\n", "QUJD".repeat(19))).collect()
}

/// `!!binary` block with one bad line in front: "invalid !!binary base64" at 3:3.
#[test]
fn label_present_for_error_at_start_of_long_binary_block() {
    let yaml = format!("name: x\nblob: !!binary |\n  !!!\n{}after: 2\n", body(900));
    assert!(yaml.lines().all(|l| l.len() <= 78), "precondition: no long line");

    let err = serde_saphyr::from_str::<Doc>(&yaml).expect_err("invalid base64");
    let loc = err.location().expect("location");
    assert_eq!((loc.line(), loc.column()), (3, 3), "precondition: reported location");
    let expected_offset = yaml.find("!!!").unwrap();

    // What the crate's own renderer makes of it (for comparison): window with the marker.
    let own = err.to_string();
    assert!(own.contains("3 |   !!!") && own.contains("^ invalid !!binary base64"), "own: {own}");

    let report = serde_saphyr::miette::to_miette_report(&err, &yaml, "doc.yaml");
    let labels = labels_of(&report);
    let rendered = render(&report);
    assert!(
        !labels.is_empty() && labels[0].0 == expected_offset,
        "expected a label at byte offset {expected_offset} (line 3 column 3), actual labels \
         (offset, len): {labels:?}\nthe whole miette report is:\n{rendered}"
    );
    assert!(
        rendered.contains("!!!"),
        "expected the report to show line 3 (`  !!!`), got:\n{rendered}"
    );
}

/// The same with a plain type mismatch: a literal block where a number is expected.
#[test]
fn label_present_for_type_error_on_long_block_scalar() {
    let yaml = format!("name: x\ncount: |\n{}after: 2\n", body(900));
    let err = serde_saphyr::from_str::<Doc2>(&yaml).expect_err("invalid u32");
    let loc = err.location().expect("location");
    assert_eq!((loc.line(), loc.column()), (3, 3), "precondition: reported location");
    let expected_offset = yaml.find("  QUJD").unwrap() + 2;

    let report = serde_saphyr::miette::to_miette_report(&err, &yaml, "doc.yaml");
    let labels = labels_of(&report);
    assert!(
        !labels.is_empty() && labels[0].0 == expected_offset,
        "expected a label at byte offset {expected_offset} (line 3 column 3), actual labels \
         (offset, len): {labels:?}\nthe whole miette report is:\n{}",
        render(&report)
    );
}
