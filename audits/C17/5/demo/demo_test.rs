//! C17 finding 5: a location on the (empty) line behind the final line break - where the scanner
//! puts "unterminated quoted scalar", "missing colon on the last line" and similar errors - is
//! rendered in the first source window as a marker at the END OF THE PREVIOUS LINE; the line the
//! location refers to is not shown, and the `-->` header names another line and column than the
//! title. The second ("defined here") window of the same crate does print that line.

use std::collections::BTreeMap;

/// (number printed in the gutter of the marked line, text of that line, 1-based column of the marker)
fn marked(rendered: &str) -> Option<(usize, String, usize)> {
    let lines: Vec<&str> = rendered.lines().collect();
    for (i, l) in lines.iter().enumerate() {
        let t = l.trim_start();
        if i > 0 && t.starts_with('|') && t.contains('^') {
            let cpos = l.find('^')?;
            let src = lines[i - 1];
            let (num, text, text_start) = match src.find(" | ") {
                Some(bar) => (src[..bar].trim(), &src[bar + 3..], bar + 3),
                None => {
                    // an empty source line is printed as "N |"
                    let bar = src.find(" |")?;
                    (src[..bar].trim(), "", bar + 3)
                }
            };
            return Some((num.parse().ok()?, text.to_string(), cpos.checked_sub(text_start)? + 1));
        }
    }
    None
}

fn check(rendered: &str, line: u64, column: u64, entry: &str) {
    let found = marked(rendered);
    assert_eq!(
        found,
        Some((line as usize, String::new(), column as usize)),
        "[{entry}] expected: the (empty) line {line} shown, marker under column {column}\n\
         actual (gutter number, line text, marker column): {found:?}\nfull report:\n{rendered}"
    );
    let header = rendered.lines().find(|l| l.trim_start().starts_with("-->")).unwrap_or("");
    assert!(
        header.ends_with(&format!(":{line}:{column}")),
        "[{entry}] expected the header to name {line}:{column}, got {header:?}\nfull report:\n{rendered}"
    );
}

#[test]
fn unterminated_quote_from_str() {
    let yaml = "id: 7\nname: \"demo\n";
    let err = serde_saphyr::from_str::<BTreeMap<String, String>>(yaml).expect_err("unterminated");
    let loc = err.location().expect("location");
    assert_eq!((loc.line(), loc.column()), (3, 1));
    check(&err.to_string(), 3, 1, "from_str");
}

#[test]
fn unterminated_quote_from_reader() {
    let yaml = "id: 7\nname: \"demo\n";
    let err = serde_saphyr::from_reader::<_, BTreeMap<String, String>>(yaml.as_bytes())
        .expect_err("unterminated");
    let loc = err.location().expect("location");
    assert_eq!((loc.line(), loc.column()), (3, 1));
    check(&err.to_string(), 3, 1, "from_reader");
}

/// With a small crop radius the marker is additionally pushed behind the `…` of the cropped
/// previous line, a column that exists in no line of the source.
#[test]
fn missing_colon_on_last_line_small_radius() {
    let yaml = "id: 7\nname_without_colon\n";
    let opts = serde_saphyr::options! { crop_radius: 2 };
    let err = serde_saphyr::from_str_with_options::<BTreeMap<String, String>>(yaml, opts)
        .expect_err("no colon");
    let loc = err.location().expect("location");
    assert_eq!((loc.line(), loc.column()), (3, 1));
    check(&err.to_string(), 3, 1, "from_str radius 2");
}
