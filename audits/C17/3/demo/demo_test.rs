//! C17 finding 3: the second ("defined here") source window places its marker by counting
//! characters, the first window (annotate-snippets) by display width. With double-width (CJK) or
//! zero-width (combining) characters in front of the reported column the marker of the second
//! window is not under the reported column.

use serde::Deserialize;

#[derive(Debug, Deserialize)]
#[allow(dead_code)]
struct Doc {
    a: Vec<String>,
    b: i32,
}

/// Display width as a terminal (and annotate-snippets, which renders the first window) sees it,
/// for the characters used in this test only.
fn width(c: char) -> usize {
    match c {
        '\u{0300}'..='\u{036F}' => 0,  // combining diacritical marks
        '\u{3040}'..='\u{9FFF}' => 2,  // kana / CJK ideographs
        _ => 1,
    }
}

/// In `window`, find the numbered line `line_no` and the marker line below it; return the
/// character whose display cell is directly above the marker.
fn char_above_marker(window: &str, line_no: usize) -> Option<char> {
    let lines: Vec<&str> = window.lines().collect();
    let prefix = format!("{line_no} | ");
    for (i, l) in lines.iter().enumerate() {
        let t = l.trim_start();
        if let Some(text) = t.strip_prefix(&prefix) {
            let gutter = l.len() - t.len() + prefix.len();
            let marker_line = lines.get(i + 1)?;
            let cell = marker_line.find('^')?.checked_sub(gutter)?; // marker line is ASCII up to '^'
            let mut d = 0;
            for c in text.chars() {
                if width(c) > 0 && d == cell {
                    return Some(c);
                }
                if d > cell {
                    return Some(' '); // marker points into the right half of a wide character
                }
                d += width(c);
            }
            return None;
        }
    }
    None
}

fn run(yaml: &str, what: &str) {
    let err = serde_saphyr::from_str::<Doc>(yaml).expect_err("Qbc is not an i32");
    let locs = err.locations().expect("two locations");
    let def = locs.defined_location;
    // the reported column is the `Q` of the anchored scalar
    let src_line = yaml.lines().nth(def.line() as usize - 1).unwrap();
    assert_eq!(src_line.chars().nth(def.column() as usize - 1), Some('Q'));

    let rendered = err.to_string();
    let (first, second) = rendered
        .split_once("comes indirectly from the anchor")
        .expect("dual-location rendering");

    // Control: the first window of the very same report handles such text (reference `*x`).
    assert_eq!(
        char_above_marker(first, locs.reference_location.line() as usize),
        Some('*'),
        "[{what}] control: first window\n{rendered}"
    );

    let above = char_above_marker(second, def.line() as usize);
    assert_eq!(
        above,
        Some('Q'),
        "[{what}] expected: the 'defined here' marker under `Q` (line {} column {})\n\
         actual: it is under {above:?}\nfull report:\n{rendered}",
        def.line(),
        def.column()
    );
}

#[test]
fn wide_characters_in_front_of_the_defined_location() {
    run("a: [\"日本語日本語\", &x Qbc]\nb: *x\n", "CJK");
}

#[test]
fn wide_characters_in_front_of_both_locations() {
    #[derive(Debug, Deserialize)]
    #[allow(dead_code)]
    struct Doc2 {
        a: Vec<String>,
        b: (String, i32),
    }
    let yaml = "a: [\"日本語日本語\", &x Qbc]\nb: [\"日本語\", *x]\n";
    let err = serde_saphyr::from_str::<Doc2>(yaml).expect_err("Qbc is not an i32");
    let locs = err.locations().expect("two locations");
    let rendered = err.to_string();
    let (first, second) = rendered
        .split_once("comes indirectly from the anchor")
        .expect("dual-location rendering");
    // first window: marker under `*` although three wide characters precede it
    assert_eq!(char_above_marker(first, 2), Some('*'), "control: first window\n{rendered}");
    let above = char_above_marker(second, 1);
    assert_eq!(
        above,
        Some('Q'),
        "expected: the 'defined here' marker under `Q` (line 1 column {})\nactual: it is under {above:?}\nfull report:\n{rendered}",
        locs.defined_location.column()
    );
}

#[test]
fn combining_characters_in_front_of_the_defined_location() {
    run("a: [\"e\u{301}e\u{301}e\u{301}e\u{301}\", &x Qbc]\nb: *x\n", "combining");
}
