//! C09 (all entry points agree): the validating entry points disagree between string / slice
//! and reader input when a document that fails validation is followed by more input.
//!
//! `from_str_valid` / `from_slice_valid` (garde) and `from_str_validate` / `from_slice_validate`
//! (validator) first make sure that the input holds exactly one well-formed document and only
//! then validate; `from_reader_valid` / `from_reader_validate` validate first. For the same text
//! the caller therefore gets errors of a different kind at a different line and column.
//!
//! Run: cargo test --offline --features garde,validator --test demo_test
#![cfg(all(feature = "garde", feature = "validator"))]

use serde::Deserialize;

#[derive(Debug, Deserialize, garde::Validate)]
struct G {
    #[garde(range(min = 1))]
    a: i32,
}

#[derive(Debug, Deserialize, validator::Validate)]
struct W {
    #[validate(range(min = 1))]
    a: i32,
}

/// One-byte-at-a-time reader (any chunking gives the same result).
struct OneByte<'a>(&'a [u8]);
impl std::io::Read for OneByte<'_> {
    fn read(&mut self, buf: &mut [u8]) -> std::io::Result<usize> {
        if self.0.is_empty() || buf.is_empty() {
            return Ok(0);
        }
        buf[0] = self.0[0];
        self.0 = &self.0[1..];
        Ok(1)
    }
}

fn kind_and_place<T: std::fmt::Debug>(r: Result<T, serde_saphyr::Error>) -> String {
    match r {
        Ok(v) => format!("Ok({v:?})"),
        Err(e) => {
            let e = e.without_snippet();
            let dbg = format!("{e:?}");
            let kind: String = dbg.chars().take_while(|c| c.is_alphanumeric()).collect();
            let place = e.location().map(|l| (l.line(), l.column()));
            format!("Err({kind} at {place:?})")
        }
    }
}

/// `a: 0` fails validation (min = 1); what follows makes the stream a multi-document stream
/// or a syntactically broken one.
const INPUTS: &[&str] = &[
    "a: 0\n---\na: 5\n",
    "a: 0\n--- [\n",
    "\u{FEFF}a: 0\n--- 'x\n",
];

#[test]
fn garde_entry_points_agree() {
    let mut mismatches = Vec::new();
    for text in INPUTS {
        let from_str = kind_and_place(serde_saphyr::from_str_valid::<G>(text));
        let from_slice = kind_and_place(serde_saphyr::from_slice_valid::<G>(text.as_bytes()));
        let from_reader = kind_and_place(serde_saphyr::from_reader_valid::<_, G>(text.as_bytes()));
        let from_reader_1 = kind_and_place(serde_saphyr::from_reader_valid::<_, G>(OneByte(text.as_bytes())));
        assert_eq!(from_str, from_slice, "input {text:?}");
        assert_eq!(from_reader, from_reader_1, "input {text:?}");
        if from_str != from_reader {
            mismatches.push(format!(
                "input {text:?}: from_str_valid / from_slice_valid -> {from_str}, from_reader_valid -> {from_reader}"
            ));
        }
    }
    assert!(
        mismatches.is_empty(),
        "expected the same error kind, line and column from all entry points, but:\n{}",
        mismatches.join("\n")
    );
}

#[test]
fn validator_entry_points_agree() {
    let mut mismatches = Vec::new();
    for text in INPUTS {
        let from_str = kind_and_place(serde_saphyr::from_str_validate::<W>(text));
        let from_slice = kind_and_place(serde_saphyr::from_slice_validate::<W>(text.as_bytes()));
        let from_reader = kind_and_place(serde_saphyr::from_reader_validate::<_, W>(text.as_bytes()));
        assert_eq!(from_str, from_slice, "input {text:?}");
        if from_str != from_reader {
            mismatches.push(format!(
                "input {text:?}: from_str_validate / from_slice_validate -> {from_str}, from_reader_validate -> {from_reader}"
            ));
        }
    }
    assert!(
        mismatches.is_empty(),
        "expected the same error kind, line and column from all entry points, but:\n{}",
        mismatches.join("\n")
    );
}
