//! C09, borrowed strings: "Deserializing into borrowed strings succeeds EXACTLY when the scalar
//! appears verbatim in the input".
//!
//! A quoted scalar whose text only comes about by escape processing (`"\""`, `''''`, `"\"\\"`)
//! does not stand in the input verbatim; the documentation of `deserialize_str` and of
//! `TransformReason` says such a scalar cannot be lent, and `"a\""` or `'a'''` are indeed refused
//! with `CannotBorrowTransformedString`. Since repair b4287ec the fallback in `deserialize_str`
//! compares the unescaped text with the input at the *event's* byte offset, which for a quoted
//! scalar is the opening quote. Whenever the unescaped text happens to begin like the raw source
//! (it starts with the quote character itself), the comparison succeeds and the crate lends the
//! opening delimiter (and what follows it) instead of refusing: whether an escaped scalar can be
//! borrowed now depends on what its first characters are.

use serde_saphyr::Error;

fn show(r: &Result<&str, Error>) -> String {
    match r {
        Ok(v) => format!("Ok({v:?})"),
        Err(e) => format!("Err({})", e.without_snippet()),
    }
}

fn is_refusal(r: &Result<&str, Error>) -> bool {
    matches!(r, Err(e) if matches!(e.without_snippet(), Error::CannotBorrowTransformedString { .. }))
}

#[test]
fn escaped_quoted_scalars_are_refused_whatever_their_first_character() {
    // Controls: escape processing makes a scalar unborrowable ...
    for doc in ["\"a\\\"\"", "'a'''", "\"\\\\\"", "\"\\x41\""] {
        let r = serde_saphyr::from_str::<&str>(doc);
        assert!(is_refusal(&r), "control {doc:?}: expected CannotBorrowTransformedString, got {}", show(&r));
        // ... while the owned variant reads it.
        assert!(serde_saphyr::from_str::<String>(doc).is_ok());
    }

    // The same kind of scalar, only its unescaped text starts with the quote character.
    let mut failures = Vec::new();
    for (doc, unescaped) in [("\"\\\"\"", "\""), ("''''", "'"), ("\"\\\"\\\\\"", "\"\\"), ("''''''", "''")] {
        assert_eq!(serde_saphyr::from_str::<String>(doc).unwrap(), unescaped);
        let r = serde_saphyr::from_str::<&str>(doc);
        if !is_refusal(&r) {
            let at = match &r {
                Ok(s) => format!(
                    " (lent slice starts at byte {} of the input, i.e. at the opening quote, outside the scalar's content)",
                    s.as_ptr() as usize - doc.as_ptr() as usize
                ),
                Err(_) => String::new(),
            };
            failures.push(format!(
                "input {doc:?}: the text {unescaped:?} is the product of escape processing and does not stand in the input verbatim\n   expected: Err(CannotBorrowTransformedString)\n   actual  : {}{at}",
                show(&r)
            ));
        }
    }
    assert!(failures.is_empty(), "\n{}", failures.join("\n"));
}
