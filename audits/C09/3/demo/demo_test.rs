//! C09 (borrowed clause) - `&str` targets go through `deserialize_str`, which does not look at
//! the scalar's tag the way `deserialize_string` (owned `String`) does:
//!   * `!!binary aGk=`  lends the base64 text "aGk=" while the owned variant yields "hi";
//!   * `!!str null` / `!!str ~` is refused as a null although the text is in the input verbatim
//!     and the owned variant yields "null" / "~".
use serde::Deserialize;

fn show<T: std::fmt::Debug>(r: &Result<T, serde_saphyr::Error>) -> String {
    match r {
        Ok(v) => format!("Ok({v:?})"),
        Err(e) => format!("Err({})", e.without_snippet()),
    }
}

/// The statement: borrowing succeeds exactly when the scalar is in the input verbatim, and then
/// yields the same text as the owned variant.
fn check_scalar(doc: &str, verbatim: bool) {
    let owned = serde_saphyr::from_str::<String>(doc);
    let borrowed = serde_saphyr::from_str::<&str>(doc);
    let owned_text = owned.as_ref().expect("owned variant must succeed in this test").as_str();
    assert_eq!(
        doc.contains(owned_text),
        verbatim,
        "test premise: is the owned text {owned_text:?} verbatim in {doc:?}?"
    );
    match &borrowed {
        Ok(b) => assert_eq!(
            *b, owned_text,
            "{doc:?}: borrowed text differs from owned text: expected {:?} (or a refusal to borrow), actual {}",
            owned_text,
            show(&borrowed)
        ),
        Err(_) => assert!(
            !verbatim,
            "{doc:?}: the scalar {owned_text:?} is in the input verbatim and String gives {}, so &str is expected to be Ok({owned_text:?}); actual {}",
            show(&owned),
            show(&borrowed)
        ),
    }
}

#[test]
fn binary_tagged_scalar_borrowed_vs_owned() {
    // String -> "hi" (base64 decoded). "hi" is not in the input, so &str has to be refused;
    // instead it hands out the undecoded "aGk=".
    check_scalar("!!binary aGk=", false);
}

#[test]
fn str_tagged_null_word_borrowed_vs_owned() {
    check_scalar("!!str null", true);
}

#[test]
fn str_tagged_tilde_borrowed_vs_owned() {
    check_scalar("!!str ~", true);
}

#[derive(Debug, Deserialize, PartialEq)]
struct Borrowed<'a> {
    #[serde(borrow)]
    a: &'a str,
    #[serde(borrow)]
    b: &'a str,
}

#[derive(Debug, Deserialize, PartialEq)]
struct Owned {
    a: String,
    b: String,
}

#[test]
fn struct_fields_borrowed_vs_owned() {
    let doc = "a: !!binary aGk=\nb: x\n";
    let owned = serde_saphyr::from_str::<Owned>(doc).expect("owned struct");
    assert_eq!(owned, Owned { a: "hi".into(), b: "x".into() });
    let borrowed = serde_saphyr::from_str::<Borrowed>(doc);
    // `a` cannot be lent ("hi" is not in the input): an error is fine, a different text is not.
    if let Ok(b) = &borrowed {
        assert_eq!(
            (b.a, b.b),
            (owned.a.as_str(), owned.b.as_str()),
            "{doc:?}: expected the owned texts {owned:?} (or a refusal to borrow `a`), actual {}",
            show(&borrowed)
        );
    }
    let only_b = "b: !!str null\na: x\n";
    let owned = serde_saphyr::from_str::<Owned>(only_b).expect("owned struct");
    let borrowed = serde_saphyr::from_str::<Borrowed>(only_b);
    assert_eq!(
        borrowed.as_ref().ok().map(|b| (b.a, b.b)),
        Some((owned.a.as_str(), owned.b.as_str())),
        "{only_b:?}: every scalar is in the input verbatim; expected the owned texts {owned:?}, actual {}",
        show(&borrowed)
    );
}
