//! C09, borrowing clause: "Deserializing into borrowed strings succeeds exactly when the scalar
//! appears verbatim in the input and then yields the same text as the owned variant."
//! (README: "Borrowing works for any scalar whose parsed value exists **verbatim** in the input.")
//!
//! A block scalar whose content is a single line has its value sitting verbatim, byte for byte, in the input - yet `&str` targets are refused
//! with `CannotBorrowTransformedString`, because every block scalar comes out of the parser as
//! `Cow::Owned` and the deserializer never looks at the input itself.
//!
//! Run: cargo test --offline --test demo_test

use serde::Deserialize;

#[derive(Debug, Deserialize)]
struct Borrowed<'a> {
    #[serde(borrow)]
    k: &'a str,
}

#[derive(Debug, Deserialize)]
struct Owned {
    k: String,
}

#[test]
fn block_scalar_that_sits_verbatim_in_the_input_is_lent() {
    let mut failures = Vec::new();
    for text in [
        "k: |-\n  hello world\n",  // literal, strip: value "hello world"
        "k: >-\n  hello world\n",  // folded, strip: value "hello world"
        "k: |\n  hello world\n",   // literal, clip: value "hello world\n"
        "k: |+\n  hello world\n",  // literal, keep: value "hello world\n"
        "k: |-\n  hello world",    // no trailing line break at all
    ] {
        let owned: Owned = serde_saphyr::from_str(text).expect("owned target");
        // The premise of the clause: the scalar appears verbatim in the input.
        assert!(
            text.contains(owned.k.as_str()),
            "test premise: {:?} is not a substring of {text:?}",
            owned.k
        );
        match serde_saphyr::from_str::<Borrowed>(text) {
            Ok(b) => assert_eq!(b.k, owned.k, "borrowed text differs from owned text for {text:?}"),
            Err(e) => failures.push(format!(
                "input {text:?}: value {:?} is verbatim in the input, expected Ok(Borrowed {{ k: {:?} }}), actual Err({:?})",
                owned.k,
                owned.k,
                e.without_snippet()
            )),
        }
    }
    assert!(
        failures.is_empty(),
        "borrowing refused for scalars that appear verbatim in the input:\n{}",
        failures.join("\n")
    );
}
