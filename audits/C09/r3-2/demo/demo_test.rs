//! C09, borrowed strings: "Deserializing into borrowed strings succeeds exactly when the scalar
//! appears verbatim in the input and then yields the same text as the owned variant".
//!
//! serde buffers flattened structs, untagged and internally tagged enums through
//! `deserialize_any`. Since repair 40fa27e a plain or quoted scalar that stands in the input
//! verbatim is lent on that way too (`visit_borrowed_str`), so a `&str` field can be filled. Two
//! kinds of scalars that stand in the input verbatim are still handed over as owned `String`s
//! there, and the borrowed target fails although its owned twin reads the very same text:
//!   - a one-line block scalar (`|-\n  hello`), which `deserialize_str` lends since b4287ec;
//!   - a plain `.inf` / `-.inf` / `.nan`, which `deserialize_any` re-creates as a fresh `String`.

use serde::Deserialize;

#[derive(Debug, Deserialize, PartialEq)]
struct Inner<'a> {
    a: &'a str,
}
#[derive(Debug, Deserialize, PartialEq)]
struct Flat<'a> {
    #[serde(flatten, borrow)]
    inner: Inner<'a>,
}
#[derive(Debug, Deserialize, PartialEq)]
struct InnerOwned {
    a: String,
}
#[derive(Debug, Deserialize, PartialEq)]
struct FlatOwned {
    #[serde(flatten)]
    inner: InnerOwned,
}

#[derive(Debug, Deserialize, PartialEq)]
#[serde(untagged)]
enum Untagged<'a> {
    S(&'a str),
}
#[derive(Debug, Deserialize, PartialEq)]
#[serde(untagged)]
enum UntaggedOwned {
    S(String),
}

#[derive(Debug, Deserialize, PartialEq)]
#[serde(tag = "t")]
enum Tagged<'a> {
    A {
        #[serde(borrow)]
        s: &'a str,
    },
}

fn show<T: std::fmt::Debug>(r: &Result<T, serde_saphyr::Error>) -> String {
    match r {
        Ok(v) => format!("Ok({v:?})"),
        Err(e) => format!("Err({})", e.without_snippet()),
    }
}

#[test]
fn flattened_field_block_scalar() {
    let doc = "a: |-\n  hello\n";
    // Controls: without flatten the block scalar is lent; with flatten a plain one is lent; the
    // owned twin reads "hello", which stands in the input.
    assert_eq!(serde_saphyr::from_str::<Inner>(doc).unwrap(), Inner { a: "hello" });
    assert_eq!(serde_saphyr::from_str::<Flat>("a: hello\n").unwrap().inner.a, "hello");
    assert_eq!(serde_saphyr::from_str::<FlatOwned>(doc).unwrap().inner.a, "hello");

    let res = serde_saphyr::from_str::<Flat>(doc);
    assert!(
        matches!(&res, Ok(f) if f.inner.a == "hello"),
        "flattened &str field, block scalar standing verbatim in the input:\n expected: Ok(Flat {{ inner: Inner {{ a: \"hello\" }} }})\n actual  : {}",
        show(&res)
    );
}

#[test]
fn untagged_and_internally_tagged_block_scalar() {
    let doc = "|-\n  hello\n";
    assert_eq!(serde_saphyr::from_str::<&str>(doc).unwrap(), "hello");
    assert_eq!(serde_saphyr::from_str::<Untagged>("hello\n").unwrap(), Untagged::S("hello"));
    assert_eq!(serde_saphyr::from_str::<UntaggedOwned>(doc).unwrap(), UntaggedOwned::S("hello".into()));

    let res = serde_saphyr::from_str::<Untagged>(doc);
    assert!(
        matches!(&res, Ok(Untagged::S("hello"))),
        "untagged enum with a &str variant, block scalar standing verbatim in the input:\n expected: Ok(S(\"hello\"))\n actual  : {}",
        show(&res)
    );

    let doc = "t: A\ns: |-\n  hello\n";
    assert_eq!(
        serde_saphyr::from_str::<Tagged>("t: A\ns: hello\n").unwrap(),
        Tagged::A { s: "hello" }
    );
    let res = serde_saphyr::from_str::<Tagged>(doc);
    assert!(
        matches!(&res, Ok(Tagged::A { s: "hello" })),
        "internally tagged enum with a &str field, block scalar standing verbatim in the input:\n expected: Ok(A {{ s: \"hello\" }})\n actual  : {}",
        show(&res)
    );
}

#[test]
fn flattened_field_non_finite_float_text() {
    for text in [".inf", "-.inf", ".nan"] {
        let doc = format!("a: {text}\n");
        // The owned twin reads exactly the text that stands in the input ...
        assert_eq!(serde_saphyr::from_str::<FlatOwned>(&doc).unwrap().inner.a, text);
        // ... without flatten the borrowed target is filled from it ...
        assert_eq!(serde_saphyr::from_str::<Inner>(&doc).unwrap().a, text);
        // ... and with flatten it must be, too.
        let res = serde_saphyr::from_str::<Flat>(&doc);
        assert!(
            matches!(&res, Ok(f) if f.inner.a == text),
            "flattened &str field, plain scalar {text:?} standing verbatim in the input:\n expected: Ok(Flat {{ inner: Inner {{ a: {text:?} }} }})\n actual  : {}",
            show(&res)
        );
    }
}
