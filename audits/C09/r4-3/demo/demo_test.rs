//! C09, borrowing clause: "Deserializing into borrowed strings succeeds exactly when the scalar
//! appears verbatim in the input and then yields the same text as the owned variant."
//!
//! An empty scalar that is made a string by its tag (`!!str` with no content - the YAML way to
//! write an empty string without quotes) deserializes into `String` as "" but is refused for
//! `&str` with "input does not contain value verbatim". Nothing is transformed here: the value
//! is the empty string, and the other spellings of the empty string (`""`, `''`) are lent.

use serde::Deserialize;

#[derive(Debug, Deserialize, PartialEq)]
struct Borrowed<'a> {
    #[serde(borrow)]
    name: &'a str,
    n: i32,
}

#[derive(Debug, Deserialize, PartialEq)]
struct Owned {
    name: String,
    n: i32,
}

#[test]
fn tagged_empty_string_is_refused_for_borrowed_str() {
    // controls: the quoted spellings of the empty string are lent
    for control in ["name: \"\"\nn: 1\n", "name: ''\nn: 1\n"] {
        let b: Borrowed = serde_saphyr::from_str(control).expect("control: quoted empty string is lent");
        assert_eq!(b, Borrowed { name: "", n: 1 });
    }

    let input = "name: !!str\nn: 1\n";
    let owned: Owned = serde_saphyr::from_str(input).unwrap();
    assert_eq!(owned, Owned { name: String::new(), n: 1 });

    match serde_saphyr::from_str::<Borrowed>(input) {
        Ok(b) => assert_eq!(b, Borrowed { name: "", n: 1 }),
        Err(e) => panic!(
            "expected: Ok(Borrowed {{ name: \"\", n: 1 }}) (owned variant: {owned:?}; nothing is transformed)\n\
             actual:   Err({:?})",
            e.without_snippet()
        ),
    }
}

#[test]
fn tagged_empty_string_in_a_flow_sequence() {
    let input = "[a, !!str , b]";
    let owned: Vec<String> = serde_saphyr::from_str(input).unwrap();
    assert_eq!(owned, ["a", "", "b"]);
    // control: quoted empty element
    let control: Vec<&str> = serde_saphyr::from_str("[a, \"\", b]").expect("control");
    assert_eq!(control, ["a", "", "b"]);

    match serde_saphyr::from_str::<Vec<&str>>(input) {
        Ok(v) => assert_eq!(v, ["a", "", "b"]),
        Err(e) => panic!(
            "expected: Ok([\"a\", \"\", \"b\"]) as for Vec<String>\nactual:   Err({:?})",
            e.without_snippet()
        ),
    }
}
