//! C09 - a reader that reports `ErrorKind::Interrupted` (the retry-me signal of `std::io::Read`)
//! between two read calls is tolerated when the split falls between characters, and turns into an
//! IO error when the split falls inside a multi-byte character.
use std::io::{self, Read};

/// Hands out `chunk` bytes per successful call; every other call transfers nothing and returns
/// `ErrorKind::Interrupted`, as a reader on top of a signal-interrupted syscall may do. This is
/// within the contract of `Read::read`: "If an error of the ErrorKind::Interrupted kind is
/// returned then ... no bytes were read ... the read operation should be retried".
struct Interrupting<'a> {
    data: &'a [u8],
    pos: usize,
    chunk: usize,
    interrupt_next: bool,
}

impl<'a> Interrupting<'a> {
    fn new(data: &'a [u8], chunk: usize) -> Self {
        Self { data, pos: 0, chunk, interrupt_next: true }
    }
}

impl Read for Interrupting<'_> {
    fn read(&mut self, buf: &mut [u8]) -> io::Result<usize> {
        if buf.is_empty() {
            return Ok(0);
        }
        if std::mem::replace(&mut self.interrupt_next, false) {
            return Err(io::Error::new(io::ErrorKind::Interrupted, "EINTR"));
        }
        self.interrupt_next = true;
        let n = self.chunk.min(buf.len()).min(self.data.len() - self.pos);
        buf[..n].copy_from_slice(&self.data[self.pos..self.pos + n]);
        self.pos += n;
        Ok(n)
    }
}

fn show<T: std::fmt::Debug>(r: Result<T, serde_saphyr::Error>) -> String {
    match r {
        Ok(v) => format!("Ok({v:?})"),
        Err(e) => format!("Err({})", e.without_snippet()),
    }
}

fn check(doc: &str) {
    let expected = show(serde_saphyr::from_str::<serde_json::Value>(doc));
    let mut report = String::new();
    let mut bad = 0;
    for chunk in 1..=6 {
        let got = show(serde_saphyr::from_reader::<_, serde_json::Value>(Interrupting::new(
            doc.as_bytes(),
            chunk,
        )));
        let got2 = show(serde_saphyr::with_deserializer_from_reader(
            Interrupting::new(doc.as_bytes(), chunk),
            |d| <serde_json::Value as serde::Deserialize>::deserialize(d),
        ));
        if got != expected || got2 != expected {
            bad += 1;
        }
        report.push_str(&format!(
            "\n  {chunk}-byte reads: from_reader -> {got}; with_deserializer_from_reader -> {got2}"
        ));
    }
    assert_eq!(
        bad, 0,
        "{doc:?}: expected {expected} for every chunk size, actual:{report}"
    );
}

/// Control: with ASCII only, the interrupting reader is handled for every chunk size (the retry is
/// implemented for the first byte of a character).
#[test]
fn ascii_document_survives_interrupted_reads() {
    check("name: value\nlist: [1, 2, 3]\n");
}

#[test]
fn two_byte_characters_split_by_an_interrupted_read() {
    check("name: é\n");
}

#[test]
fn three_and_four_byte_characters_split_by_an_interrupted_read() {
    check("日本: 😀\n");
}
