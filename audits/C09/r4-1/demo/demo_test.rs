//! C09, borrowing clause: "Deserializing into borrowed strings succeeds exactly when the scalar
//! appears verbatim in the input and then yields the same text as the owned variant."
//!
//! A block scalar whose text starts with blank lines (or consists of blank lines only) is never
//! lent, although its text stands in the input verbatim, byte for byte, as one contiguous run.
//! The same scalar without the leading blank line IS lent (control assertions below), so the
//! refusal is not a policy about block scalars but an artefact of where the comparison is anchored.

use serde::Deserialize;

/// Where `needle` occurs in `hay` (all occurrences), to show that the text is in the input.
fn occurrences(hay: &str, needle: &str) -> Vec<usize> {
    hay.match_indices(needle).map(|(i, _)| i).collect()
}

#[test]
fn top_level_literal_with_leading_blank_line_is_verbatim_but_refused() {
    // control: the same shape without the leading blank line is lent
    let control = "--- |\nabc\n\ndef\n";
    let owned: String = serde_saphyr::from_str(control).unwrap();
    assert_eq!(owned, "abc\n\ndef\n");
    let lent: &str = serde_saphyr::from_str(control).expect("control: verbatim literal is lent");
    assert_eq!(lent, owned);

    // the case: one blank line in front of the content
    let input = "--- |\n\nabc\n";
    let owned: String = serde_saphyr::from_str(input).unwrap();
    assert_eq!(owned, "\nabc\n");
    // the text of the scalar is bytes 6..11 of the input, nothing is transformed
    assert_eq!(&input[6..11], owned.as_str());
    assert_eq!(occurrences(input, &owned), vec![6]);

    let borrowed: Result<&str, _> = serde_saphyr::from_str(input);
    match borrowed {
        Ok(s) => assert_eq!(s, owned, "borrowed text must equal the owned text"),
        Err(e) => panic!(
            "expected: Ok({owned:?}) lent from input[6..11] (the scalar stands in the input verbatim)\n\
             actual:   Err({e})"
        ),
    }
}

#[derive(Debug, Deserialize)]
struct Borrowed<'a> {
    #[serde(borrow)]
    k: &'a str,
    j: i32,
}

#[derive(Debug, Deserialize)]
struct Owned {
    k: String,
    j: i32,
}

#[test]
fn nested_keep_literal_of_blank_lines_is_verbatim_but_refused() {
    // control: a nested one-line literal is lent
    let control = "k: |+\n  x\nj: 1\n";
    let b: Borrowed = serde_saphyr::from_str(control).expect("control: verbatim literal is lent");
    assert_eq!((b.k, b.j), ("x\n", 1));

    // the case: a `|+` scalar that consists of two blank lines
    let input = "k: |+\n\n\nj: 1\n";
    let owned: Owned = serde_saphyr::from_str(input).unwrap();
    assert_eq!((owned.k.as_str(), owned.j), ("\n\n", 1));
    // its text is bytes 6..8 of the input (the two blank lines), nothing is transformed
    assert_eq!(&input[6..8], owned.k.as_str());

    let borrowed: Result<Borrowed, _> = serde_saphyr::from_str(input);
    match borrowed {
        Ok(b) => assert_eq!((b.k, b.j), (owned.k.as_str(), owned.j)),
        Err(e) => panic!(
            "expected: Ok(Borrowed {{ k: {:?}, j: 1 }}) with k lent from input[6..8]\n\
             actual:   Err({e})",
            owned.k
        ),
    }
}
