// scratch differential harness (to be removed)
#![allow(dead_code)]
use serde::de::{self, Deserialize, Deserializer, MapAccess, SeqAccess, Visitor};
use std::fmt;
use std::io::Read;

#[derive(Debug, Clone, PartialEq)]
pub enum Val {
    Null,
    Bool(bool),
    I(i128),
    F(u64),
    S(String),
    B(Vec<u8>),
    Seq(Vec<Val>),
    Map(Vec<(Val, Val)>),
}

impl<'de> Deserialize<'de> for Val {
    fn deserialize<D: Deserializer<'de>>(d: D) -> Result<Self, D::Error> {
        struct V;
        impl<'de> Visitor<'de> for V {
            type Value = Val;
            fn expecting(&self, f: &mut fmt::Formatter) -> fmt::Result {
                f.write_str("anything")
            }
            fn visit_bool<E>(self, v: bool) -> Result<Val, E> {
                Ok(Val::Bool(v))
            }
            fn visit_i64<E>(self, v: i64) -> Result<Val, E> {
                Ok(Val::I(v as i128))
            }
            fn visit_u64<E>(self, v: u64) -> Result<Val, E> {
                Ok(Val::I(v as i128))
            }
            fn visit_i128<E>(self, v: i128) -> Result<Val, E> {
                Ok(Val::I(v))
            }
            fn visit_u128<E>(self, v: u128) -> Result<Val, E> {
                Ok(Val::I(v as i128))
            }
            fn visit_f64<E>(self, v: f64) -> Result<Val, E> {
                Ok(Val::F(v.to_bits()))
            }
            fn visit_str<E>(self, v: &str) -> Result<Val, E> {
                Ok(Val::S(v.to_string()))
            }
            fn visit_bytes<E>(self, v: &[u8]) -> Result<Val, E> {
                Ok(Val::B(v.to_vec()))
            }
            fn visit_unit<E>(self) -> Result<Val, E> {
                Ok(Val::Null)
            }
            fn visit_none<E>(self) -> Result<Val, E> {
                Ok(Val::Null)
            }
            fn visit_some<D: Deserializer<'de>>(self, d: D) -> Result<Val, D::Error> {
                Val::deserialize(d)
            }
            fn visit_seq<A: SeqAccess<'de>>(self, mut a: A) -> Result<Val, A::Error> {
                let mut v = Vec::new();
                while let Some(x) = a.next_element()? {
                    v.push(x);
                }
                Ok(Val::Seq(v))
            }
            fn visit_map<A: MapAccess<'de>>(self, mut a: A) -> Result<Val, A::Error> {
                let mut v = Vec::new();
                while let Some((k, x)) = a.next_entry()? {
                    v.push((k, x));
                }
                Ok(Val::Map(v))
            }
        }
        d.deserialize_any(V)
    }
}

pub struct Chunked<'a> {
    data: &'a [u8],
    pos: usize,
    sched: Vec<usize>,
    i: usize,
}
impl<'a> Chunked<'a> {
    pub fn new(data: &'a [u8], sched: Vec<usize>) -> Self {
        Chunked { data, pos: 0, sched, i: 0 }
    }
}
impl<'a> Read for Chunked<'a> {
    fn read(&mut self, buf: &mut [u8]) -> std::io::Result<usize> {
        if buf.is_empty() {
            return Ok(0);
        }
        let k = if self.sched.is_empty() { usize::MAX } else { self.sched[self.i % self.sched.len()] };
        self.i += 1;
        let n = k.max(1).min(buf.len()).min(self.data.len() - self.pos);
        buf[..n].copy_from_slice(&self.data[self.pos..self.pos + n]);
        self.pos += n;
        Ok(n)
    }
}

pub fn sig<T: fmt::Debug>(r: &Result<T, serde_saphyr::Error>) -> String {
    match r {
        Ok(v) => format!("Ok({:?})", v),
        Err(e) => {
            let e = e.without_snippet();
            let loc = e.location();
            let d = format!("{:?}", e);
            let name: String = d.chars().take_while(|c| c.is_alphanumeric()).collect();
            format!(
                "Err[{} @ {:?}] {}",
                name,
                loc.map(|l| (l.line(), l.column())),
                if name == "MultipleDocuments" { String::new() } else { e.to_string().lines().next().unwrap_or("").to_string() }
            )
        }
    }
}
pub fn sig_kind<T: fmt::Debug>(r: &Result<T, serde_saphyr::Error>) -> String {
    match r {
        Ok(v) => format!("Ok({:?})", v),
        Err(e) => {
            let e = e.without_snippet();
            let loc = e.location();
            let d = format!("{:?}", e);
            let name: String = d.chars().take_while(|c| c.is_alphanumeric()).collect();
            format!("Err[{} @ {:?}]", name, loc.map(|l| (l.line(), l.column())))
        }
    }
}

pub struct Rng(pub u64);
impl Rng {
    pub fn next(&mut self) -> u64 {
        self.0 ^= self.0 << 13;
        self.0 ^= self.0 >> 7;
        self.0 ^= self.0 << 17;
        self.0
    }
    pub fn below(&mut self, n: usize) -> usize {
        (self.next() % n as u64) as usize
    }
}

const VOCAB: &[&str] = &[
    "a", "b", "key", "1", "0x1F", "1.5", "true", "null", "~", "é", "日本", "😀", "\u{FEFF}", "\u{85}", "\u{2028}",
    "\u{A0}", " ", " ", "  ", "\t", "\n", "\n", "\n  ", "\n    ", "\r\n", "\r", ": ", ":", "- ", "-", "? ", ", ", ",",
    "[", "]", "{", "}", "#", " # c é\n", "&a ", "*a", "&é ", "*é", "!t ", "!!str ", "!!int ", "!<x> ", "!e!x ", "! ",
    "|", ">", "|-\n", ">+\n", "|2\n", "'", "\"", "''", "\\n", "\\x41", "\\u00e9", "\\", "\\\n", "---", "--- ", "...",
    "...\n", "---\n", "%YAML 1.2\n", "%TAG !e! tag:e,2000:\n", "%FOO é\n", "%", "<<: ", "<<", "=", "@", "`", "\0", "\u{7f}",
    "\n             ", "\n              ", "\n               ", "\n                ", "\n                 ", "              ", "                ",
    "\n                                                                                                                               x",
    "|\n", ">\n", "|9\n", ">-\n", "|+\n", "abcdefghijklmnopqrstuvwxyz", "\n\n", " \n", "\t\n", "é日本語😀éééééééééééééééé", "- |\n", "k: >\n", "k: |\n", "#\n", " #é", "  x\n",
    "%41", "%C3%A9", "!x%41 ", "!<tag:%C3%A9> ", "%TAG ! tag:%41:\n", "%TAG !! tag:x,2000:\n", "!e!%41 ", "!%4", "!x%zz ", "!!x ", "!!x%C3 ", "%TAG !e! !p%41\n", "%YAML 1.1\n", "%YAML 1.2 # c\n", "%YAML 1\n", "%YAML 1.2 x\n", "%TAG !e! tag:x #c\n",
    "\u{1b}", "!!binary ", "aGk=", ".inf", ".nan", "- - ", "a: b", "a: 1\n", "é: ü\n", "x:\n  - 1\n", "\"é\\té\"", "'it''s'",
];

fn is_tag_char(c: char) -> bool {
    (c.is_ascii_alphanumeric() || c == '-' || "#;/?:@&=+$,_.!~*'()[]%".contains(c)) && !",[]{}".contains(c) && c != '!'
}
fn has_empty_suffix_tag(doc: &str) -> bool {
    let cs: Vec<char> = doc.chars().collect();
    let mut i = 0;
    while i < cs.len() {
        if cs[i] == '!' {
            let mut j = i + 1;
            while j < cs.len() && (cs[j].is_ascii_alphanumeric() || cs[j] == '-' || cs[j] == '_') { j += 1; }
            if j < cs.len() && cs[j] == '!' {
                if j + 1 >= cs.len() || !is_tag_char(cs[j + 1]) { return true; }
            }
        }
        i += 1;
    }
    false
}
fn gen_doc(rng: &mut Rng) -> String {
    let n = 1 + rng.below(12);
    let mut s = String::new();
    for _ in 0..n {
        s.push_str(VOCAB[rng.below(VOCAB.len())]);
    }
    s
}

fn check<T: for<'de> Deserialize<'de> + fmt::Debug>(doc: &str, rng: &mut Rng, full: bool) -> Option<String> {
    let f = if full { sig::<T> } else { sig_kind::<T> };
    let a = f(&serde_saphyr::from_str::<T>(doc));
    let b = f(&serde_saphyr::from_slice::<T>(doc.as_bytes()));
    if a != b {
        return Some(format!("from_slice differs:\n str:   {a}\n slice: {b}"));
    }
    let scheds: Vec<Vec<usize>> = vec![
        vec![],
        vec![1],
        vec![2],
        vec![3],
        vec![1 + rng.below(7), 1 + rng.below(3)],
    ];
    for sc in scheds {
        let c = f(&serde_saphyr::from_reader::<_, T>(Chunked::new(doc.as_bytes(), sc.clone())));
        if a != c {
            return Some(format!("from_reader {sc:?} differs:\n str:    {a}\n reader: {c}"));
        }
    }
    let d = f(&serde_saphyr::with_deserializer_from_str(doc, |de| T::deserialize(de)));
    if a != d {
        return Some(format!("with_deserializer_from_str differs:\n str: {a}\n wd:  {d}"));
    }
    let e = f(&serde_saphyr::with_deserializer_from_reader(Chunked::new(doc.as_bytes(), vec![2]), |de| {
        T::deserialize(de)
    }));
    if a != e {
        return Some(format!("with_deserializer_from_reader differs:\n str: {a}\n wdr: {e}"));
    }
    None
}

#[test]
fn diff_fuzz() {
    let seed: u64 = std::env::var("SEED").ok().and_then(|s| s.parse().ok()).unwrap_or(0x9E3779B97F4A7C15);
    let iters: usize = std::env::var("ITERS").ok().and_then(|s| s.parse().ok()).unwrap_or(200_000);
    let full = std::env::var("FULL").is_ok();
    let mut rng = Rng(seed);
    let mut fails = 0;
    let mut best: std::collections::BTreeMap<String,(String,String)> = Default::default();
    for _ in 0..iters {
        let doc = gen_doc(&mut rng);
        if has_empty_suffix_tag(&doc) { continue; }
        let r = std::panic::catch_unwind(std::panic::AssertUnwindSafe(|| {
            let mut r2 = Rng(12345);
            check::<Val>(&doc, &mut r2, full)
                .or_else(|| check::<String>(&doc, &mut r2, full))
                .or_else(|| check::<Vec<String>>(&doc, &mut r2, full))
        }));
        let msg = match r {
            Ok(None) => continue,
            Ok(Some(m)) => m,
            Err(_) => "PANIC".to_string(),
        };
        if msg.contains("expected tag URI") { continue; } if std::env::var("NUL").is_ok() && !doc.contains('\0') { continue; }
        let key: String = msg.chars().filter(|c| !c.is_ascii_digit()).take(160).collect();
        let e = best.entry(key).or_insert_with(|| (doc.clone(), msg.clone()));
        if doc.len() < e.0.len() { *e = (doc.clone(), msg.clone()); }
        fails += 1;
    }
    for (_, (doc, msg)) in &best {
        println!("DOC {:?}\n{}", doc, msg);
    }
    println!("total failing docs: {fails}");
    assert_eq!(fails, 0);
}


// ---------- Spanned tree ----------
use serde_saphyr::Spanned;
#[derive(Debug, PartialEq)]
pub struct Node {
    r: (u64, u64, u64, u64),
    d: (u64, u64, u64, u64),
    inner: Inner,
}
#[derive(Debug, PartialEq)]
pub enum Inner {
    Null,
    S(String),
    Seq(Vec<Node>),
    Map(Vec<(Node, Node)>),
}
impl<'de> Deserialize<'de> for Node {
    fn deserialize<D: Deserializer<'de>>(d: D) -> Result<Self, D::Error> {
        let sp = Spanned::<Inner>::deserialize(d)?;
        let f = |l: serde_saphyr::Location| (l.line(), l.column(), l.span().offset(), l.span().len());
        Ok(Node { r: f(sp.referenced), d: f(sp.defined), inner: sp.value })
    }
}
impl<'de> Deserialize<'de> for Inner {
    fn deserialize<D: Deserializer<'de>>(d: D) -> Result<Self, D::Error> {
        struct V;
        impl<'de> Visitor<'de> for V {
            type Value = Inner;
            fn expecting(&self, f: &mut fmt::Formatter) -> fmt::Result { f.write_str("anything") }
            fn visit_bool<E>(self, v: bool) -> Result<Inner, E> { Ok(Inner::S(v.to_string())) }
            fn visit_i64<E>(self, v: i64) -> Result<Inner, E> { Ok(Inner::S(v.to_string())) }
            fn visit_u64<E>(self, v: u64) -> Result<Inner, E> { Ok(Inner::S(v.to_string())) }
            fn visit_f64<E>(self, v: f64) -> Result<Inner, E> { Ok(Inner::S(v.to_string())) }
            fn visit_str<E>(self, v: &str) -> Result<Inner, E> { Ok(Inner::S(v.to_string())) }
            fn visit_unit<E>(self) -> Result<Inner, E> { Ok(Inner::Null) }
            fn visit_none<E>(self) -> Result<Inner, E> { Ok(Inner::Null) }
            fn visit_seq<A: SeqAccess<'de>>(self, mut a: A) -> Result<Inner, A::Error> {
                let mut v = Vec::new();
                while let Some(x) = a.next_element()? { v.push(x); }
                Ok(Inner::Seq(v))
            }
            fn visit_map<A: MapAccess<'de>>(self, mut a: A) -> Result<Inner, A::Error> {
                let mut v = Vec::new();
                while let Some((k, x)) = a.next_entry()? { v.push((k, x)); }
                Ok(Inner::Map(v))
            }
        }
        d.deserialize_any(V)
    }
}

fn mk_opts(k: usize) -> serde_saphyr::Options {
    use serde_saphyr::DuplicateKeyPolicy as P;
    match k {
        0 => serde_saphyr::options! {},
        1 => serde_saphyr::options! { budget: serde_saphyr::budget! { max_events: 6, }, },
        2 => serde_saphyr::options! { budget: serde_saphyr::budget! { max_depth: 1, }, },
        3 => serde_saphyr::options! { budget: serde_saphyr::budget! { max_total_scalar_bytes: 5, }, },
        4 => serde_saphyr::options! { budget: serde_saphyr::budget! { max_nodes: 3, max_anchors: 1, max_aliases: 1, }, },
        5 => serde_saphyr::options! { duplicate_keys: P::LastWins, no_schema: true, },
        6 => serde_saphyr::options! { duplicate_keys: P::FirstWins, strict_booleans: true, legacy_octal_numbers: true, },
        7 => serde_saphyr::options! { budget: None, ignore_binary_tag_for_string: true, angle_conversions: true, },
        8 => serde_saphyr::options! { budget: serde_saphyr::budget! { max_documents: 1, max_merge_keys: 0, }, },
        _ => serde_saphyr::options! { alias_limits: serde_saphyr::options::AliasLimits { max_total_replayed_events: 2, max_replay_stack_depth: 1, max_alias_expansions_per_anchor: 1 }, },
    }
}

fn check_opts<T: for<'de> Deserialize<'de> + fmt::Debug>(doc: &str, k: usize) -> Option<String> {
    let f = sig_kind::<T>;
    let a = f(&serde_saphyr::from_str_with_options::<T>(doc, mk_opts(k)));
    let b = f(&serde_saphyr::from_slice_with_options::<T>(doc.as_bytes(), mk_opts(k)));
    if a != b { return Some(format!("opts {k} from_slice differs:\n str:   {a}\n slice: {b}")); }
    for sc in [vec![], vec![1usize], vec![3, 2]] {
        let c = f(&serde_saphyr::from_reader_with_options::<_, T>(Chunked::new(doc.as_bytes(), sc.clone()), mk_opts(k)));
        if a != c { return Some(format!("opts {k} from_reader {sc:?} differs:\n str:    {a}\n reader: {c}")); }
    }
    let d = f(&serde_saphyr::with_deserializer_from_str_with_options(doc, mk_opts(k), |de| T::deserialize(de)));
    if a != d { return Some(format!("opts {k} wd_str differs:\n str: {a}\n wd:  {d}")); }
    let d = f(&serde_saphyr::with_deserializer_from_slice_with_options(doc.as_bytes(), mk_opts(k), |de| T::deserialize(de)));
    if a != d { return Some(format!("opts {k} wd_slice differs:\n str: {a}\n wd:  {d}")); }
    let e = f(&serde_saphyr::with_deserializer_from_reader_with_options(Chunked::new(doc.as_bytes(), vec![2]), mk_opts(k), |de| T::deserialize(de)));
    if a != e { return Some(format!("opts {k} wd_reader differs:\n str: {a}\n wdr: {e}")); }
    None
}

fn check_bom<T: for<'de> Deserialize<'de> + fmt::Debug>(doc: &str) -> Option<String> {
    if doc.starts_with('\u{FEFF}') { return None; }
    let f = sig_kind::<T>;
    let a = f(&serde_saphyr::from_str::<T>(doc));
    let bd = format!("\u{FEFF}{doc}");
    let b = f(&serde_saphyr::from_str::<T>(&bd));
    if a != b { return Some(format!("BOM str differs:\n nobom: {a}\n bom:   {b}")); }
    let b = f(&serde_saphyr::from_slice::<T>(bd.as_bytes()));
    if a != b { return Some(format!("BOM slice differs:\n nobom: {a}\n bom:   {b}")); }
    for sc in [vec![], vec![1usize], vec![2], vec![3], vec![4]] {
        let c = f(&serde_saphyr::from_reader::<_, T>(Chunked::new(bd.as_bytes(), sc.clone())));
        if a != c { return Some(format!("BOM reader {sc:?} differs:\n nobom: {a}\n bom:   {c}")); }
    }
    let d = f(&serde_saphyr::with_deserializer_from_str(&bd, |de| T::deserialize(de)));
    if a != d { return Some(format!("BOM wd_str differs:\n nobom: {a}\n bom:  {d}")); }
    let e = f(&serde_saphyr::with_deserializer_from_reader(Chunked::new(bd.as_bytes(), vec![2]), |de| T::deserialize(de)));
    if a != e { return Some(format!("BOM wd_reader differs:\n nobom: {a}\n bom: {e}")); }
    None
}

#[test]
fn diff_fuzz2() {
    let seed: u64 = std::env::var("SEED").ok().and_then(|s| s.parse().ok()).unwrap_or(0x1234567887654321);
    let iters: usize = std::env::var("ITERS").ok().and_then(|s| s.parse().ok()).unwrap_or(200_000);
    let mut rng = Rng(seed);
    let mut fails = 0;
    let mut best: std::collections::BTreeMap<String,(String,String)> = Default::default();
    for _ in 0..iters {
        let doc = gen_doc(&mut rng);
        if has_empty_suffix_tag(&doc) { continue; }
        if doc.contains('\0') && doc.contains('%') { continue; }
        let k = rng.below(10);
        let r = std::panic::catch_unwind(std::panic::AssertUnwindSafe(|| {
            let mut r2 = Rng(777);
            check::<Node>(&doc, &mut r2, false)
                .or_else(|| check_bom::<Val>(&doc))
                .or_else(|| check_bom::<Node>(&doc))
                .or_else(|| check_opts::<Val>(&doc, k))
        }));
        let msg = match r { Ok(None) => continue, Ok(Some(m)) => m, Err(_) => "PANIC".to_string() };
        let key: String = msg.chars().filter(|c| !c.is_ascii_digit()).take(100).collect();
        let e = best.entry(key).or_insert_with(|| (doc.clone(), msg.clone()));
        if doc.len() < e.0.len() { *e = (doc.clone(), msg.clone()); }
        fails += 1;
    }
    for (_, (doc, msg)) in &best { println!("DOC {:?}\n{}", doc, msg); }
    println!("total failing docs: {fails}");
    assert_eq!(fails, 0);
}

#[test]
fn sanity_node() {
    let r = serde_saphyr::from_str::<Node>("a: [1, é]\n# é\nb: &x q\nc: *x\n");
    println!("{:?}", r);
    let r = serde_saphyr::from_reader::<_, Node>("a: [1, é]\n# é\nb: &x q\nc: *x\n".as_bytes());
    println!("{:?}", r);
}

#[test]
fn big_docs() {
    let mut bad = 0;
    // multi-byte chars straddling buffer boundaries
    for base in [3 * 1024usize, 4096, 8192, 16384, 65536] {
        for delta in -6i64..=6 {
            let n = (base as i64 + delta) as usize;
            for filler in ["a", "é", "日", "😀"] {
                // scalar of about n bytes
                let cnt = n / filler.len();
                let body: String = filler.repeat(cnt);
                for doc in [
                    format!("k: {body}\nz: 1\n"),
                    format!("k: \"{body}\"\nz: [1, 2\n"),          // error after
                    format!("# {body}\nk: v\n- x\n"),               // error after long comment
                    format!("k: |\n  {body}\n  {body}\nz: @\n"),
                    format!("- {body}: 1\n- *nope\n"),
                ] {
                    let a = sig_kind(&serde_saphyr::from_str::<Val>(&doc));
                    for sc in [vec![], vec![1usize], vec![4095], vec![8191, 1], vec![7, 8193]] {
                        let c = sig_kind(&serde_saphyr::from_reader::<_, Val>(Chunked::new(doc.as_bytes(), sc.clone())));
                        if a != c {
                            bad += 1;
                            if bad < 20 {
                                println!("DIFF n={n} filler={filler} sc={sc:?} doc[..20]={:?}\n str: {}\n rdr: {}", &doc.chars().take(20).collect::<String>(), &a.chars().take(200).collect::<String>(), &c.chars().take(200).collect::<String>());
                            }
                        }
                    }
                }
            }
        }
    }
    // many lines then error
    for lines in [100usize, 1000, 5000, 20000] {
        let mut doc = String::new();
        for i in 0..lines { doc.push_str(&format!("k{i}: é{i}\n")); }
        for tail in ["bad: [1, 2\n", "k0: dup\n", "x: *nope\n", "  y: 1\n", "\"é\\q\"\n"] {
            let d = format!("{doc}{tail}");
            let a = sig_kind(&serde_saphyr::from_str::<std::collections::BTreeMap<String, String>>(&d));
            let c = sig_kind(&serde_saphyr::from_reader::<_, std::collections::BTreeMap<String, String>>(Chunked::new(d.as_bytes(), vec![1000])));
            if a != c || a.starts_with("Ok") {
                bad += 1;
                println!("DIFF lines={lines} tail={tail:?}\n str: {}\n rdr: {}", &a.chars().take(200).collect::<String>(), &c.chars().take(200).collect::<String>());
            }
        }
    }
    assert_eq!(bad, 0);
}

#[test]
fn block_scalar_fuzz() {
    let iters: usize = std::env::var("ITERS").ok().and_then(|s| s.parse().ok()).unwrap_or(300_000);
    let mut rng = Rng(0xABCDEF12345);
    let mut best: std::collections::BTreeMap<String,(String,String)> = Default::default();
    let mut fails = 0;
    for _ in 0..iters {
        let mut doc = String::new();
        let depth = rng.below(4);
        let mut ind = 0usize;
        for d in 0..depth {
            doc.push_str(&" ".repeat(ind));
            match rng.below(3) { 0 => doc.push_str(&format!("k{d}:\n")), 1 => doc.push_str("-\n"), _ => doc.push_str(&format!("? k{d}\n{}:\n", " ".repeat(ind))) }
            ind += [1usize, 2, 4, 7, 13, 14, 15, 16][rng.below(8)];
        }
        doc.push_str(&" ".repeat(ind));
        doc.push_str(["k: ", "- ", "", "? ", "k: !!str ", "- &a "][rng.below(6)]);
        doc.push_str(["|", ">"][rng.below(2)]);
        let hdr = ["", "-", "+", "1", "2", "9", "2-", "+1", "-9", "0", "10"][rng.below(11)];
        doc.push_str(hdr);
        doc.push_str(["\n", " \n", " # c\n", " #é\n", "\r\n", ""][rng.below(6)]);
        let lines = rng.below(6);
        for _ in 0..lines {
            let li = match rng.below(6) { 0 => ind, 1 => ind + 1, 2 => ind + 2, 3 => ind + 9, 4 => rng.below(20), _ => ind + rng.below(18) };
            doc.push_str(&" ".repeat(li));
            doc.push_str(["text", "é", "", "", "\t", "x y  ", "# no", "- a", "k: v", "...", "---", "日本語日本語日本語日本語日本語日本語", " lead", "\tx"][rng.below(14)]);
            doc.push_str(["\n", "\n", "\n", "\r\n", "\n\n", ""][rng.below(6)]);
        }
        if rng.below(3) == 0 {
            let li = rng.below(ind + 2);
            doc.push_str(&" ".repeat(li));
            doc.push_str(["z: 1\n", "- 2\n", "...\n", "---\nq\n", "z"][rng.below(5)]);
        }
        let r = std::panic::catch_unwind(std::panic::AssertUnwindSafe(|| {
            let mut r2 = Rng(5);
            check::<Node>(&doc, &mut r2, false)
        }));
        let msg = match r { Ok(None) => continue, Ok(Some(m)) => m, Err(_) => "PANIC".to_string() };
        let key: String = msg.chars().filter(|c| !c.is_ascii_digit()).take(100).collect();
        let e = best.entry(key).or_insert_with(|| (doc.clone(), msg.clone()));
        if doc.len() < e.0.len() { *e = (doc.clone(), msg.clone()); }
        fails += 1;
    }
    for (_, (doc, msg)) in &best { println!("DOC {:?}\n{}", doc, msg); }
    println!("total failing docs: {fails}");
    assert_eq!(fails, 0);
}

#[derive(Debug, serde::Deserialize, PartialEq)]
enum En { A(i32), B { x: String }, C, #[serde(rename = "int")] I(String) }

#[test]
fn tag_fuzz() {
    let iters: usize = std::env::var("ITERS").ok().and_then(|s| s.parse().ok()).unwrap_or(300_000);
    let mut rng = Rng(0x5555AAAA1234);
    let mut best: std::collections::BTreeMap<String,(String,String)> = Default::default();
    let mut fails = 0;
    let pre = ["", "", "", "%TAG !y! tag:yaml.org,2002:\n---\n", "%TAG ! tag:yaml.org,2002:\n---\n", "%TAG !! !my-\n---\n", "%TAG !y! tag:yaml.org,2002:in\n---\n", "%TAG !e! tag:%79aml.org,2002:\n--- ", "---\n", "%TAG !y! !\n---\n"];
    let tags = ["!!int", "!!float", "!!bool", "!!null", "!!binary", "!!str", "!!timestamp", "!!set", "!!omap", "!!merge", "!", "!<tag:yaml.org,2002:int>", "!<tag:yaml.org,2002:str>", "!<!A>", "!<>", "!<tag:yaml.org,2002:in%74>",
        "!y!int", "!y!t", "!y!str", "!e!int", "!!in%74", "!%41", "!A", "!B", "!C", "!int", "!!A", "!y!", "!!", "!a!b!c", "!é", "!!é", "!A%", "!A%4", "!!s%74r", "!!st%72", "!%73tr", "!<tag:yaml.org,2002:%73tr>", "!!binar%79", "!!nul%6C", "!!%6Eull", "!!int!", "!A,", "![", "!!str,", "!A]"];
    let vals = ["1", "0x10", "true", "null", "~", "", "aGk=", "abc", "'1'", "\"x\"", "{x: q}", "[1]", "\n  x: q", "\n- 1", "|\n  7\n", "&a 5", "*a", "é"];
    let ctx = [("", ""), ("- ", ""), ("k: ", ""), ("[", "]"), ("{k: ", "}"), ("[ ", " , 2]"), ("? ", "\n: v"), ("- &a 3\n- ", "")];
    for _ in 0..iters {
        let mut doc = String::new();
        doc.push_str(pre[rng.below(pre.len())]);
        let (a, b) = ctx[rng.below(ctx.len())];
        doc.push_str(a);
        if rng.below(5) == 0 { doc.push_str("&a "); }
        doc.push_str(tags[rng.below(tags.len())]);
        doc.push_str([" ", " ", " ", "", "\n", "\t", "  # c\n  "][rng.below(7)]);
        if rng.below(6) == 0 { doc.push_str("&b "); }
        doc.push_str(vals[rng.below(vals.len())]);
        doc.push_str(b);
        doc.push_str(["", "\n", "\n...\n"][rng.below(3)]);
        if has_empty_suffix_tag(&doc.replace("%TAG !y! ", "").replace("%TAG !! ", "").replace("%TAG !e! ", "")) { continue; }
        let r = std::panic::catch_unwind(std::panic::AssertUnwindSafe(|| {
            let mut r2 = Rng(5);
            check::<Val>(&doc, &mut r2, false)
                .or_else(|| check::<Vec<En>>(&doc, &mut r2, false))
                .or_else(|| check::<En>(&doc, &mut r2, false))
                .or_else(|| check::<String>(&doc, &mut r2, false))
                .or_else(|| check::<Vec<Option<i64>>>(&doc, &mut r2, false))
                .or_else(|| check::<std::collections::BTreeMap<String, serde_json::Value>>(&doc, &mut r2, false))
        }));
        let msg = match r { Ok(None) => continue, Ok(Some(m)) => m, Err(_) => "PANIC".to_string() };
        let key: String = msg.chars().filter(|c| !c.is_ascii_digit()).take(100).collect();
        let e = best.entry(key).or_insert_with(|| (doc.clone(), msg.clone()));
        if doc.len() < e.0.len() { *e = (doc.clone(), msg.clone()); }
        fails += 1;
    }
    for (_, (doc, msg)) in &best { println!("DOC {:?}\n{}", doc, msg); }
    println!("total failing docs: {fails}");
    assert_eq!(fails, 0);
}
