//! C09 - a NUL character (U+0000, valid UTF-8) inside a `%` directive line is part of the directive's
//! name / parameter for the string entry points and the end of input for the reader entry points.
use serde::de::DeserializeOwned;
use std::fmt::Debug;
use std::io::Read;

/// Hands out at most `k` bytes per read call.
struct Chunked<'a> {
    data: &'a [u8],
    pos: usize,
    k: usize,
}
impl Read for Chunked<'_> {
    fn read(&mut self, buf: &mut [u8]) -> std::io::Result<usize> {
        let n = self.k.min(buf.len()).min(self.data.len() - self.pos);
        buf[..n].copy_from_slice(&self.data[self.pos..self.pos + n]);
        self.pos += n;
        Ok(n)
    }
}

/// Value, or error kind (variant name) with line and column.
fn sig<T: Debug>(r: Result<T, serde_saphyr::Error>) -> String {
    match r {
        Ok(v) => format!("Ok({v:?})"),
        Err(e) => {
            let e = e.without_snippet();
            let kind: String = format!("{e:?}").chars().take_while(|c| c.is_alphanumeric()).collect();
            let loc = e.location().map(|l| (l.line(), l.column()));
            format!("Err({kind} at {loc:?}: {e})")
        }
    }
}

fn all_entry_points<T: DeserializeOwned + Debug>(doc: &str) -> Vec<(&'static str, String)> {
    vec![
        ("from_str", sig(serde_saphyr::from_str::<T>(doc))),
        ("from_slice", sig(serde_saphyr::from_slice::<T>(doc.as_bytes()))),
        (
            "with_deserializer_from_str",
            sig(serde_saphyr::with_deserializer_from_str(doc, |d| T::deserialize(d))),
        ),
        (
            "from_reader (one read)",
            sig(serde_saphyr::from_reader::<_, T>(Chunked { data: doc.as_bytes(), pos: 0, k: usize::MAX })),
        ),
        (
            "from_reader (1-byte reads)",
            sig(serde_saphyr::from_reader::<_, T>(Chunked { data: doc.as_bytes(), pos: 0, k: 1 })),
        ),
        (
            "with_deserializer_from_reader",
            sig(serde_saphyr::with_deserializer_from_reader(
                Chunked { data: doc.as_bytes(), pos: 0, k: 3 },
                |d| T::deserialize(d),
            )),
        ),
    ]
}

fn assert_agree<T: DeserializeOwned + Debug>(doc: &str) {
    let results = all_entry_points::<T>(doc);
    let expected = &results[0].1;
    let listing: String = results.iter().map(|(n, s)| format!("\n  {n:<32} -> {s}")).collect();
    for (name, got) in &results {
        assert_eq!(
            got, expected,
            "entry points disagree for {doc:?}: expected (from_str) {expected}, actual ({name}) {got}; all:{listing}"
        );
    }
}

/// Control: without the NUL every entry point returns the value (a reserved directive is ignored).
#[test]
fn control_reserved_directive_without_nul() {
    assert_agree::<String>("%FOO-BAR baz\n---\nvalue\n");
    assert_eq!(serde_saphyr::from_str::<String>("%FOO-BAR baz\n---\nvalue\n").unwrap(), "value");
}

#[test]
fn nul_in_the_name_of_a_reserved_directive() {
    // string input: Ok("value"); reader input: scan error
    assert_agree::<String>("%FOO\0BAR baz\n---\nvalue\n");
}

#[test]
fn nul_in_the_parameter_of_a_reserved_directive() {
    assert_agree::<String>("%FOO ba\0z\n---\nvalue\n");
}

#[test]
fn nul_right_behind_the_percent_sign() {
    // both fail, but not with the same error at the same place (2:1 vs 1:2)
    assert_agree::<String>("%\0");
}
