//! C09, borrowing clause: "Deserializing into borrowed strings succeeds exactly when the scalar
//! appears verbatim in the input and then yields the same text as the owned variant."
//!
//! The crate's own `Spanned<T>` wrapper drops the lend: wherever serde buffers the node first
//! (`#[serde(flatten)]`, untagged and internally tagged enums) a `Spanned<&str>` is refused for
//! a plain scalar that stands in the input verbatim, while at the very same place
//!   - a bare `&str` is lent (so the deserializer did offer `visit_borrowed_str`), and
//!   - the owned variant `Spanned<String>` succeeds.
//! The refusal is not even the dedicated `CannotBorrowTransformedString` error.

use serde::Deserialize;
use serde_saphyr::Spanned;

// ---- flattened struct -------------------------------------------------------------------

#[derive(Debug, Deserialize)]
struct InnerPlain<'a> {
    #[serde(borrow)]
    x: &'a str,
}
#[derive(Debug, Deserialize)]
struct OuterPlain<'a> {
    a: i32,
    #[serde(flatten, borrow)]
    inner: InnerPlain<'a>,
}

#[derive(Debug, Deserialize)]
struct InnerOwned {
    x: Spanned<String>,
}
#[derive(Debug, Deserialize)]
struct OuterOwned {
    a: i32,
    #[serde(flatten)]
    inner: InnerOwned,
}

#[derive(Debug, Deserialize)]
struct InnerSpanned<'a> {
    #[serde(borrow)]
    x: Spanned<&'a str>,
}
#[derive(Debug, Deserialize)]
struct OuterSpanned<'a> {
    a: i32,
    #[serde(flatten, borrow)]
    inner: InnerSpanned<'a>,
}

#[test]
fn spanned_borrowed_str_in_flattened_struct() {
    let input = "a: 1\nx: hello\n";

    // controls: the scalar is lent to a bare &str here, and the owned Spanned works
    let plain: OuterPlain = serde_saphyr::from_str(input).expect("control: bare &str is lent");
    assert_eq!((plain.a, plain.inner.x), (1, "hello"));
    let owned: OuterOwned = serde_saphyr::from_str(input).expect("control: Spanned<String>");
    assert_eq!((owned.a, owned.inner.x.value.as_str()), (1, "hello"));
    // not flattened, Spanned<&str> is lent as well
    let direct: InnerSpanned = serde_saphyr::from_str("x: hello\n").expect("control: not flattened");
    assert_eq!(direct.x.value, "hello");

    let borrowed: Result<OuterSpanned, _> = serde_saphyr::from_str(input);
    match borrowed {
        Ok(v) => assert_eq!((v.a, v.inner.x.value), (1, "hello")),
        Err(e) => panic!(
            "expected: Ok(.. x: Spanned {{ value: \"hello\", .. }}) lent from input[8..13]\n\
             actual:   Err({:?})",
            e.without_snippet()
        ),
    }
}

// ---- untagged enum ----------------------------------------------------------------------

#[derive(Debug, Deserialize)]
#[serde(untagged)]
enum UPlain<'a> {
    #[serde(borrow)]
    S(&'a str),
}
#[derive(Debug, Deserialize)]
#[serde(untagged)]
enum UOwned {
    S(Spanned<String>),
}
#[derive(Debug, Deserialize)]
#[serde(untagged)]
enum USpanned<'a> {
    #[serde(borrow)]
    S(Spanned<&'a str>),
}

#[test]
fn spanned_borrowed_str_in_untagged_enum() {
    let input = "hello";
    let UPlain::S(p) = serde_saphyr::from_str::<UPlain>(input).expect("control: bare &str is lent");
    assert_eq!(p, "hello");
    let UOwned::S(o) = serde_saphyr::from_str::<UOwned>(input).expect("control: Spanned<String>");
    assert_eq!(o.value, "hello");

    match serde_saphyr::from_str::<USpanned>(input) {
        Ok(USpanned::S(s)) => assert_eq!(s.value, "hello"),
        Err(e) => panic!(
            "expected: Ok(S(Spanned {{ value: \"hello\", .. }})) lent from the input\n\
             actual:   Err({:?})",
            e.without_snippet()
        ),
    }
}
