//! C09, borrowed strings: "Deserializing into borrowed strings succeeds exactly when the scalar
//! appears verbatim in the input and then yields the same text as the owned variant".
//!
//! A one-line block scalar (`|-\n  hello`) stands in the input verbatim and is lent when the
//! deserializer reads it from the live event stream (repair b4287ec). The same scalar is refused
//! as soon as it reaches the target through one of the crate's replay buffers (`ReplayEvents`):
//!   - a value that a mapping inherits through a merge key (`<<: *base`),
//!   - the payload of an enum variant selected by a tag (`!V |-\n  hello`),
//!   - a mapping key (every key is deserialized from a recorded buffer).
//! A plain or quoted scalar at the very same place is lent, and the owned variant of the target
//! yields exactly the text that stands in the input at the scalar's byte offset.

use serde::Deserialize;
use std::collections::BTreeMap;

#[derive(Debug, Deserialize, PartialEq)]
struct Obj<'a> {
    a: &'a str,
    x: i32,
}
#[derive(Debug, Deserialize, PartialEq)]
struct Doc<'a> {
    #[serde(borrow)]
    obj: Obj<'a>,
}
#[derive(Debug, Deserialize, PartialEq)]
struct ObjOwned {
    a: String,
    x: i32,
}
#[derive(Debug, Deserialize, PartialEq)]
struct DocOwned {
    obj: ObjOwned,
}

#[derive(Debug, Deserialize, PartialEq)]
enum En<'a> {
    V(&'a str),
}
#[derive(Debug, Deserialize, PartialEq)]
enum EnOwned {
    V(String),
}

fn show<T: std::fmt::Debug>(r: &Result<T, serde_saphyr::Error>) -> String {
    match r {
        Ok(v) => format!("Ok({v:?})"),
        Err(e) => format!("Err({})", e.without_snippet()),
    }
}

#[test]
fn merged_block_scalar_value_is_lent_like_a_plain_one() {
    let block = "base: &b\n  a: |-\n    hello\nobj:\n  <<: *b\n  x: 1\n";
    let plain = "base: &b\n  a: hello\nobj:\n  <<: *b\n  x: 1\n";

    // Controls: the owned variant reads "hello", "hello" stands verbatim in the input, and the
    // plain spelling of the same document is lent.
    let owned: DocOwned = serde_saphyr::from_str(block).unwrap();
    assert_eq!(owned.obj.a, "hello");
    assert!(block.contains("    hello\n"));
    let plain_res: Doc = serde_saphyr::from_str(plain).unwrap();
    assert_eq!(plain_res.obj.a, "hello");

    let res = serde_saphyr::from_str::<Doc>(block);
    assert!(
        matches!(&res, Ok(d) if d.obj.a == "hello"),
        "merge-derived block scalar that stands verbatim in the input:\n expected: Ok(Doc {{ obj: Obj {{ a: \"hello\", x: 1 }} }})\n actual  : {}",
        show(&res)
    );
}

#[test]
fn tagged_enum_payload_block_scalar_is_lent_like_a_plain_one() {
    let block = "!V |-\n  hello\n";
    let plain = "!V hello\n";

    assert_eq!(serde_saphyr::from_str::<EnOwned>(block).unwrap(), EnOwned::V("hello".into()));
    assert_eq!(serde_saphyr::from_str::<En>(plain).unwrap(), En::V("hello"));
    // Without the tag (payload read from the live stream) the very same block scalar is lent.
    assert_eq!(serde_saphyr::from_str::<En>("V: |-\n  hello\n").unwrap(), En::V("hello"));

    let res = serde_saphyr::from_str::<En>(block);
    assert!(
        matches!(&res, Ok(En::V("hello"))),
        "tag-selected variant with a block scalar payload that stands verbatim in the input:\n expected: Ok(V(\"hello\"))\n actual  : {}",
        show(&res)
    );
}

#[test]
fn block_scalar_key_is_lent_like_a_plain_one() {
    let block = "? |-\n  key\n: v\n";
    let plain = "? key\n: v\n";

    let owned: BTreeMap<String, String> = serde_saphyr::from_str(block).unwrap();
    assert_eq!(owned.get("key").map(String::as_str), Some("v"));
    let plain_res: BTreeMap<&str, &str> = serde_saphyr::from_str(plain).unwrap();
    assert_eq!(plain_res.get("key"), Some(&"v"));

    let res = serde_saphyr::from_str::<BTreeMap<&str, &str>>(block);
    assert!(
        matches!(&res, Ok(m) if m.get("key") == Some(&"v")),
        "block scalar key that stands verbatim in the input:\n expected: Ok({{\"key\": \"v\"}})\n actual  : {}",
        show(&res)
    );
}
