//! C09 (all entry points agree, for the same text, *options* and target type): with
//! `Options { with_snippet: false, .. }` the string / slice entry points return the bare error,
//! `from_reader_with_options` ignores the option and returns the error wrapped in
//! `Error::WithSnippet` - a different variant that also renders differently.
//!
//! Run: cargo test --offline --test demo_test

use serde::Deserialize;

#[derive(Debug, Deserialize)]
#[allow(dead_code)]
struct Cfg {
    a: i32,
}

fn variant(e: &serde_saphyr::Error) -> String {
    format!("{e:?}").chars().take_while(|c| c.is_alphanumeric()).collect()
}

fn no_snippet_options() -> serde_saphyr::Options {
    serde_saphyr::options! {
        with_snippet: false,
    }
}

#[test]
fn with_snippet_false_is_honoured_by_all_entry_points() {
    // A type error, a syntax error, a second document.
    for text in ["a: x\n", "a: [\n", "a: 1\n---\na: 2\n"] {
        let e_str = serde_saphyr::from_str_with_options::<Cfg>(text, no_snippet_options()).unwrap_err();
        let e_slice =
            serde_saphyr::from_slice_with_options::<Cfg>(text.as_bytes(), no_snippet_options()).unwrap_err();
        let e_wstr = serde_saphyr::with_deserializer_from_str_with_options(text, no_snippet_options(), |d| {
            Cfg::deserialize(d)
        })
        .unwrap_err();
        let e_reader =
            serde_saphyr::from_reader_with_options::<_, Cfg>(text.as_bytes(), no_snippet_options()).unwrap_err();

        // The string-based entry points honour the option ...
        assert_ne!(variant(&e_str), "WithSnippet", "from_str, input {text:?}");
        assert_eq!(variant(&e_str), variant(&e_slice), "input {text:?}");
        assert_eq!(variant(&e_str), variant(&e_wstr), "input {text:?}");
        // ... and so must the reader: same options, same text, same kind of error.
        assert_eq!(
            variant(&e_str),
            variant(&e_reader),
            "input {text:?}, with_snippet: false - from_str returns (left), from_reader returns (right);\n\
             from_str renders as:\n{e_str}\nfrom_reader renders as:\n{e_reader}"
        );
    }
}
