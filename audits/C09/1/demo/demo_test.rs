//! C09 - a tag shorthand with an empty suffix (`!! x`, `!e! x`) is accepted by the string entry
//! points and rejected by the reader entry points.
use serde::de::DeserializeOwned;
use std::fmt::Debug;
use std::io::Read;

/// Hands out at most `k` bytes per read call.
struct Chunked<'a> {
    data: &'a [u8],
    pos: usize,
    k: usize,
}
impl Read for Chunked<'_> {
    fn read(&mut self, buf: &mut [u8]) -> std::io::Result<usize> {
        let n = self.k.min(buf.len()).min(self.data.len() - self.pos);
        buf[..n].copy_from_slice(&self.data[self.pos..self.pos + n]);
        self.pos += n;
        Ok(n)
    }
}

/// Value, or error kind (variant name) with line and column.
fn sig<T: Debug>(r: Result<T, serde_saphyr::Error>) -> String {
    match r {
        Ok(v) => format!("Ok({v:?})"),
        Err(e) => {
            let e = e.without_snippet();
            let kind: String = format!("{e:?}").chars().take_while(|c| c.is_alphanumeric()).collect();
            let loc = e.location().map(|l| (l.line(), l.column()));
            format!("Err({kind} at {loc:?}: {e})")
        }
    }
}

fn all_entry_points<T: DeserializeOwned + Debug>(doc: &str) -> Vec<(&'static str, String)> {
    vec![
        ("from_str", sig(serde_saphyr::from_str::<T>(doc))),
        ("from_slice", sig(serde_saphyr::from_slice::<T>(doc.as_bytes()))),
        (
            "with_deserializer_from_str",
            sig(serde_saphyr::with_deserializer_from_str(doc, |d| T::deserialize(d))),
        ),
        (
            "from_reader (one read)",
            sig(serde_saphyr::from_reader::<_, T>(Chunked { data: doc.as_bytes(), pos: 0, k: usize::MAX })),
        ),
        (
            "from_reader (1-byte reads)",
            sig(serde_saphyr::from_reader::<_, T>(Chunked { data: doc.as_bytes(), pos: 0, k: 1 })),
        ),
        (
            "with_deserializer_from_reader",
            sig(serde_saphyr::with_deserializer_from_reader(
                Chunked { data: doc.as_bytes(), pos: 0, k: 3 },
                |d| T::deserialize(d),
            )),
        ),
    ]
}

fn assert_agree<T: DeserializeOwned + Debug>(doc: &str) {
    let results = all_entry_points::<T>(doc);
    let expected = &results[0].1;
    let listing: String = results.iter().map(|(n, s)| format!("\n  {n:<32} -> {s}")).collect();
    for (name, got) in &results {
        assert_eq!(
            got, expected,
            "entry points disagree for {doc:?}: expected (from_str) {expected}, actual ({name}) {got}; all:{listing}"
        );
    }
}

#[test]
fn secondary_handle_without_suffix() {
    assert_agree::<String>("!! x");
}

#[test]
fn named_handle_without_suffix_declared_by_tag_directive() {
    assert_agree::<String>("%TAG !e! tag:example.com,2000:\n---\n!e! x\n");
}

#[test]
fn handle_without_suffix_on_an_empty_sequence_entry() {
    assert_agree::<Vec<Option<i32>>>("- !!\n- 1\n");
}

#[test]
fn handle_without_suffix_behind_the_document_end_marker() {
    // what follows `...` is ignored if it cannot be scanned, reported if it is a second document:
    // the two input kinds take different branches.
    assert_agree::<String>("a\n...\n!! x\n");
}
