//! C09 (borrowed clause) - a *plain* scalar is never lent when the target reaches it through
//! `deserialize_any` (serde's untagged / internally tagged enums and `#[serde(flatten)]`), although
//! it is in the input verbatim, the parser delivers it as `Cow::Borrowed`, and the very same
//! scalar is lent when it is quoted or when the target asks with `deserialize_str`.
use serde::Deserialize;

fn show<T: std::fmt::Debug>(r: &Result<T, serde_saphyr::Error>) -> String {
    match r {
        Ok(v) => format!("Ok({v:?})"),
        Err(e) => format!("Err({})", e.without_snippet()),
    }
}

#[derive(Debug, Deserialize, PartialEq)]
#[serde(untagged)]
enum Untagged<'a> {
    #[serde(borrow)]
    Text(&'a str),
}

#[derive(Debug, Deserialize, PartialEq)]
#[serde(untagged)]
enum UntaggedOwned {
    Text(String),
}

#[derive(Debug, Deserialize, PartialEq)]
struct Inner<'a> {
    #[serde(borrow)]
    name: &'a str,
}
#[derive(Debug, Deserialize, PartialEq)]
struct Flat<'a> {
    #[serde(flatten, borrow)]
    inner: Inner<'a>,
}
#[derive(Debug, Deserialize, PartialEq)]
struct InnerOwned {
    name: String,
}
#[derive(Debug, Deserialize, PartialEq)]
struct FlatOwned {
    #[serde(flatten)]
    inner: InnerOwned,
}

#[derive(Debug, Deserialize, PartialEq)]
#[serde(tag = "kind")]
enum Tagged<'a> {
    Item {
        #[serde(borrow)]
        name: &'a str,
    },
}
#[derive(Debug, Deserialize, PartialEq)]
#[serde(tag = "kind")]
enum TaggedOwned {
    Item { name: String },
}

/// Controls: the scalar `abc` is lendable (direct `&str`, and quoted through `deserialize_any`).
#[test]
fn controls_direct_and_quoted_scalars_are_lent() {
    assert_eq!(serde_saphyr::from_str::<&str>("abc").unwrap(), "abc");
    assert_eq!(serde_saphyr::from_str::<Vec<&str>>("- abc\n- 'd e'\n").unwrap(), ["abc", "d e"]);
    assert_eq!(serde_saphyr::from_str::<Untagged>("\"abc\"").unwrap(), Untagged::Text("abc"));
    assert_eq!(
        serde_saphyr::from_str::<Flat>("name: 'abc'\n").unwrap(),
        Flat { inner: Inner { name: "abc" } }
    );
}

#[test]
fn untagged_enum_plain_scalar() {
    let doc = "abc";
    let owned = serde_saphyr::from_str::<UntaggedOwned>(doc);
    assert_eq!(owned.as_ref().ok(), Some(&UntaggedOwned::Text("abc".into())), "owned variant");
    let borrowed = serde_saphyr::from_str::<Untagged>(doc);
    assert_eq!(
        borrowed.as_ref().ok(),
        Some(&Untagged::Text("abc")),
        "{doc:?}: `abc` is in the input verbatim (owned gives {}); expected Ok(Text(\"abc\")), actual {}",
        show(&owned),
        show(&borrowed)
    );
}

#[test]
fn flattened_struct_plain_scalar() {
    let doc = "name: abc\n";
    let owned = serde_saphyr::from_str::<FlatOwned>(doc);
    assert!(owned.is_ok(), "owned variant: {}", show(&owned));
    let borrowed = serde_saphyr::from_str::<Flat>(doc);
    assert_eq!(
        borrowed.as_ref().ok(),
        Some(&Flat { inner: Inner { name: "abc" } }),
        "{doc:?}: `abc` is in the input verbatim (owned gives {}); expected Ok(name: \"abc\"), actual {}",
        show(&owned),
        show(&borrowed)
    );
}

#[test]
fn internally_tagged_enum_plain_scalar() {
    let doc = "kind: Item\nname: abc\n";
    let owned = serde_saphyr::from_str::<TaggedOwned>(doc);
    assert!(owned.is_ok(), "owned variant: {}", show(&owned));
    let borrowed = serde_saphyr::from_str::<Tagged>(doc);
    assert_eq!(
        borrowed.as_ref().ok(),
        Some(&Tagged::Item { name: "abc" }),
        "{doc:?}: `abc` is in the input verbatim (owned gives {}); expected Ok(Item {{ name: \"abc\" }}), actual {}",
        show(&owned),
        show(&borrowed)
    );
}
